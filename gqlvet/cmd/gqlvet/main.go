// Command gqlvet decides the structural clauses of /verif/properties.jsonl for
// graphql-go/graphql by static analysis of the current source tree.
//
//	gqlvet -prop C07 -tier quick|thorough [-repo /repo] [-verif /verif]
//	gqlvet -all -json [-repo DIR]         all rules, machine-readable, no evidence (used by the self-test)
//	gqlvet -replay FILE                   re-run the rule named in a replay file
//	gqlvet -selftest [-prop C07]          apply each mutant to a scratch copy and require the expected report
package main

import (
	"bufio"
	"encoding/json"
	"flag"
	"fmt"
	"os"
	"path/filepath"
	"sort"
	"strconv"
	"strings"
	"time"

	"verif/gqlvet/core"
	"verif/gqlvet/rules"
)

func main() {
	prop := flag.String("prop", "", "property id (C01..C20)")
	tier := flag.String("tier", "quick", "quick|thorough")
	repo := flag.String("repo", "/repo", "tree to analyse")
	verif := flag.String("verif", "/verif", "verification root (known_findings.json, evidence/, replay/, mutants/)")
	all := flag.Bool("all", false, "run every rule (no evidence), print obligations")
	asJSON := flag.Bool("json", false, "with -all: print JSON")
	replay := flag.String("replay", "", "replay file to re-run")
	selftest := flag.Bool("selftest", false, "run the mutant self-test")
	list := flag.Bool("list", false, "list rules")
	arch := flag.String("goarch", "", "GOARCH for -all")
	tags := flag.String("tags", "", "build tags for -all")
	vtaF := flag.Bool("vta", true, "use the VTA-refined call graph (false: plain CHA)")
	dump := flag.Bool("dump-pinned", false, "print the identifier inventory of the tree (regenerates core/pinned.json; run on the pinned tree only)")
	flag.Parse()

	abs, err := filepath.Abs(*repo)
	if err != nil {
		fatal(err)
	}
	*repo = abs

	switch {
	case *dump:
		c, err := core.Load(core.Config{Repo: *repo})
		if err != nil {
			fatal(err)
		}
		b, err := c.DumpPinned()
		if err != nil {
			fatal(err)
		}
		os.Stdout.Write(b)
	case *list:
		for _, r := range rules.All() {
			fmt.Printf("%-28s props=%v min=%d\n    %s\n", r.Name, r.Props, r.Min, r.Doc)
		}
	case *replay != "":
		os.Exit(doReplay(*replay, *repo, *verif))
	case *selftest:
		os.Exit(doSelfTest(*prop, *repo, *verif, os.Stdout))
	case *all:
		os.Exit(doAll(core.Config{Repo: *repo, GOARCH: *arch, Tags: *tags, VTA: *vtaF}, *asJSON, *prop))
	case *prop != "":
		os.Exit(doProp(*prop, *tier, *repo, *verif))
	default:
		flag.Usage()
		os.Exit(2)
	}
}

func fatal(err error) {
	fmt.Fprintln(os.Stderr, "gqlvet:", err)
	os.Exit(2)
}

type runResult struct {
	Cfg  string
	Obs  []core.Obligation
	Pkgs int
	Fns  int
}

func runRules(cfg core.Config, rs []*core.Rule) (*runResult, error) {
	c, err := core.Load(cfg)
	if err != nil {
		return nil, err
	}
	res := &runResult{Cfg: cfg.String(), Pkgs: len(c.All), Fns: c.NumFuncs}
	for _, r := range rs {
		res.Obs = append(res.Obs, core.RunRule(c, r)...)
	}
	return res, nil
}

func doAll(cfg core.Config, asJSON bool, prop string) int {
	rs := rules.All()
	if prop != "" {
		rs = rules.ForProp(prop) // -all -prop Cxx: only the rules of one property (used by the per-property self-test)
	}
	res, err := runRules(cfg, rs)
	if err != nil {
		if asJSON {
			json.NewEncoder(os.Stdout).Encode(map[string]interface{}{"error": err.Error()})
		} else {
			fmt.Println("LOAD-ERROR:", err)
		}
		return 3
	}
	if asJSON {
		json.NewEncoder(os.Stdout).Encode(map[string]interface{}{"obligations": res.Obs, "packages": res.Pkgs, "functions": res.Fns})
		return 0
	}
	bad := 0
	for _, o := range res.Obs {
		if o.Status != core.Discharged {
			bad++
		}
		fmt.Printf("%-10s %s/%s  %s  %s\n", o.Status, o.Rule, o.Construct, o.Pos, o.Detail)
	}
	fmt.Printf("%d obligations, %d not discharged, %d packages, %d functions\n", len(res.Obs), bad, res.Pkgs, res.Fns)
	return 0
}

func doProp(prop, tier, repo, verif string) int {
	start := time.Now()
	rs := rules.ForProp(prop)
	seed, _ := strconv.Atoi(os.Getenv("VERIF_SEED"))
	evPath := filepath.Join(verif, "evidence", prop+".json")
	os.Remove(evPath)
	if len(rs) == 0 {
		fmt.Printf("gqlvet: no rules registered for %s\n", prop)
		return 2
	}
	known, err := core.LoadKnown(filepath.Join(verif, "known_findings.json"))
	if err != nil {
		fatal(err)
	}
	cfgs := []core.Config{{Repo: repo, VTA: true}}
	if tier == "thorough" {
		cfgs = []core.Config{{Repo: repo, VTA: true}, {Repo: repo, GOARCH: "386", VTA: true}, {Repo: repo, Tags: "verif", VTA: true}}
	}
	type keyed struct {
		o   core.Obligation
		cfg string
	}
	merged := map[string]keyed{} // worst status per key across configurations
	var order []string
	var cfgNames []string
	pkgs, fns := 0, 0
	rank := map[core.Status]int{core.Discharged: 0, core.Undecided: 1, core.Violated: 2}
	loadFailed := ""
	for _, cfg := range cfgs {
		res, err := runRules(cfg, rs)
		if err != nil {
			loadFailed = fmt.Sprintf("%s: %v", cfg, err)
			break
		}
		cfgNames = append(cfgNames, res.Cfg)
		pkgs, fns = res.Pkgs, res.Fns
		for _, o := range res.Obs {
			k := o.Key()
			if prev, ok := merged[k]; !ok {
				merged[k] = keyed{o, res.Cfg}
				order = append(order, k)
			} else if rank[o.Status] > rank[prev.o.Status] {
				merged[k] = keyed{o, res.Cfg}
			}
		}
	}
	sort.Strings(order)

	replayDir := filepath.Join(verif, "replay")
	// remove stale replay files of this property
	if old, _ := filepath.Glob(filepath.Join(replayDir, prop+"-*.txt")); old != nil {
		for _, f := range old {
			os.Remove(f)
		}
	}
	exit := 0
	nviol := 0
	if loadFailed != "" {
		o := core.Obligation{Rule: prop + "/LOAD", Construct: "load", Status: core.Undecided, Pos: "-",
			Detail: "the tree could not be loaded/type-checked, nothing was decided: " + loadFailed}
		p, _ := core.WriteReplay(replayDir, prop, 1, "load", o)
		fmt.Printf("UNDECIDED %s: %s\n", o.Rule, o.Detail)
		fmt.Printf("VIOLATION property=%s replay=%s\n", prop, p)
		nviol++
		exit = 1
	}

	stats := map[string]*core.RuleStat{}
	for _, r := range rs {
		stats[r.Name] = &core.RuleStat{Rule: r.Name, Doc: r.Doc, Min: r.Min}
	}
	var samples []interface{}
	var knownLines []string
	total, discharged, nontrivial := 0, 0, 0
	seenNT := map[string]bool{}
	for _, k := range order {
		o := merged[k].o
		st := stats[o.Rule]
		if st == nil {
			st = &core.RuleStat{Rule: o.Rule}
			stats[o.Rule] = st
		}
		total++
		st.Obligations++
		if o.Nontrivial && !seenNT[k] {
			seenNT[k] = true
			nontrivial++
		}
		switch o.Status {
		case core.Discharged:
			discharged++
			st.Discharged++
		default:
			if kf := known.Match(prop, o); kf != nil && o.Status == core.Violated {
				st.Known++
				line := fmt.Sprintf("KNOWN-FINDING: property=%s %s/%s at %s: %s [input: %s]", prop, o.Rule, o.Construct, o.Pos, kf.What, kf.Input)
				knownLines = append(knownLines, line)
				fmt.Println(line)
				continue
			}
			if o.Status == core.Violated {
				st.Violated++
			} else {
				st.Undecided++
			}
			nviol++
			p, err := core.WriteReplay(replayDir, prop, nviol, merged[k].cfg, o)
			if err != nil {
				fatal(err)
			}
			fmt.Printf("%s %s/%s at %s: %s\n", strings.ToUpper(string(o.Status)), o.Rule, o.Construct, o.Pos, o.Detail)
			fmt.Printf("VIOLATION property=%s replay=%s\n", prop, p)
			exit = 1
		}
	}
	// samples: up to 3 per rule, non-trivial first
	perRule := map[string]int{}
	for pass := 0; pass < 2; pass++ {
		for _, k := range order {
			o := merged[k].o
			if (pass == 0) != o.Nontrivial {
				continue
			}
			if perRule[o.Rule] >= 3 || len(samples) >= 40 {
				continue
			}
			perRule[o.Rule]++
			samples = append(samples, o)
		}
	}
	var rstats []core.RuleStat
	for _, r := range rs {
		rstats = append(rstats, *stats[r.Name])
	}
	pd := rules.PropDoc(prop)
	selfNote := ""
	if tier == "thorough" && exit == 0 {
		// re-validate the checker's sensitivity on the current tree
		var sb strings.Builder
		st := doSelfTestTo(prop, repo, verif, &sb)
		fmt.Print(sb.String())
		selfNote = strings.TrimSpace(lastLine(sb.String()))
		if st != 0 {
			o := core.Obligation{Rule: prop + "/SELFTEST", Construct: "mutants", Status: core.Undecided, Pos: "-",
				Detail: "mutant self-test failed: a planted breakage was not reported, so the checker cannot be trusted on this tree:\n" + sb.String()}
			nviol++
			p, _ := core.WriteReplay(replayDir, prop, nviol, "selftest", o)
			fmt.Printf("VIOLATION property=%s replay=%s\n", prop, p)
			exit = 1
		}
	}
	ev := core.Evidence{
		PropertyID: prop, Tier: tier, Seed: seed, Level: "other",
		Coverage: map[string]interface{}{
			"explanation":         pd.Explanation,
			"not_decided":         pd.NotDecided,
			"obligations":         total,
			"discharged":          discharged,
			"evaluations":         total,
			"distinct_nontrivial": nontrivial,
			"rule": "one obligation per filled instance of a rule template (rule/construct key, construct = function, type.field, kind, call site ordinal); " +
				"non-trivial = discharge needed a dominance, flow, pairing, closed-set or table argument rather than mere existence; distinct = distinct rule/construct keys",
			"samples":            samples,
			"per_rule":           rstats,
			"configurations":     cfgNames,
			"packages_loaded":    pkgs,
			"library_functions":  fns,
			"known_findings":     knownLines,
			"mutant_selftest":    selfNote,
			"checker_cmd":        fmt.Sprintf("bin/check %s %s", prop, tier),
			"exhaustive":         false,
			"technique":          "static analysis (go/packages + go/types + go/ssa + call graph); no library code is executed",
			"unresolved_or_load": loadFailed,
		},
		Assumptions: pd.Assumptions,
		WallS:       time.Since(start).Seconds(),
		Violations:  nviol,
	}
	if err := core.WriteJSON(evPath, ev); err != nil {
		fatal(err)
	}
	fmt.Printf("gqlvet %s %s: %d obligations, %d discharged, %d known findings, %d violations/undecided, %d rules, %.1fs\n",
		prop, tier, total, discharged, len(knownLines), nviol, len(rs), time.Since(start).Seconds())
	return exit
}

func lastLine(s string) string {
	s = strings.TrimSpace(s)
	if i := strings.LastIndex(s, "\n"); i >= 0 {
		return s[i+1:]
	}
	return s
}

func doReplay(file, repo, verif string) int {
	f, err := os.Open(file)
	if err != nil {
		fatal(err)
	}
	defer f.Close()
	var prop, rule, construct string
	sc := bufio.NewScanner(f)
	for sc.Scan() {
		l := sc.Text()
		switch {
		case strings.HasPrefix(l, "property: "):
			prop = strings.TrimPrefix(l, "property: ")
		case strings.HasPrefix(l, "rule: "):
			rule = strings.TrimPrefix(l, "rule: ")
		case strings.HasPrefix(l, "construct: "):
			construct = strings.TrimPrefix(l, "construct: ")
		}
	}
	if rule == "" {
		fatal(fmt.Errorf("%s: not a replay file", file))
	}
	var rs []*core.Rule
	for _, r := range rules.All() {
		if r.Name == rule {
			rs = append(rs, r)
		}
	}
	if len(rs) == 0 {
		fmt.Printf("rule %s is a framework obligation (load/self-test); re-run bin/check %s quick\n", rule, prop)
		return 1
	}
	res, err := runRules(core.Config{Repo: repo, VTA: true}, rs)
	if err != nil {
		fmt.Println("LOAD-ERROR:", err)
		return 1
	}
	for _, o := range res.Obs {
		if o.Construct == construct {
			fmt.Printf("%s %s/%s at %s\n%s\n", strings.ToUpper(string(o.Status)), o.Rule, o.Construct, o.Pos, o.Detail)
			if o.Status != core.Discharged {
				return 1
			}
			return 0
		}
	}
	fmt.Printf("obligation %s/%s no longer exists on this tree\n", rule, construct)
	return 0
}

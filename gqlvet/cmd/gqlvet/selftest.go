package main

import (
	"encoding/json"
	"fmt"
	"io"
	"os"
	"os/exec"
	"path/filepath"
	"sort"
	"strings"
	"sync"

	"verif/gqlvet/core"
)

// Mutant is a compiling, suite-green edit of /repo that breaks a property.
// The self-test applies it to a scratch copy and requires the listed
// obligations to be reported as violated or undecided.
type Mutant struct {
	Name       string   `json:"name"`
	Patch      string   `json:"patch"` // relative to /verif
	Properties []string `json:"properties"`
	Expect     []string `json:"expect"` // rule/construct keys (prefix match) that must not be discharged
	Reverse    bool     `json:"reverse,omitempty"`
	Note       string   `json:"note,omitempty"`
}

func loadMutants(verif string) ([]Mutant, error) {
	var ms []Mutant
	b, err := os.ReadFile(filepath.Join(verif, "mutants", "index.json"))
	if err == nil {
		if err := json.Unmarshal(b, &ms); err != nil {
			return nil, fmt.Errorf("mutants/index.json: %v", err)
		}
	}
	// seeded changes written by independent sub-agents
	metas, _ := filepath.Glob(filepath.Join(verif, "seeded", "*", "meta.json"))
	sort.Strings(metas)
	for _, m := range metas {
		b, err := os.ReadFile(m)
		if err != nil {
			continue
		}
		var meta struct {
			Property string   `json:"property"`
			Expect   []string `json:"expect"`
		}
		if json.Unmarshal(b, &meta) != nil || len(meta.Expect) == 0 {
			continue
		}
		dir := filepath.Dir(m)
		rel, _ := filepath.Rel(verif, filepath.Join(dir, "patch.diff"))
		ms = append(ms, Mutant{Name: "seeded/" + filepath.Base(dir), Patch: rel, Properties: []string{meta.Property}, Expect: meta.Expect})
	}
	return ms, nil
}

func doSelfTest(prop, repo, verif string, w io.Writer) int { return doSelfTestTo(prop, repo, verif, w) }

func doSelfTestTo(prop, repo, verif string, w io.Writer) int {
	ms, err := loadMutants(verif)
	if err != nil {
		fmt.Fprintln(w, "selftest:", err)
		return 1
	}
	var sel []Mutant
	for _, m := range ms {
		if prop == "" {
			sel = append(sel, m)
			continue
		}
		for _, p := range m.Properties {
			if p == prop {
				sel = append(sel, m)
			}
		}
	}
	if len(sel) == 0 {
		fmt.Fprintf(w, "selftest %s: no mutants registered\n", prop)
		return 0
	}
	self, err := os.Executable()
	if err != nil {
		fmt.Fprintln(w, "selftest:", err)
		return 1
	}
	type outcome struct {
		m   Mutant
		ok  bool
		msg string
	}
	outs := make([]outcome, len(sel))
	sem := make(chan struct{}, 8)
	var wg sync.WaitGroup
	for i, m := range sel {
		wg.Add(1)
		go func(i int, m Mutant) {
			defer wg.Done()
			sem <- struct{}{}
			defer func() { <-sem }()
			ok, msg := runMutant(self, repo, verif, m)
			outs[i] = outcome{m, ok, msg}
		}(i, m)
	}
	wg.Wait()
	fail, stale := 0, 0
	for _, o := range outs {
		st := "caught"
		if !o.ok {
			st = "MISSED"
			fail++
		} else if strings.HasPrefix(o.msg, "STALE") {
			st = "stale"
			stale++
		}
		fmt.Fprintf(w, "selftest %-6s %s: %s\n", st, o.m.Name, o.msg)
	}
	fmt.Fprintf(w, "selftest %s: %d mutants, %d caught, %d missed, %d stale (not applicable to this tree)\n", prop, len(outs), len(outs)-fail-stale, fail, stale)
	if fail > 0 {
		return 1
	}
	return 0
}

func runMutant(self, repo, verif string, m Mutant) (bool, string) {
	tmp, err := os.MkdirTemp("", "gqlvet-mut-")
	if err != nil {
		return false, err.Error()
	}
	defer os.RemoveAll(tmp)
	if out, err := exec.Command("rsync", "-a", "--exclude", ".git", repo+"/", tmp+"/").CombinedOutput(); err != nil {
		return false, fmt.Sprintf("copy: %v %s", err, out)
	}
	args := []string{"-p1", "-s", "-f", "-d", tmp, "-i", filepath.Join(verif, m.Patch)}
	if m.Reverse {
		args = append([]string{"-R"}, args...)
	}
	if out, err := exec.Command("patch", args...).CombinedOutput(); err != nil {
		return true, fmt.Sprintf("STALE (skipped): patch does not apply to the current tree: %s", firstLine(string(out)))
	}
	cmd := exec.Command(self, "-all", "-json", "-repo", tmp)
	cmd.Env = append(os.Environ(), "GOCACHE="+goCache())
	out, err := cmd.Output()
	if err != nil {
		if ee, ok := err.(*exec.ExitError); !ok || ee.ExitCode() != 3 {
			return false, fmt.Sprintf("analyser failed: %v", err)
		}
	}
	var res struct {
		Error       string            `json:"error"`
		Obligations []core.Obligation `json:"obligations"`
	}
	if err := json.Unmarshal(out, &res); err != nil {
		return false, "bad analyser output: " + err.Error()
	}
	if res.Error != "" {
		return false, "mutant does not load: " + res.Error
	}
	var hit []string
	for _, e := range m.Expect {
		found := false
		for _, o := range res.Obligations {
			if o.Status != core.Discharged && strings.HasPrefix(o.Key(), e) {
				found = true
				break
			}
		}
		if !found {
			return false, "expected report missing: " + e
		}
		hit = append(hit, e)
	}
	return true, strings.Join(hit, ", ")
}

func goCache() string {
	if c := os.Getenv("GOCACHE"); c != "" {
		return c
	}
	out, err := exec.Command("go", "env", "GOCACHE").Output()
	if err != nil {
		return ""
	}
	return strings.TrimSpace(string(out))
}

func firstLine(s string) string {
	s = strings.TrimSpace(s)
	if i := strings.Index(s, "\n"); i >= 0 {
		return s[:i]
	}
	return s
}

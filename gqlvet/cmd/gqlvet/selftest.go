package main

import (
	"encoding/json"
	"fmt"
	"io"
	"os"
	"os/exec"
	"path/filepath"
	"sort"
	"strings"
	"sync"

	"verif/gqlvet/core"
	"verif/gqlvet/rules"
)

// Mutant is a compiling, suite-green edit of /repo that breaks a property.
// The self-test applies it to a scratch copy and requires the listed
// obligations to be reported as violated or undecided.
type Mutant struct {
	Name       string   `json:"name"`
	Patch      string   `json:"patch"` // relative to /verif
	Properties []string `json:"properties"`
	Expect     []string `json:"expect"` // rule/construct keys (prefix match) that must not be discharged
	Reverse    bool     `json:"reverse,omitempty"`
	Note       string   `json:"note,omitempty"`
	Benign     bool     `json:"-"` // negative control: a behaviour-preserving refactoring, nothing may be reported
	Residual   []string `json:"-"` // documented residual reports of a negative control (benign/residual.json): tolerated
}

func loadMutants(verif string) ([]Mutant, error) {
	var ms []Mutant
	b, err := os.ReadFile(filepath.Join(verif, "mutants", "index.json"))
	if err == nil {
		if err := json.Unmarshal(b, &ms); err != nil {
			return nil, fmt.Errorf("mutants/index.json: %v", err)
		}
	}
	// seeded changes written by independent sub-agents
	metas, _ := filepath.Glob(filepath.Join(verif, "seeded", "*", "meta.json"))
	sort.Strings(metas)
	for _, m := range metas {
		b, err := os.ReadFile(m)
		if err != nil {
			continue
		}
		var meta struct {
			Property string   `json:"property"`
			Expect   []string `json:"expect"`
		}
		if json.Unmarshal(b, &meta) != nil || len(meta.Expect) == 0 {
			continue
		}
		dir := filepath.Dir(m)
		rel, _ := filepath.Rel(verif, filepath.Join(dir, "patch.diff"))
		ms = append(ms, Mutant{Name: "seeded/" + filepath.Base(dir), Patch: rel, Properties: []string{meta.Property}, Expect: meta.Expect})
	}
	// negative controls: behaviour-preserving refactorings written by independent sub-agents (benign/README.md)
	bens, _ := filepath.Glob(filepath.Join(verif, "benign", "*", "patch.diff"))
	sort.Strings(bens)
	// documented residuals: refactorings that change a signature or remove an anchor in a way a rule cannot follow;
	// the listed obligations answer "undecided: re-confirm" there (DESIGN.md section 9)
	var residual map[string]struct {
		Keys []string `json:"keys"`
		Why  string   `json:"why"`
	}
	if rb, err := os.ReadFile(filepath.Join(verif, "benign", "residual.json")); err == nil {
		if err := json.Unmarshal(rb, &residual); err != nil {
			return nil, fmt.Errorf("benign/residual.json: %v", err)
		}
	}
	for _, b := range bens {
		rel, _ := filepath.Rel(verif, b)
		id := filepath.Base(filepath.Dir(b))
		ms = append(ms, Mutant{Name: "benign/" + id, Patch: rel, Benign: true, Residual: residual[id].Keys})
	}
	return ms, nil
}

func doSelfTest(prop, repo, verif string, w io.Writer) int { return doSelfTestTo(prop, repo, verif, w) }

func doSelfTestTo(prop, repo, verif string, w io.Writer) int {
	ms, err := loadMutants(verif)
	if err != nil {
		fmt.Fprintln(w, "selftest:", err)
		return 1
	}
	var sel []Mutant
	for _, m := range ms {
		if prop == "" {
			sel = append(sel, m)
			continue
		}
		if m.Benign {
			sel = append(sel, m) // negative controls: judged on the rules of this property only
			continue
		}
		for _, p := range m.Properties {
			if p == prop {
				sel = append(sel, m)
			}
		}
	}
	if len(sel) == 0 {
		fmt.Fprintf(w, "selftest %s: no mutants registered\n", prop)
		return 0
	}
	self, err := os.Executable()
	if err != nil {
		fmt.Fprintln(w, "selftest:", err)
		return 1
	}
	type outcome struct {
		m   Mutant
		ok  bool
		msg string
	}
	outs := make([]outcome, len(sel))
	// what is not discharged on the tree itself (known findings): the reference for the negative controls
	baseline = nil
	propRules = nil
	selfProp = prop
	if prop != "" {
		propRules = map[string]bool{}
		for _, r := range rules.ForProp(prop) {
			propRules[r.Name] = true
		}
	}
	for _, m := range sel {
		if m.Benign && baseline == nil {
			baseline = notDischarged(self, repo)
		}
	}
	sem := make(chan struct{}, 6)
	var wg sync.WaitGroup
	for i, m := range sel {
		wg.Add(1)
		go func(i int, m Mutant) {
			defer wg.Done()
			sem <- struct{}{}
			defer func() { <-sem }()
			ok, msg := runMutant(self, repo, verif, m)
			outs[i] = outcome{m, ok, msg}
		}(i, m)
	}
	wg.Wait()
	fail, stale := 0, 0
	for _, o := range outs {
		st := "caught"
		if !o.ok {
			st = "MISSED"
			fail++
		} else if strings.HasPrefix(o.msg, "STALE") {
			st = "stale"
			stale++
		}
		if o.m.Benign && o.ok && st == "caught" {
			st = "quiet"
			if strings.HasPrefix(o.msg, "RESIDUAL") {
				st = "resid."
			}
		}
		if o.m.Benign && !o.ok {
			st = "ALARM"
		}
		fmt.Fprintf(w, "selftest %-6s %s: %s\n", st, o.m.Name, o.msg)
	}
	nBenign := 0
	for _, o := range outs {
		if o.m.Benign {
			nBenign++
		}
	}
	fmt.Fprintf(w, "selftest %s: %d mutants and seeded changes + %d negative controls, %d as expected, %d wrong, %d stale (not applicable to this tree)\n", prop, len(outs)-nBenign, nBenign, len(outs)-fail-stale, fail, stale)
	if fail > 0 {
		return 1
	}
	return 0
}

func runMutant(self, repo, verif string, m Mutant) (bool, string) {
	tmp, err := os.MkdirTemp("", "gqlvet-mut-")
	if err != nil {
		return false, err.Error()
	}
	defer os.RemoveAll(tmp)
	if out, err := exec.Command("rsync", "-a", "--exclude", ".git", repo+"/", tmp+"/").CombinedOutput(); err != nil {
		return false, fmt.Sprintf("copy: %v %s", err, out)
	}
	args := []string{"-p1", "-s", "-f", "-d", tmp, "-i", filepath.Join(verif, m.Patch)}
	if m.Reverse {
		args = append([]string{"-R"}, args...)
	}
	if out, err := exec.Command("patch", args...).CombinedOutput(); err != nil {
		return true, fmt.Sprintf("STALE (skipped): patch does not apply to the current tree: %s", firstLine(string(out)))
	}
	argv := []string{"-all", "-json", "-repo", tmp}
	if selfProp != "" {
		argv = append(argv, "-prop", selfProp) // per-property self-test: only that property's rules run on the copy
	}
	cmd := exec.Command(self, argv...)
	// many analyses run side by side: two threads each (the default of one per core for every process, `go list`
	// children included, made them four times slower through scheduler and GC contention)
	cmd.Env = append(os.Environ(), "GOCACHE="+goCache(), "GOMAXPROCS=2", "GOGC=200")
	out, err := cmd.Output()
	if err != nil {
		if ee, ok := err.(*exec.ExitError); !ok || ee.ExitCode() != 3 {
			return false, fmt.Sprintf("analyser failed: %v", err)
		}
	}
	var res struct {
		Error       string            `json:"error"`
		Obligations []core.Obligation `json:"obligations"`
	}
	if err := json.Unmarshal(out, &res); err != nil {
		return false, "bad analyser output: " + err.Error()
	}
	if res.Error != "" {
		return false, "mutant does not load: " + res.Error
	}
	if m.Benign {
		var alarms []string
		nres := 0
		for _, o := range res.Obligations {
			if o.Status != core.Discharged && !baseline[o.Key()] && (propRules == nil || propRules[o.Rule]) {
				tolerated := false
				for _, k := range m.Residual {
					if strings.HasPrefix(o.Key(), k) {
						tolerated = true
					}
				}
				if tolerated {
					nres++
					continue
				}
				alarms = append(alarms, o.Key())
			}
		}
		if len(alarms) > 0 {
			sort.Strings(alarms)
			if len(alarms) > 4 {
				alarms = append(alarms[:4], "…")
			}
			return false, "false alarm on a behaviour-preserving refactoring: " + strings.Join(alarms, ", ")
		}
		if nres > 0 {
			return true, fmt.Sprintf("RESIDUAL: %d documented report(s) (benign/residual.json), nothing else", nres)
		}
		return true, "nothing reported"
	}
	var hit []string
	expect := m.Expect
	if propRules != nil {
		// only this property's rules ran: the expectations that belong to them
		expect = nil
		for _, e := range m.Expect {
			parts := strings.SplitN(e, "/", 3)
			if len(parts) >= 2 && propRules[parts[0]+"/"+parts[1]] {
				expect = append(expect, e)
			}
		}
		if len(expect) == 0 {
			return true, "STALE (skipped): reported by rules of another property only"
		}
	}
	for _, e := range expect {
		found := false
		for _, o := range res.Obligations {
			if o.Status != core.Discharged && strings.HasPrefix(o.Key(), e) {
				found = true
				break
			}
		}
		if !found {
			return false, "expected report missing: " + e
		}
		hit = append(hit, e)
	}
	return true, strings.Join(hit, ", ")
}

var (
	selfProp  string // property whose self-test is running ("" = the complete one)
	baseline  map[string]bool
	propRules map[string]bool // rules of the property under test (nil: all)
)

// notDischarged runs every rule on the tree itself and returns the keys that are not discharged there.
func notDischarged(self, repo string) map[string]bool {
	out := map[string]bool{}
	argv := []string{"-all", "-json", "-repo", repo}
	if selfProp != "" {
		argv = append(argv, "-prop", selfProp)
	}
	cmd := exec.Command(self, argv...)
	cmd.Env = append(os.Environ(), "GOCACHE="+goCache(), "GOMAXPROCS=4", "GOGC=200")
	b, _ := cmd.Output()
	var res struct {
		Obligations []core.Obligation `json:"obligations"`
	}
	if json.Unmarshal(b, &res) == nil {
		for _, o := range res.Obligations {
			if o.Status != core.Discharged {
				out[o.Key()] = true
			}
		}
	}
	return out
}

func goCache() string {
	if c := os.Getenv("GOCACHE"); c != "" {
		return c
	}
	out, err := exec.Command("go", "env", "GOCACHE").Output()
	if err != nil {
		return ""
	}
	return strings.TrimSpace(string(out))
}

func firstLine(s string) string {
	s = strings.TrimSpace(s)
	if i := strings.Index(s, "\n"); i >= 0 {
		return s[:i]
	}
	return s
}

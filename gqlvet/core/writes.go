package core

import (
	"fmt"
	"go/token"
	"go/types"
	"sort"

	"golang.org/x/tools/go/callgraph"
	"golang.org/x/tools/go/ssa"
)

// Write is one instruction that mutates memory that may be shared: a store to
// a struct field, a map update/delete, an element store, or a store to a
// package-level variable.
type Write struct {
	In     ssa.Instruction
	Fn     *ssa.Function
	Kind   string       // "field", "map", "elem", "global", "delete", "list"
	Owner  *types.Named // struct type owning the written field (or the field holding the map/slice); nil for globals
	Field  *types.Var   // the field (nil for globals)
	Global *ssa.Global
	Fresh  bool // base object allocated in the same function (not yet shared)
	Desc   string
}

// Target renders "Type.field" or "global name".
func (w *Write) Target() string {
	if w.Global != nil {
		return "global " + N(w.Global)
	}
	if w.Owner != nil && w.Field != nil {
		return N(w.Owner.Obj()) + "." + N(w.Field)
	}
	return w.Desc
}

// baseOfAddr walks an address expression down to the struct field / global it
// is rooted in. It returns the FieldAddr (if any) closest to the root object
// and the root value.
func fieldRoot(addr ssa.Value) (fa *ssa.FieldAddr, glob *ssa.Global) {
	seen := map[ssa.Value]bool{}
	for addr != nil && !seen[addr] {
		seen[addr] = true
		switch x := addr.(type) {
		case *ssa.FieldAddr:
			return x, nil
		case *ssa.IndexAddr:
			// element of array/slice: the slice value may be loaded from a field
			switch b := x.X.(type) {
			case *ssa.UnOp: // *p where p is address of slice/array
				addr = b.X
			default:
				addr = b
			}
		case *ssa.Global:
			return nil, x
		case *ssa.UnOp:
			if x.Op == token.MUL {
				addr = x.X
			} else {
				return nil, nil
			}
		case *ssa.Slice:
			addr = x.X
		case *ssa.ChangeType:
			addr = x.X
		default:
			return nil, nil
		}
	}
	return nil, nil
}

func ownerOf(fa *ssa.FieldAddr) (*types.Named, *types.Var) {
	t := fa.X.Type()
	if p, ok := t.Underlying().(*types.Pointer); ok {
		t = p.Elem()
	}
	n, _ := t.(*types.Named)
	return n, FieldOf(fa)
}

// allFresh reports whether every origin of v is an allocation in fn.
func allFresh(v ssa.Value) bool {
	os := Origins(v)
	if len(os) == 0 {
		return false
	}
	for _, o := range os {
		switch x := o.(type) {
		case *ssa.Alloc:
			_ = x
		case *ssa.MakeMap, *ssa.MakeSlice:
		default:
			return false
		}
	}
	return true
}

// rootObject returns the innermost object pointer of a (possibly nested) field address.
func rootObject(fa *ssa.FieldAddr) ssa.Value {
	v := fa.X
	for {
		switch x := v.(type) {
		case *ssa.FieldAddr:
			v = x.X
		default:
			return v
		}
	}
}

// WritesIn inventories the writes of one function.
func WritesIn(fn *ssa.Function) []*Write {
	var out []*Write
	add := func(w *Write) { w.Fn = fn; out = append(out, w) }
	Instrs(fn, func(in ssa.Instruction) {
		switch x := in.(type) {
		case *ssa.Store:
			fa, g := fieldRoot(x.Addr)
			if g != nil {
				add(&Write{In: in, Kind: "global", Global: g})
				return
			}
			if fa == nil {
				return
			}
			owner, f := ownerOf(fa)
			if owner == nil || f == nil {
				return
			}
			kind := "field"
			if _, ok := x.Addr.(*ssa.IndexAddr); ok {
				kind = "elem"
			}
			add(&Write{In: in, Kind: kind, Owner: owner, Field: f, Fresh: allFresh(rootObject(fa))})
		case *ssa.MapUpdate:
			for _, w := range mapWrites(in, x.Map, "map") {
				add(w)
			}
		case *ssa.Call:
			if b, ok := x.Call.Value.(*ssa.Builtin); ok && N(b) == "delete" && len(x.Call.Args) > 0 {
				for _, w := range mapWrites(in, x.Call.Args[0], "delete") {
					add(w)
				}
				return
			}
			// container/list mutators on a list held in a struct field
			if callee := x.Call.StaticCallee(); callee != nil && callee.Pkg != nil && callee.Pkg.Pkg.Path() == "container/list" {
				switch N(callee) {
				case "PushFront", "PushBack", "Remove", "MoveToFront", "MoveToBack", "InsertBefore", "InsertAfter", "Init", "MoveBefore", "MoveAfter", "PushBackList", "PushFrontList":
					if len(x.Call.Args) > 0 {
						for _, o := range Origins(x.Call.Args[0]) {
							if u, ok := o.(*ssa.UnOp); ok && u.Op == token.MUL {
								if fa, _ := fieldRoot(u.X); fa != nil {
									owner, f := ownerOf(fa)
									if owner != nil {
										add(&Write{In: in, Kind: "list", Owner: owner, Field: f, Fresh: allFresh(rootObject(fa)), Desc: N(callee)})
									}
								}
							}
						}
					}
				}
			}
		}
	})
	return out
}

// mapWrites classifies a map mutation by where the map value comes from.
func mapWrites(in ssa.Instruction, m ssa.Value, kind string) []*Write {
	var out []*Write
	for _, o := range Origins(m) {
		switch x := o.(type) {
		case *ssa.UnOp:
			if x.Op != token.MUL {
				continue
			}
			fa, g := fieldRoot(x.X)
			if g != nil {
				out = append(out, &Write{In: in, Kind: kind, Global: g})
			} else if fa != nil {
				owner, f := ownerOf(fa)
				if owner != nil && f != nil {
					out = append(out, &Write{In: in, Kind: kind, Owner: owner, Field: f, Fresh: allFresh(rootObject(fa))})
				}
			}
		case *ssa.Field:
			if n := NamedOf(x.X.Type()); n != nil {
				out = append(out, &Write{In: in, Kind: kind, Owner: n, Field: FieldOf(x)})
			}
		case *ssa.Global:
			out = append(out, &Write{In: in, Kind: kind, Global: x})
		}
	}
	return out
}

// LockInfo describes a function that takes a sync.Mutex held in a struct field.
// Paired is true when every exit reachable from the Lock releases it: either
// the Unlock is deferred, or an explicit Unlock lies on every path to an exit.
type LockInfo struct {
	Fn       *ssa.Function
	Lock     ssa.Instruction
	Owner    *types.Named // struct type holding the mutex
	Field    *types.Var
	Deferred bool
	Unlocks  []ssa.Instruction // explicit (non-deferred) unlocks
	Paired   bool
	NLocks   int
	Shared   bool // the lock is taken with RLock: readers run concurrently, writes under it are unprotected
}

// LockOf finds the mutex discipline of fn (first Lock call on a struct-field mutex).
func LockOf(fn *ssa.Function) *LockInfo {
	var li *LockInfo
	type ul struct {
		f  *types.Var
		in ssa.Instruction
	}
	var unlocks []ul
	nlocks := 0
	Instrs(fn, func(in ssa.Instruction) {
		ci, ok := in.(ssa.CallInstruction)
		if !ok {
			return
		}
		callee := ci.Common().StaticCallee()
		if callee == nil || callee.Pkg == nil || callee.Pkg.Pkg.Path() != "sync" || len(ci.Common().Args) == 0 {
			return
		}
		fa, _ := ci.Common().Args[0].(*ssa.FieldAddr)
		if fa == nil {
			return
		}
		owner, f := ownerOf(fa)
		switch N(callee) {
		case "Lock", "RLock":
			if _, isCall := in.(*ssa.Call); isCall {
				nlocks++
				if li == nil {
					li = &LockInfo{Fn: fn, Lock: in, Owner: owner, Field: f, Shared: N(callee) == "RLock"}
				}
			}
		case "Unlock", "RUnlock":
			unlocks = append(unlocks, ul{f, in})
		}
	})
	if li == nil {
		return nil
	}
	li.NLocks = nlocks
	cut := map[*ssa.BasicBlock]bool{}
	for _, u := range unlocks {
		if u.f != li.Field {
			continue
		}
		if _, isDefer := u.in.(*ssa.Defer); isDefer {
			if InstrDominates(li.Lock, u.in) {
				li.Deferred = true
			}
		} else {
			li.Unlocks = append(li.Unlocks, u.in)
			cut[u.in.Block()] = true
		}
	}
	if li.Deferred {
		li.Paired = true
		return li
	}
	if len(li.Unlocks) == 0 {
		return li
	}
	// explicit unlocks: no exit reachable from the Lock without passing an unlock block
	li.Paired = true
	if cut[li.Lock.Block()] {
		return li // lock and unlock in the same block (straight-line critical section)
	}
	for b := range ReachableAvoiding(li.Lock.Block(), cut) {
		if len(b.Instrs) == 0 {
			continue
		}
		switch b.Instrs[len(b.Instrs)-1].(type) {
		case *ssa.Return, *ssa.Panic:
			li.Paired = false
		}
	}
	return li
}

// HoldsExclusive reports whether in executes with the lock held exclusively (Lock, not RLock).
func (li *LockInfo) HoldsExclusive(in ssa.Instruction) bool {
	return li != nil && !li.Shared && li.Holds(in)
}

// Holds reports whether instruction in (of li.Fn) executes with the lock held.
func (li *LockInfo) Holds(in ssa.Instruction) bool {
	if li == nil || !li.Paired || in.Parent() != li.Fn || !InstrDominates(li.Lock, in) {
		return false
	}
	if li.Deferred {
		return true
	}
	// explicit unlocks: held if no unlock is executed before `in` on every path, i.e. `in` is
	// not reachable from any unlock without re-locking; approximated by: some unlock is
	// reachable from `in` and no unlock dominates `in`.
	canReach := false
	for _, u := range li.Unlocks {
		if InstrDominates(u, in) {
			return false
		}
		if u.Block() == in.Block() && InstrIndex(in) < InstrIndex(u) {
			canReach = true
		} else if u.Block() != in.Block() && Reachable(in.Block())[u.Block()] {
			canReach = true
		}
	}
	return canReach
}

// ReachCfg configures a library-only call-graph traversal.
type ReachCfg struct {
	Roots     []*ssa.Function
	BlockNode func(fn *ssa.Function) bool       // do not enter these frames
	BlockEdge func(e *callgraph.Edge) bool      // do not follow these call edges
	OnlyLib   func(fn *ssa.Function) bool       // restrict to library functions
	Parent    map[*ssa.Function]*callgraph.Edge // filled: BFS tree for witnesses
}

// Reach computes the set of functions reachable from the roots.
func (c *Ctx) Reach(rc *ReachCfg) map[*ssa.Function]bool {
	g := c.CallGraph()
	seen := map[*ssa.Function]bool{}
	if rc.Parent == nil {
		rc.Parent = map[*ssa.Function]*callgraph.Edge{}
	}
	var queue []*ssa.Function
	for _, r := range rc.Roots {
		if r != nil && !seen[r] {
			seen[r] = true
			queue = append(queue, r)
		}
	}
	for len(queue) > 0 {
		fn := queue[0]
		queue = queue[1:]
		n := g.Nodes[fn]
		if n == nil {
			continue
		}
		// anonymous functions defined in fn are considered reachable with it (closures are
		// created there and called somewhere below)
		var next []*callgraph.Edge
		next = append(next, n.Out...)
		sort.SliceStable(next, func(i, j int) bool { return next[i].Callee.Func.String() < next[j].Callee.Func.String() })
		for _, e := range next {
			cal := e.Callee.Func
			if cal == nil || seen[cal] {
				continue
			}
			if rc.OnlyLib != nil && !rc.OnlyLib(cal) {
				continue
			}
			if IsPkgInit(cal) {
				continue // package initialisers cannot be called; CHA links them to every dynamic func() call
			}
			if rc.BlockEdge != nil && rc.BlockEdge(e) {
				continue
			}
			if rc.BlockNode != nil && rc.BlockNode(cal) {
				continue
			}
			seen[cal] = true
			rc.Parent[cal] = e
			queue = append(queue, cal)
		}
		for _, a := range fn.AnonFuncs {
			if !seen[a] {
				// closures: reachable if created; lock/constructor status follows the creating frame
				seen[a] = true
				rc.Parent[a] = &callgraph.Edge{Caller: n, Callee: &callgraph.Node{Func: a}}
				queue = append(queue, a)
			}
		}
	}
	return seen
}

// Witness renders the BFS path from a root to fn.
func Witness(parent map[*ssa.Function]*callgraph.Edge, fn *ssa.Function) string {
	var path []string
	for i := 0; fn != nil && i < 40; i++ {
		path = append([]string{fn.String()}, path...)
		e := parent[fn]
		if e == nil || e.Caller == nil {
			break
		}
		fn = e.Caller.Func
	}
	s := ""
	for i, p := range path {
		if i > 0 {
			s += " -> "
		}
		s += p
	}
	return s
}

// FuncsByName resolves a list of "rel:Name" / "rel:Type.Method" specs; unresolved names are returned.
func (c *Ctx) FuncsByName(specs []string) (fns []*ssa.Function, missing []string) {
	for _, s := range specs {
		rel, name := "", s
		for i := 0; i < len(s); i++ {
			if s[i] == ':' {
				rel, name = s[:i], s[i+1:]
				break
			}
		}
		fn := c.Func(rel, name)
		if fn == nil {
			missing = append(missing, s)
			continue
		}
		fns = append(fns, fn)
	}
	return
}

// RequestRoots are the request-time entry points (R in DESIGN.md).
var RequestRoots = []string{
	":Do", ":Execute", ":ExecutePlan", ":PlanQuery", ":ValidateDocument", ":VisitUsingRules",
	":Subscribe", ":ExecuteSubscription", ":PlanCache.Get", ":PlanCache.Reset", ":PlanCache.HitsMisses",
	"language/parser:Parse", "language/parser:ParseValue", "language/printer:Print", "language/visitor:Visit",
}

// ConstructionRoots are the construction-time entry points (K in DESIGN.md).
var ConstructionRoots = []string{
	":NewSchema", ":NewObject", ":NewInterface", ":NewUnion", ":NewEnum", ":NewInputObject", ":NewScalar",
	":NewList", ":NewNonNull", ":NewDirective", ":NewPlanCache",
	":Schema.AppendType", ":Schema.AddImplementation", ":Schema.AddExtensions",
	":Object.AddFieldConfig", ":Interface.AddFieldConfig", ":InputObject.AddFieldConfig",
}

func (w *Write) String() string { return fmt.Sprintf("%s %s in %s", w.Kind, w.Target(), w.Fn) }

// IsPkgInit reports whether fn is a package initialiser (synthetic init or a declared func init()).
func IsPkgInit(fn *ssa.Function) bool {
	if fn.Parent() != nil || fn.Signature.Recv() != nil {
		return false
	}
	n := N(fn)
	return n == "init" || (len(n) > 5 && n[:5] == "init#")
}

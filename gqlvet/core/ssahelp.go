package core

import (
	"go/ast"
	"go/constant"
	"go/token"
	"go/types"
	"sort"

	"golang.org/x/tools/go/ssa"
)

// WithAnon returns fn followed by all function literals nested in it
// (transitively), in source order.
func WithAnon(fn *ssa.Function) []*ssa.Function {
	out := []*ssa.Function{fn}
	for _, a := range fn.AnonFuncs {
		out = append(out, WithAnon(a)...)
	}
	return out
}

// Instrs calls f for every instruction of fn (not of nested literals).
func Instrs(fn *ssa.Function, f func(ssa.Instruction)) {
	for _, b := range fn.Blocks {
		for _, in := range b.Instrs {
			f(in)
		}
	}
}

// CallSites returns every call-like instruction (call, go, defer) in fn.
func CallSites(fn *ssa.Function) []ssa.CallInstruction {
	var out []ssa.CallInstruction
	Instrs(fn, func(in ssa.Instruction) {
		if ci, ok := in.(ssa.CallInstruction); ok {
			out = append(out, ci)
		}
	})
	return out
}

// Callee returns the statically known callee of a call (function, method via
// static dispatch, or the closure's function for a direct MakeClosure value).
func Callee(ci ssa.CallInstruction) *ssa.Function {
	cc := ci.Common()
	if f := cc.StaticCallee(); f != nil {
		return f
	}
	return nil
}

// IsCallTo reports whether ci statically calls fn.
func IsCallTo(ci ssa.CallInstruction, fn *ssa.Function) bool {
	return fn != nil && Callee(ci) == fn
}

// CallsTo lists the call sites in fn (optionally including nested literals)
// that statically call target.
func CallsTo(fn, target *ssa.Function, nested bool) []ssa.CallInstruction {
	var out []ssa.CallInstruction
	fns := []*ssa.Function{fn}
	if nested {
		fns = WithAnon(fn)
	}
	for _, f := range fns {
		for _, ci := range CallSites(f) {
			if IsCallTo(ci, target) {
				out = append(out, ci)
			}
		}
	}
	return out
}

// IsInvoke reports whether the call is an interface method invocation of the
// method named name on an interface type named ifaceName.
func IsInvoke(ci ssa.CallInstruction, method string) bool {
	cc := ci.Common()
	return cc.IsInvoke() && N(cc.Method) == method
}

// FieldOf resolves a FieldAddr/Field instruction to the struct field it names.
func FieldOf(v ssa.Value) *types.Var {
	switch x := v.(type) {
	case *ssa.FieldAddr:
		st := derefStruct(x.X.Type())
		if st != nil && x.Field < st.NumFields() {
			return st.Field(x.Field)
		}
	case *ssa.Field:
		st := derefStruct(x.X.Type())
		if st != nil && x.Field < st.NumFields() {
			return st.Field(x.Field)
		}
	}
	return nil
}

func derefStruct(t types.Type) *types.Struct {
	if p, ok := t.Underlying().(*types.Pointer); ok {
		t = p.Elem()
	}
	st, _ := t.Underlying().(*types.Struct)
	return st
}

// StructField finds field name of a named struct type.
func StructField(n *types.Named, name string) *types.Var {
	if n == nil {
		return nil
	}
	st, ok := n.Underlying().(*types.Struct)
	if !ok {
		return nil
	}
	for i := 0; i < st.NumFields(); i++ {
		if CanonName(st.Field(i)) == name {
			return st.Field(i)
		}
	}
	return nil
}

// Fields lists the fields of a named struct type.
func Fields(n *types.Named) []*types.Var {
	st, ok := n.Underlying().(*types.Struct)
	if !ok {
		return nil
	}
	var out []*types.Var
	for i := 0; i < st.NumFields(); i++ {
		out = append(out, st.Field(i))
	}
	return out
}

// Unwrap strips value-preserving wrappers: ChangeType, MakeInterface,
// ChangeInterface, Convert between identical underlying types, and loads
// through single-assignment allocs are NOT followed (use Origins for that).
func Unwrap(v ssa.Value) ssa.Value {
	for {
		switch x := v.(type) {
		case *ssa.ChangeType:
			v = x.X
		case *ssa.MakeInterface:
			v = x.X
		case *ssa.ChangeInterface:
			v = x.X
		default:
			return v
		}
	}
}

// Origins computes the backward slice of v through phi, wrappers, type
// assertions, extracts of tuple results are kept as-is, and loads from local
// allocs (following all stores to that alloc in the same function). It returns
// the set of leaf values (parameters, calls, constants, field loads, allocs
// whose address escapes, globals, free variables…).
func Origins(v ssa.Value) []ssa.Value {
	seen := map[ssa.Value]bool{}
	var leaves []ssa.Value
	var walk func(ssa.Value)
	walk = func(v ssa.Value) {
		if v == nil || seen[v] {
			return
		}
		seen[v] = true
		switch x := v.(type) {
		case *ssa.Phi:
			for _, e := range x.Edges {
				walk(e)
			}
		case *ssa.ChangeType:
			walk(x.X)
		case *ssa.MakeInterface:
			walk(x.X)
		case *ssa.ChangeInterface:
			walk(x.X)
		case *ssa.TypeAssert:
			walk(x.X)
		case *ssa.Extract:
			// (v, ok) forms of type-assert / lookup: follow the tuple if it is a comma-ok assert
			if ta, ok := x.Tuple.(*ssa.TypeAssert); ok && x.Index == 0 {
				walk(ta.X)
				return
			}
			leaves = append(leaves, v)
		case *ssa.UnOp:
			if x.Op == token.MUL {
				if al, ok := x.X.(*ssa.Alloc); ok {
					stores := StoresTo(al)
					if len(stores) > 0 {
						for _, s := range stores {
							walk(s.Val)
						}
						return
					}
				}
			}
			leaves = append(leaves, v)
		default:
			leaves = append(leaves, v)
		}
	}
	walk(v)
	return leaves
}

// StoresTo lists the Store instructions whose address is exactly the alloc.
func StoresTo(al *ssa.Alloc) []*ssa.Store {
	var out []*ssa.Store
	for _, r := range *al.Referrers() {
		if s, ok := r.(*ssa.Store); ok && s.Addr == al {
			out = append(out, s)
		}
	}
	return out
}

// IsNilConst reports whether v is the nil constant.
func IsNilConst(v ssa.Value) bool {
	c, ok := v.(*ssa.Const)
	return ok && c.Value == nil && !isBasicConst(c)
}

func isBasicConst(c *ssa.Const) bool {
	b, ok := c.Type().Underlying().(*types.Basic)
	return ok && b.Kind() != types.UntypedNil
}

// ConstString returns the string value of a constant.
func ConstString(v ssa.Value) (string, bool) {
	c, ok := v.(*ssa.Const)
	if !ok || c.Value == nil || c.Value.Kind() != constant.String {
		return "", false
	}
	return constant.StringVal(c.Value), true
}

// ConstInt returns the integer value of a constant.
func ConstInt(v ssa.Value) (int64, bool) {
	c, ok := v.(*ssa.Const)
	if !ok || c.Value == nil || c.Value.Kind() != constant.Int {
		return 0, false
	}
	return c.Int64(), true
}

// Reachable computes the set of blocks reachable from b (inclusive).
func Reachable(b *ssa.BasicBlock) map[*ssa.BasicBlock]bool {
	seen := map[*ssa.BasicBlock]bool{}
	var walk func(*ssa.BasicBlock)
	walk = func(x *ssa.BasicBlock) {
		if seen[x] {
			return
		}
		seen[x] = true
		for _, s := range x.Succs {
			walk(s)
		}
	}
	walk(b)
	return seen
}

// ReachableAvoiding computes blocks reachable from b without entering any
// block of avoid.
func ReachableAvoiding(b *ssa.BasicBlock, avoid map[*ssa.BasicBlock]bool) map[*ssa.BasicBlock]bool {
	seen := map[*ssa.BasicBlock]bool{}
	var walk func(*ssa.BasicBlock)
	walk = func(x *ssa.BasicBlock) {
		if seen[x] || avoid[x] {
			return
		}
		seen[x] = true
		for _, s := range x.Succs {
			walk(s)
		}
	}
	walk(b)
	return seen
}

// InstrIndex returns the index of in within its block.
func InstrIndex(in ssa.Instruction) int {
	for i, x := range in.Block().Instrs {
		if x == in {
			return i
		}
	}
	return -1
}

// InstrDominates reports whether a is executed before b on every path to b.
func InstrDominates(a, b ssa.Instruction) bool {
	if a.Block() == b.Block() {
		return InstrIndex(a) < InstrIndex(b)
	}
	return a.Block().Dominates(b.Block())
}

// LoopBlocks returns, for the natural loop whose header is h, the set of
// blocks in the loop (blocks that can reach h via a back edge without leaving
// the region dominated by h).
func LoopBlocks(h *ssa.BasicBlock) map[*ssa.BasicBlock]bool {
	loop := map[*ssa.BasicBlock]bool{}
	var stack []*ssa.BasicBlock
	for _, p := range h.Preds {
		if h.Dominates(p) { // back edge p->h
			if !loop[p] {
				loop[p] = true
				stack = append(stack, p)
			}
		}
	}
	if len(stack) == 0 {
		return nil
	}
	loop[h] = true
	for len(stack) > 0 {
		b := stack[len(stack)-1]
		stack = stack[:len(stack)-1]
		if b == h {
			continue
		}
		for _, p := range b.Preds {
			if !loop[p] {
				loop[p] = true
				stack = append(stack, p)
			}
		}
	}
	return loop
}

// Loops returns all natural loops of fn keyed by header.
func Loops(fn *ssa.Function) map[*ssa.BasicBlock]map[*ssa.BasicBlock]bool {
	out := map[*ssa.BasicBlock]map[*ssa.BasicBlock]bool{}
	for _, b := range fn.Blocks {
		if l := LoopBlocks(b); l != nil {
			out[b] = l
		}
	}
	return out
}

// InAnyLoop reports whether block b is inside some natural loop of its function.
func InAnyLoop(b *ssa.BasicBlock) bool {
	for _, l := range Loops(b.Parent()) {
		if l[b] {
			return true
		}
	}
	return false
}

// Returns lists the return instructions of fn.
func Returns(fn *ssa.Function) []*ssa.Return {
	var out []*ssa.Return
	Instrs(fn, func(in ssa.Instruction) {
		if r, ok := in.(*ssa.Return); ok {
			out = append(out, r)
		}
	})
	return out
}

// Defers lists the defer instructions of fn in order.
func Defers(fn *ssa.Function) []*ssa.Defer {
	var out []*ssa.Defer
	Instrs(fn, func(in ssa.Instruction) {
		if d, ok := in.(*ssa.Defer); ok {
			out = append(out, d)
		}
	})
	return out
}

// ClosureFn returns the function of a closure/func value used directly.
func ClosureFn(v ssa.Value) *ssa.Function {
	switch x := v.(type) {
	case *ssa.MakeClosure:
		return x.Fn.(*ssa.Function)
	case *ssa.Function:
		return x
	}
	return nil
}

// CallsRecover reports whether fn directly calls the recover builtin.
func CallsRecover(fn *ssa.Function) bool {
	found := false
	Instrs(fn, func(in ssa.Instruction) {
		if c, ok := in.(*ssa.Call); ok {
			if b, ok := c.Call.Value.(*ssa.Builtin); ok && N(b) == "recover" {
				found = true
			}
		}
	})
	return found
}

// BuiltinCalls lists calls to the builtin name in fn.
func BuiltinCalls(fn *ssa.Function, name string) []ssa.CallInstruction {
	var out []ssa.CallInstruction
	for _, ci := range CallSites(fn) {
		if b, ok := ci.Common().Value.(*ssa.Builtin); ok && N(b) == name {
			out = append(out, ci)
		}
	}
	return out
}

// SortedKeys returns map keys sorted.
func SortedKeys(m map[string]bool) []string {
	var out []string
	for k := range m {
		out = append(out, k)
	}
	sort.Strings(out)
	return out
}

// InspectFunc walks the syntax of a function declaration.
func InspectFunc(fd *ast.FuncDecl, f func(ast.Node) bool) {
	if fd != nil && fd.Body != nil {
		ast.Inspect(fd.Body, f)
	}
}

// RetVal returns the i-th result of a return, looking through the spill that
// go/ssa introduces in functions with defers (`*tN = v; rundefers; t = *tN; return t`).
func RetVal(ret *ssa.Return, i int) ssa.Value {
	if i >= len(ret.Results) {
		return nil
	}
	v := ret.Results[i]
	u, ok := v.(*ssa.UnOp)
	if !ok || u.Op != token.MUL {
		return v
	}
	al, ok := u.X.(*ssa.Alloc)
	if !ok {
		return v
	}
	// last store to the alloc in the same block before the load
	// only the spill pattern: the store is followed by rundefers (a plain local that is copied, modified and then
	// returned is a value of its own)
	var last ssa.Value
	spilled := false
	for _, in := range ret.Block().Instrs {
		if in == ssa.Instruction(u) {
			break
		}
		if st, ok := in.(*ssa.Store); ok && st.Addr == al {
			last = st.Val
			spilled = false
		}
		if _, ok := in.(*ssa.RunDefers); ok && last != nil {
			spilled = true
		}
	}
	if last != nil && spilled {
		return last
	}
	return v
}

// GoTarget returns the function a go statement starts: the literal it creates, or the named function it calls.
func GoTarget(g *ssa.Go) *ssa.Function {
	if f := ClosureFn(g.Call.Value); f != nil {
		return f
	}
	return g.Call.StaticCallee()
}

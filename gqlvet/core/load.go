// Package core holds the loader, the obligation model and the shared
// SSA/AST helpers used by every rule of gqlvet.
package core

import (
	"fmt"
	"go/ast"
	"go/token"
	"go/types"
	"os"
	"path/filepath"
	"sort"
	"strings"

	"golang.org/x/tools/go/callgraph"
	"golang.org/x/tools/go/callgraph/cha"
	"golang.org/x/tools/go/callgraph/vta"
	"golang.org/x/tools/go/packages"
	"golang.org/x/tools/go/ssa"
	"golang.org/x/tools/go/ssa/ssautil"
)

// ModPath is the import path of the analysed module.
const ModPath = "github.com/graphql-go/graphql"

// LibPkgs are the library packages (relative to ModPath) that are subject to
// rules. Everything else (examples, benchutil, testutil) is loaded so that the
// build is whole, but no rule applies to it.
var LibPkgs = []string{
	"", "gqlerrors", "language/ast", "language/kinds", "language/lexer",
	"language/location", "language/parser", "language/printer",
	"language/source", "language/typeInfo", "language/visitor",
}

// Config selects a build configuration.
type Config struct {
	Repo   string
	GOARCH string // "" = host
	Tags   string // "" = none
	VTA    bool   // refine the call graph with VTA
}

func (c Config) String() string {
	a := c.GOARCH
	if a == "" {
		a = "host"
	}
	cg := "cha"
	if c.VTA {
		cg = "vta"
	}
	return fmt.Sprintf("arch=%s tags=%q cg=%s", a, c.Tags, cg)
}

// Ctx is the loaded, type-checked program in SSA form.
type Ctx struct {
	Cfg   Config
	Fset  *token.FileSet
	All   []*packages.Package          // every package of ./...
	ByRel map[string]*packages.Package // library packages by relative path
	Prog  *ssa.Program
	SSA   map[string]*ssa.Package // library packages by relative path

	NumFuncs int // library functions with bodies (incl. anonymous)

	cg      *callgraph.Graph
	allFns  map[*ssa.Function]bool
	declIdx map[*types.Func]*ast.FuncDecl

	// identifiers by pinned name (alias.go)
	funcByCanon   map[string]*types.Func
	typeByCanon   map[string]*types.TypeName
	freshFuncs    map[*types.Func]bool // functions the pinned inventory does not know (extracted helpers, new code)
	pinnedCallers map[string][]string  // rel|key -> pinned static callers (for helpers inlined into their caller)
	pinnedParams  map[string][]string  // rel|key -> pinned parameter names (receiver first)
	Inlined       []string             // pinned functions that are gone and are looked for in their single pinned caller
	Aliases       []string             // renamed identifiers recognised by shape, "pkg.current = pinned name"
}

// Load type-checks ./... of cfg.Repo and builds SSA for it. Any load or type
// error is returned: a check must not pass on a tree it could not analyse.
func Load(cfg Config) (*Ctx, error) {
	env := append(os.Environ(),
		"GOFLAGS=-mod=mod", "GOPROXY=off", "GOSUMDB=off", "GOTOOLCHAIN=local", "GOWORK=off", "CGO_ENABLED=0")
	if cfg.GOARCH != "" {
		env = append(env, "GOARCH="+cfg.GOARCH)
	}
	pc := &packages.Config{
		// syntax and type information for the packages of the module (./...); their dependencies (the standard library) come
		// from export data in the build cache: no rule looks into a standard-library function body, and this makes a load
		// four times cheaper (the self-test loads the tree once per mutant and per negative control)
		Mode: packages.NeedName | packages.NeedFiles | packages.NeedCompiledGoFiles | packages.NeedImports |
			packages.NeedTypes | packages.NeedSyntax | packages.NeedTypesInfo |
			packages.NeedTypesSizes | packages.NeedModule,
		Dir:   cfg.Repo,
		Env:   env,
		Tests: false,
	}
	// -trimpath: export data is then keyed by content, not by directory, so the scratch copies the self-test analyses
	// (one per mutant and per negative control) hit the build cache for every package their patch does not touch
	pc.BuildFlags = []string{"-trimpath"}
	if cfg.Tags != "" {
		pc.BuildFlags = append(pc.BuildFlags, "-tags="+cfg.Tags)
	}
	pkgs, err := packages.Load(pc, "./...")
	if err != nil {
		return nil, fmt.Errorf("packages.Load: %v", err)
	}
	if len(pkgs) == 0 {
		return nil, fmt.Errorf("no packages loaded from %s", cfg.Repo)
	}
	var errs []string
	packages.Visit(pkgs, nil, func(p *packages.Package) {
		for _, e := range p.Errors {
			errs = append(errs, e.Error())
		}
	})
	if len(errs) > 0 {
		sort.Strings(errs)
		if len(errs) > 10 {
			errs = errs[:10]
		}
		return nil, fmt.Errorf("load/type errors: %s", strings.Join(errs, "; "))
	}
	c := &Ctx{Cfg: cfg, All: pkgs, ByRel: map[string]*packages.Package{}, SSA: map[string]*ssa.Package{}}
	prog, spkgs := ssautil.Packages(pkgs, ssa.InstantiateGenerics)
	c.Prog = prog
	c.Fset = prog.Fset
	for i, p := range pkgs {
		rel, ok := relPath(p.PkgPath)
		if !ok {
			continue
		}
		for _, l := range LibPkgs {
			if l == rel {
				c.ByRel[rel] = p
				c.SSA[rel] = spkgs[i]
			}
		}
	}
	for _, l := range LibPkgs {
		if c.ByRel[l] == nil || c.SSA[l] == nil {
			return nil, fmt.Errorf("library package %q not loaded", l)
		}
	}
	if err := c.buildAliases(); err != nil {
		return nil, err
	}
	prog.Build()
	c.allFns = ssautil.AllFunctions(prog)
	for fn := range c.allFns {
		if fn.Blocks != nil && c.IsLib(fn) {
			c.NumFuncs++
		}
	}
	// call sites of fresh functions, for provenance through their parameters
	for fn := range c.allFns {
		if fn.Blocks == nil || !c.IsLib(fn) {
			continue
		}
		Instrs(fn, func(in ssa.Instruction) {
			if ci, ok := in.(ssa.CallInstruction); ok {
				if cal := ci.Common().StaticCallee(); cal != nil && c.IsLib(cal) {
					freshMu.Lock()
					allCalls[cal] = append(allCalls[cal], ci)
					freshMu.Unlock()
				}
				if cal := ci.Common().StaticCallee(); cal != nil && c.IsFresh(cal) {
					freshMu.Lock()
					freshCalls[cal] = append(freshCalls[cal], ci)
					freshFns[cal] = true
					freshMu.Unlock()
				}
			}
		})
	}
	c.computeHosts()
	c.declIdx = map[*types.Func]*ast.FuncDecl{}
	for _, p := range c.ByRel {
		for _, f := range p.Syntax {
			for _, d := range f.Decls {
				if fd, ok := d.(*ast.FuncDecl); ok {
					if o, ok := p.TypesInfo.Defs[fd.Name].(*types.Func); ok {
						c.declIdx[o] = fd
						declCanonMu.Lock()
						declCanon[fd] = funcKey2(o)
						declCanonMu.Unlock()
					}
				}
			}
		}
	}
	return c, nil
}

func relPath(pkgPath string) (string, bool) {
	if pkgPath == ModPath {
		return "", true
	}
	if strings.HasPrefix(pkgPath, ModPath+"/") {
		return strings.TrimPrefix(pkgPath, ModPath+"/"), true
	}
	return "", false
}

// IsLib reports whether fn belongs to a library package.
func (c *Ctx) IsLib(fn *ssa.Function) bool {
	p := fn.Package()
	if p == nil {
		if fn.Parent() != nil {
			return c.IsLib(fn.Parent())
		}
		// wrappers/bound methods: use the object package
		if o := fn.Object(); o != nil && o.Pkg() != nil {
			rel, ok := relPath(o.Pkg().Path())
			if !ok {
				return false
			}
			_, lib := c.ByRel[rel]
			return lib
		}
		return false
	}
	rel, ok := relPath(p.Pkg.Path())
	if !ok {
		return false
	}
	_, lib := c.ByRel[rel]
	return lib
}

// LibFuncs returns all library functions with bodies (named, methods and
// anonymous), sorted by position for deterministic output.
func (c *Ctx) LibFuncs() []*ssa.Function {
	var out []*ssa.Function
	for fn := range c.allFns {
		if fn.Blocks != nil && c.IsLib(fn) && fn.Synthetic == "" {
			out = append(out, fn)
		}
	}
	sort.Slice(out, func(i, j int) bool {
		if out[i].Pos() != out[j].Pos() {
			return out[i].Pos() < out[j].Pos()
		}
		return out[i].String() < out[j].String()
	})
	return out
}

// Pkg returns a library package by relative path ("" is the root package).
func (c *Ctx) Pkg(rel string) *packages.Package { return c.ByRel[rel] }

// Func looks up a package-level function ("Do") or a method ("Plan.collectInto",
// pointer or value receiver) in library package rel. nil if absent.
func (c *Ctx) Func(rel, name string) *ssa.Function {
	return c.funcDepth(rel, name, 0)
}

func (c *Ctx) funcDepth(rel, name string, depth int) *ssa.Function {
	if o := c.funcByCanon[rel+"|"+name]; o != nil {
		if fn := c.Prog.FuncValue(o); fn != nil {
			return fn
		}
	}
	// A pinned helper that no longer exists under any name has usually been inlined. If the pinned tree had exactly one
	// caller of it (in its package) and that caller still exists, the helper's code is looked for there.
	if callers := c.pinnedCallers[rel+"|"+name]; len(callers) == 1 && depth < 3 && callers[0] != name {
		if fn := c.funcDepth(rel, callers[0], depth+1); fn != nil {
			note := rel + ":" + name + " -> " + callers[0]
			seen := false
			for _, x := range c.Inlined {
				if x == note {
					seen = true
				}
			}
			if !seen {
				c.Inlined = append(c.Inlined, note)
			}
			return fn
		}
	}
	return nil
}

// Decl returns the syntax of a named function or method.
func (c *Ctx) Decl(fn *ssa.Function) *ast.FuncDecl {
	if fn == nil {
		return nil
	}
	if o, ok := fn.Object().(*types.Func); ok {
		return c.declIdx[o]
	}
	return nil
}

// DeclOfObj returns the syntax of a function object of a library package.
func (c *Ctx) DeclOfObj(f *types.Func) *ast.FuncDecl { return c.declIdx[f] }

// DeclOf returns the syntax of a function by package and name.
func (c *Ctx) DeclOf(rel, name string) *ast.FuncDecl { return c.Decl(c.Func(rel, name)) }

// Named returns a named type of a library package.
func (c *Ctx) Named(rel, name string) *types.Named {
	tn := c.typeByCanon[rel+"|"+name]
	if tn == nil {
		return nil
	}
	n, _ := tn.Type().(*types.Named)
	return n
}

// Object looks up any package-level object.
func (c *Ctx) Object(rel, name string) types.Object {
	p := c.ByRel[rel]
	if p == nil {
		return nil
	}
	if tn := c.typeByCanon[rel+"|"+name]; tn != nil {
		return tn
	}
	if f := c.funcByCanon[rel+"|"+name]; f != nil {
		return f
	}
	return p.Types.Scope().Lookup(name)
}

// Info returns the types.Info of the library package containing pos.
func (c *Ctx) InfoFor(rel string) *types.Info { return c.ByRel[rel].TypesInfo }

// Pos renders a position relative to the repo root.
func (c *Ctx) Pos(p token.Pos) string {
	if !p.IsValid() {
		return "-"
	}
	pp := c.Fset.Position(p)
	rel, err := filepath.Rel(c.Cfg.Repo, pp.Filename)
	if err != nil {
		rel = pp.Filename
	}
	return fmt.Sprintf("%s:%d", rel, pp.Line)
}

// File returns the repo-relative file of a position.
func (c *Ctx) File(p token.Pos) string {
	s := c.Pos(p)
	if i := strings.LastIndex(s, ":"); i >= 0 {
		return s[:i]
	}
	return s
}

// CallGraph returns CHA (or VTA-refined) call graph, built once.
func (c *Ctx) CallGraph() *callgraph.Graph {
	if c.cg != nil {
		return c.cg
	}
	g := cha.CallGraph(c.Prog)
	if c.Cfg.VTA {
		g = vta.CallGraph(c.allFns, g)
	}
	c.cg = g
	return g
}

// Implementers lists the named library types (as T or *T) whose method set
// satisfies the interface type iface, sorted by name. Interface types
// themselves are excluded.
func (c *Ctx) Implementers(iface *types.Interface, rels ...string) []types.Type {
	var out []types.Type
	if len(rels) == 0 {
		rels = LibPkgs
	}
	for _, rel := range rels {
		p := c.ByRel[rel]
		sc := p.Types.Scope()
		for _, n := range sc.Names() {
			tn, ok := sc.Lookup(n).(*types.TypeName)
			if !ok || tn.IsAlias() {
				continue
			}
			t := tn.Type()
			if types.IsInterface(t) {
				continue
			}
			if types.Implements(t, iface) {
				out = append(out, t)
			} else if pt := types.NewPointer(t); types.Implements(pt, iface) {
				out = append(out, pt)
			}
		}
	}
	sort.Slice(out, func(i, j int) bool { return out[i].String() < out[j].String() })
	return out
}

// TypeName gives the short name of T or *T ("Object" for *graphql.Object).
func TypeName(t types.Type) string {
	if p, ok := t.(*types.Pointer); ok {
		t = p.Elem()
	}
	if n, ok := t.(*types.Named); ok {
		return CanonName(n.Obj())
	}
	return t.String()
}

// IsLibPkgFn reports whether fn belongs to one of the given library packages.
func (c *Ctx) IsLibPkgFn(fn *ssa.Function, rels ...string) bool {
	for fn.Parent() != nil {
		fn = fn.Parent()
	}
	if fn.Pkg == nil {
		return false
	}
	rel, ok := relPath(fn.Pkg.Pkg.Path())
	if !ok {
		return false
	}
	for _, r := range rels {
		if r == rel {
			return true
		}
	}
	return false
}

// LibPkgs returns the SSA packages of the library, sorted by relative path.
func (c *Ctx) LibPkgs() []*ssa.Package {
	var rels []string
	for rel := range c.SSA {
		rels = append(rels, rel)
	}
	sort.Strings(rels)
	var out []*ssa.Package
	for _, rel := range rels {
		if c.SSA[rel] != nil {
			out = append(out, c.SSA[rel])
		}
	}
	return out
}

// IsLibGlobal reports whether g is a package-level variable of a library package.
func (c *Ctx) IsLibGlobal(g *ssa.Global) bool {
	if g == nil || g.Pkg == nil {
		return false
	}
	rel, ok := relPath(g.Pkg.Pkg.Path())
	if !ok {
		return false
	}
	_, lib := c.ByRel[rel]
	return lib
}

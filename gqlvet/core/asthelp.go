package core

import (
	"go/ast"
	"go/token"
	"go/types"
	"strings"
	"sync"

	"golang.org/x/tools/go/packages"
	"golang.org/x/tools/go/types/typeutil"
)

// WalkStack walks n calling f with the stack of enclosing nodes (n itself last).
func WalkStack(n ast.Node, f func(n ast.Node, stack []ast.Node) bool) {
	var stack []ast.Node
	ast.Inspect(n, func(x ast.Node) bool {
		if x == nil {
			stack = stack[:len(stack)-1]
			return true
		}
		stack = append(stack, x)
		if !f(x, stack) {
			stack = stack[:len(stack)-1]
			return false
		}
		return true
	})
}

// PkgOfPos finds the library package whose syntax contains pos.
func (c *Ctx) PkgOfPos(pos token.Pos) *packages.Package {
	for _, p := range c.ByRel {
		for _, f := range p.Syntax {
			if f.Pos() <= pos && pos <= f.End() {
				return p
			}
		}
	}
	return nil
}

// CalleeObj returns the function or method object called by call (static
// resolution through go/types), or nil for dynamic calls and conversions.
func CalleeObj(info *types.Info, call *ast.CallExpr) *types.Func {
	f, _ := typeutil.Callee(info, call).(*types.Func)
	return f
}

// IsBuiltinCall reports whether call invokes the builtin name.
func IsBuiltinCall(info *types.Info, call *ast.CallExpr, name string) bool {
	id, ok := ast.Unparen(call.Fun).(*ast.Ident)
	if !ok {
		return false
	}
	b, ok := info.Uses[id].(*types.Builtin)
	return ok && N(b) == name
}

// FuncFullName gives "pkgrel.Recv.Name" for an object of the analysed module,
// or the full path for others.
func FuncFullName(f *types.Func) string {
	if f == nil {
		return ""
	}
	name := N(f)
	if sig, ok := f.Type().(*types.Signature); ok && sig.Recv() != nil {
		name = TypeName(sig.Recv().Type()) + "." + name
	}
	if f.Pkg() == nil {
		return name
	}
	p := f.Pkg().Path()
	if rel, ok := relPath(p); ok {
		if rel == "" {
			return name
		}
		return rel + "." + name
	}
	return p + "." + name
}

// IsPkgFunc reports whether f is the package-level function pkgPath.name.
func IsPkgFunc(f *types.Func, pkgPath, name string) bool {
	if f == nil || f.Pkg() == nil {
		return false
	}
	if sig, ok := f.Type().(*types.Signature); ok && sig.Recv() != nil {
		return false
	}
	return f.Pkg().Path() == pkgPath && N(f) == name
}

// IsMethod reports whether f is method name on named type (pkgPath, typeName),
// value or pointer receiver.
func IsMethod(f *types.Func, pkgPath, typeName, name string) bool {
	if f == nil || N(f) != name {
		return false
	}
	sig, ok := f.Type().(*types.Signature)
	if !ok || sig.Recv() == nil {
		return false
	}
	t := sig.Recv().Type()
	if p, ok := t.(*types.Pointer); ok {
		t = p.Elem()
	}
	n, ok := t.(*types.Named)
	if !ok || n.Obj().Pkg() == nil {
		return false
	}
	return n.Obj().Pkg().Path() == pkgPath && N(n.Obj()) == typeName
}

// ObjOf resolves an identifier or selector expression to its object.
func ObjOf(info *types.Info, e ast.Expr) types.Object {
	switch x := ast.Unparen(e).(type) {
	case *ast.Ident:
		if o := info.Uses[x]; o != nil {
			return o
		}
		return info.Defs[x]
	case *ast.SelectorExpr:
		if s := info.Selections[x]; s != nil {
			return s.Obj()
		}
		return info.Uses[x.Sel]
	}
	return nil
}

// FieldSel reports whether e is a selector of struct field `field` of named
// type typeName (any package of the module).
func FieldSel(info *types.Info, e ast.Expr, typeName, field string) bool {
	se, ok := ast.Unparen(e).(*ast.SelectorExpr)
	if !ok {
		return false
	}
	s := info.Selections[se]
	if s == nil || s.Kind() != types.FieldVal || N(s.Obj()) != field {
		return false
	}
	return TypeName(s.Recv()) == typeName
}

// NamedOf returns the named type of an expression's type (through one pointer).
func NamedOf(t types.Type) *types.Named {
	if t == nil {
		return nil
	}
	if p, ok := t.(*types.Pointer); ok {
		t = p.Elem()
	}
	n, _ := t.(*types.Named)
	return n
}

// IsNamed reports whether t (or *t) is the named type pkgPath.name.
func IsNamed(t types.Type, pkgPath, name string) bool {
	n := NamedOf(t)
	return n != nil && N(n.Obj()) == name && n.Obj().Pkg() != nil && n.Obj().Pkg().Path() == pkgPath
}

// RelOfPkg returns the module-relative path of a types.Package ("" root).
func RelOfPkg(p *types.Package) (string, bool) {
	if p == nil {
		return "", false
	}
	return relPath(p.Path())
}

// ExprString is types.ExprString with whitespace collapsed.
func ExprString(e ast.Expr) string {
	return strings.Join(strings.Fields(types.ExprString(e)), " ")
}

// FuncDecls iterates over every function declaration of the library packages.
func (c *Ctx) FuncDecls(f func(rel string, p *packages.Package, fd *ast.FuncDecl)) {
	for _, rel := range LibPkgs {
		p := c.ByRel[rel]
		for _, file := range p.Syntax {
			for _, d := range file.Decls {
				if fd, ok := d.(*ast.FuncDecl); ok && fd.Body != nil {
					f(rel, p, fd)
				}
			}
		}
	}
}

// DeclName returns "Recv.Name" or "Name" of a declaration.
func DeclName(fd *ast.FuncDecl) string {
	declCanonMu.RLock()
	cn, ok := declCanon[fd]
	declCanonMu.RUnlock()
	if ok {
		return cn
	}
	if fd.Recv != nil && len(fd.Recv.List) == 1 {
		t := fd.Recv.List[0].Type
		if s, ok := t.(*ast.StarExpr); ok {
			t = s.X
		}
		if id, ok := t.(*ast.Ident); ok {
			return id.Name + "." + fd.Name.Name
		}
	}
	return fd.Name.Name
}

var (
	declCanonMu sync.RWMutex
	declCanon   = map[*ast.FuncDecl]string{} // declaration -> pinned "Recv.name" (alias.go)
)

// FindDecl finds a declaration by package and "Recv.Name"/"Name".
func (c *Ctx) FindDecl(rel, name string) (*packages.Package, *ast.FuncDecl) {
	p := c.ByRel[rel]
	if p == nil {
		return nil, nil
	}
	for _, file := range p.Syntax {
		for _, d := range file.Decls {
			if fd, ok := d.(*ast.FuncDecl); ok && DeclName(fd) == name {
				return p, fd
			}
		}
	}
	// a helper that has been inlined into its single pinned caller is looked for there (Ctx.Func)
	if fn := c.Func(rel, name); fn != nil {
		if fd := c.Decl(fn); fd != nil {
			return p, fd
		}
	}
	return p, nil
}

// Pkg is an alias for packages.Package (for tools outside this module's core).
type Pkg = packages.Package

// LiteralFields returns the fields a composite literal sets, by name: the keyed elements of the literal itself and,
// when the literal (or its address) initialises a local variable, every later `v.F = expr` assignment to that
// variable in the same function. `x := &T{}; x.A = a; x.B = b` thereby reads like `&T{A: a, B: b}`.
func LiteralFields(info *types.Info, fn ast.Node, cl *ast.CompositeLit) (map[string]ast.Expr, []string) {
	set := map[string]ast.Expr{}
	var order []string
	for _, el := range cl.Elts {
		if kv, ok := el.(*ast.KeyValueExpr); ok {
			if id, ok := kv.Key.(*ast.Ident); ok {
				set[id.Name] = kv.Value
				order = append(order, id.Name)
			}
		}
	}
	var holder types.Object
	ast.Inspect(fn, func(n ast.Node) bool {
		switch x := n.(type) {
		case *ast.AssignStmt:
			for i, rhs := range x.Rhs {
				e := ast.Unparen(rhs)
				if u, ok := e.(*ast.UnaryExpr); ok {
					e = ast.Unparen(u.X)
				}
				if e == ast.Expr(cl) && i < len(x.Lhs) {
					if id, ok := x.Lhs[i].(*ast.Ident); ok {
						if holder = info.Defs[id]; holder == nil {
							holder = info.Uses[id]
						}
					}
				}
			}
		case *ast.ValueSpec:
			for i, rhs := range x.Values {
				e := ast.Unparen(rhs)
				if u, ok := e.(*ast.UnaryExpr); ok {
					e = ast.Unparen(u.X)
				}
				if e == ast.Expr(cl) && i < len(x.Names) {
					holder = info.Defs[x.Names[i]]
				}
			}
		}
		return true
	})
	if holder == nil {
		return set, order
	}
	ast.Inspect(fn, func(n ast.Node) bool {
		as, ok := n.(*ast.AssignStmt)
		if !ok || len(as.Lhs) != len(as.Rhs) {
			return true
		}
		for i, l := range as.Lhs {
			se, ok := l.(*ast.SelectorExpr)
			if !ok {
				continue
			}
			if id, ok := ast.Unparen(se.X).(*ast.Ident); ok && info.Uses[id] == holder {
				if _, dup := set[se.Sel.Name]; !dup {
					order = append(order, se.Sel.Name)
				}
				set[se.Sel.Name] = as.Rhs[i]
			}
		}
		return true
	})
	return set, order
}

package core

import (
	"go/ast"
	"go/types"
	"sort"
	"strings"
)

// SwitchInfo describes a type switch (or an if/else-if chain of type
// assertions) over one expression.
type SwitchInfo struct {
	Node       ast.Node
	Subject    types.Type      // static type of the switched expression
	Cases      map[string]bool // short type names of the case types ("Object" for *Object); "nil" for case nil
	Clauses    map[string]*ast.CaseClause
	HasDefault bool
	Default    *ast.CaseClause
}

// TypeSwitches lists the type switches in a function body (not descending into literals unless nested is true).
func TypeSwitches(info *types.Info, body ast.Node, nested bool) []*SwitchInfo {
	var out []*SwitchInfo
	ast.Inspect(body, func(n ast.Node) bool {
		if _, ok := n.(*ast.FuncLit); ok && !nested && n != body {
			return false
		}
		ts, ok := n.(*ast.TypeSwitchStmt)
		if !ok {
			return true
		}
		si := &SwitchInfo{Node: ts, Cases: map[string]bool{}, Clauses: map[string]*ast.CaseClause{}}
		var subj ast.Expr
		switch a := ts.Assign.(type) {
		case *ast.AssignStmt:
			if ta, ok := a.Rhs[0].(*ast.TypeAssertExpr); ok {
				subj = ta.X
			}
		case *ast.ExprStmt:
			if ta, ok := a.X.(*ast.TypeAssertExpr); ok {
				subj = ta.X
			}
		}
		if subj != nil {
			si.Subject = info.TypeOf(subj)
		}
		for _, cl := range ts.Body.List {
			cc := cl.(*ast.CaseClause)
			if cc.List == nil {
				si.HasDefault = true
				si.Default = cc
				continue
			}
			for _, e := range cc.List {
				if isNilExpr(info, e) {
					si.Cases["nil"] = true
					si.Clauses["nil"] = cc
					continue
				}
				t := info.TypeOf(e)
				if t != nil {
					k := t.String()
					if NamedOf(t) != nil {
						k = TypeName(t)
					}
					si.Cases[k] = true
					si.Clauses[k] = cc
				}
			}
		}
		out = append(out, si)
		return true
	})
	out = append(out, assertChains(info, body, nested)...)
	sort.SliceStable(out, func(i, j int) bool { return out[i].Node.Pos() < out[j].Node.Pos() })
	return out
}

// assertIf recognises `if x, ok := subj.(T); ok { … }` (also with `_` for x, and `if _, ok := …`).
func assertIf(info *types.Info, ifs *ast.IfStmt) (subj ast.Expr, typ ast.Expr) {
	as, ok := ifs.Init.(*ast.AssignStmt)
	if !ok || len(as.Lhs) != 2 || len(as.Rhs) != 1 {
		return nil, nil
	}
	ta, ok := ast.Unparen(as.Rhs[0]).(*ast.TypeAssertExpr)
	if !ok || ta.Type == nil {
		return nil, nil
	}
	okID, isID := as.Lhs[1].(*ast.Ident)
	cond, isCond := ast.Unparen(ifs.Cond).(*ast.Ident)
	if !isID || !isCond || okID.Name == "_" {
		return nil, nil
	}
	if info.Defs[okID] == nil && info.Uses[okID] == nil {
		return nil, nil
	}
	o := info.Defs[okID]
	if o == nil {
		o = info.Uses[okID]
	}
	if info.Uses[cond] != o {
		return nil, nil
	}
	return ta.X, ta.Type
}

// assertChains presents a chain of comma-ok type assertions on one subject — `if a, ok := v.(*A); ok {…} else if b, ok :=
// v.(*B); ok {…} else {…}`, or two or more such ifs that follow one another in a block — as a SwitchInfo, so that
// rules written for `switch x := v.(type)` see the same thing in either spelling. The clause of each type is a
// synthetic *ast.CaseClause holding the if body.
func assertChains(info *types.Info, body ast.Node, nested bool) []*SwitchInfo {
	subjKey := func(e ast.Expr) interface{} {
		// the switched value, not the (possibly shadowing) binder: `ttype, ok := ttype.(*T)` re-declares the name, but the
		// right-hand side still refers to the outer variable
		if id, ok := ast.Unparen(e).(*ast.Ident); ok {
			if o := info.Uses[id]; o != nil {
				return o
			}
		}
		return ExprString(e)
	}
	type group struct {
		si   *SwitchInfo
		n    int
		subj ast.Expr
	}
	groups := map[interface{}]*group{}
	var order []*group
	add := func(g *group, ifs *ast.IfStmt, typ ast.Expr) {
		if isNilExpr(info, typ) {
			return
		}
		cc := &ast.CaseClause{Case: ifs.Pos(), List: []ast.Expr{typ}, Colon: ifs.Body.Lbrace, Body: ifs.Body.List}
		if t := info.TypeOf(typ); t != nil {
			k := t.String()
			if NamedOf(t) != nil {
				k = TypeName(t)
			}
			if !g.si.Cases[k] {
				g.n++
			}
			g.si.Cases[k] = true
			if g.si.Clauses[k] == nil {
				g.si.Clauses[k] = cc
			}
		}
	}
	ast.Inspect(body, func(n ast.Node) bool {
		if _, ok := n.(*ast.FuncLit); ok && !nested && n != body {
			return false
		}
		ifs, ok := n.(*ast.IfStmt)
		if !ok {
			return true
		}
		subj, typ := assertIf(info, ifs)
		if subj == nil {
			return true
		}
		k := subjKey(subj)
		g := groups[k]
		if g == nil {
			g = &group{si: &SwitchInfo{Node: ifs, Subject: info.TypeOf(subj), Cases: map[string]bool{}, Clauses: map[string]*ast.CaseClause{}}, subj: subj}
			groups[k] = g
			order = append(order, g)
		}
		add(g, ifs, typ)
		// a final plain else of an else-if chain is the default arm
		if blk, ok := ifs.Else.(*ast.BlockStmt); ok {
			g.si.HasDefault = true
			g.si.Default = &ast.CaseClause{Case: blk.Pos(), Colon: blk.Lbrace, Body: blk.List}
		}
		return true
	})
	var out []*SwitchInfo
	for _, g := range order {
		if g.n >= 2 {
			out = append(out, g.si)
		}
	}
	return out
}

func isNilExpr(info *types.Info, e ast.Expr) bool {
	id, ok := ast.Unparen(e).(*ast.Ident)
	if !ok {
		return false
	}
	_, isNil := info.Uses[id].(*types.Nil)
	return isNil
}

// AssertChain collects, for a function body, the set of types T that appear in
// `x.(T)` comma-ok assertions (if-chains) on expressions whose static type is
// the named interface ifaceName. Returns short names.
func AssertChain(info *types.Info, body ast.Node, subjectIs func(types.Type) bool) map[string]bool {
	out := map[string]bool{}
	ast.Inspect(body, func(n ast.Node) bool {
		if ts, ok := n.(*ast.TypeSwitchStmt); ok {
			// `switch x := v.(type) { case *A: … }` says the same as a chain of assertions
			var subj ast.Expr
			switch a := ts.Assign.(type) {
			case *ast.AssignStmt:
				if ta, ok := a.Rhs[0].(*ast.TypeAssertExpr); ok {
					subj = ta.X
				}
			case *ast.ExprStmt:
				if ta, ok := a.X.(*ast.TypeAssertExpr); ok {
					subj = ta.X
				}
			}
			if subj != nil {
				if st := info.TypeOf(subj); st != nil && subjectIs(st) {
					for _, cl := range ts.Body.List {
						for _, e := range cl.(*ast.CaseClause).List {
							if t := info.TypeOf(e); t != nil && !isNilExpr(info, e) {
								out[TypeName(t)] = true
							}
						}
					}
				}
			}
			return true
		}
		ta, ok := n.(*ast.TypeAssertExpr)
		if !ok || ta.Type == nil {
			return true
		}
		if st := info.TypeOf(ta.X); st != nil && subjectIs(st) {
			if t := info.TypeOf(ta.Type); t != nil {
				out[TypeName(t)] = true
			}
		}
		return true
	})
	return out
}

// ImplementerNames returns the short names of the implementers of a named
// interface type of a library package, minus the excluded names.
func (c *Ctx) ImplementerNames(rel, iface string, inRels []string, exclude ...string) []string {
	n := c.Named(rel, iface)
	if n == nil {
		return nil
	}
	it, ok := n.Underlying().(*types.Interface)
	if !ok {
		return nil
	}
	ex := map[string]bool{}
	for _, e := range exclude {
		ex[e] = true
	}
	var out []string
	for _, t := range c.Implementers(it, inRels...) {
		nm := TypeName(t)
		if !ex[nm] {
			out = append(out, nm)
		}
	}
	sort.Strings(out)
	return out
}

// Missing returns the members of want that are not in have.
func Missing(want []string, have map[string]bool) []string {
	var out []string
	for _, w := range want {
		if !have[w] {
			out = append(out, w)
		}
	}
	return out
}

// Join is strings.Join on a sorted copy.
func Join(xs []string) string {
	ys := append([]string(nil), xs...)
	sort.Strings(ys)
	return strings.Join(ys, ", ")
}

// FieldsRead returns, for every struct type of package rel, the set of field
// names selected anywhere in the given syntax nodes (resolved through go/types).
func FieldsRead(info *types.Info, nodes []ast.Node) map[string]map[string]bool {
	out := map[string]map[string]bool{}
	for _, n := range nodes {
		ast.Inspect(n, func(x ast.Node) bool {
			se, ok := x.(*ast.SelectorExpr)
			if !ok {
				return true
			}
			s := info.Selections[se]
			if s == nil || s.Kind() != types.FieldVal {
				return true
			}
			tn := QualName(s.Recv())
			if out[tn] == nil {
				out[tn] = map[string]bool{}
			}
			out[tn][N(s.Obj())] = true
			return true
		})
	}
	return out
}

// QualName gives "pkgname.Type" for T or *T ("ast.Field", "graphql.Field").
func QualName(t types.Type) string {
	n := NamedOf(t)
	if n == nil {
		return t.String()
	}
	if n.Obj().Pkg() == nil {
		return N(n.Obj())
	}
	return n.Obj().Pkg().Name() + "." + CanonName(n.Obj())
}

// DeclaredImplementers returns the closed set the repository itself declares
// for an interface through compile-time assertions `var _ I = (*T)(nil)` in
// package rel (short names of the concrete T, sorted). Interface-to-interface
// assertions are skipped.
func (c *Ctx) DeclaredImplementers(rel, iface string) []string {
	p := c.ByRel[rel]
	if p == nil {
		return nil
	}
	var out []string
	for _, f := range p.Syntax {
		for _, d := range f.Decls {
			gd, ok := d.(*ast.GenDecl)
			if !ok {
				continue
			}
			for _, sp := range gd.Specs {
				vs, ok := sp.(*ast.ValueSpec)
				if !ok || len(vs.Names) != 1 || vs.Names[0].Name != "_" || vs.Type == nil || len(vs.Values) != 1 {
					continue
				}
				it := p.TypesInfo.TypeOf(vs.Type)
				if it == nil || TypeName(it) != iface || !types.IsInterface(it) {
					continue
				}
				vt := p.TypesInfo.TypeOf(vs.Values[0])
				if vt == nil || types.IsInterface(vt) {
					continue
				}
				out = append(out, TypeName(vt))
			}
		}
	}
	sort.Strings(out)
	return out
}

package core

import (
	"go/token"
	"go/types"
	"sort"
	"strings"
	"sync"

	"golang.org/x/tools/go/ssa"
)

// Classes computes the provenance classes of v: the backward slice (Origins,
// extended through free variables into the enclosing function) rendered as a
// sorted set of class strings:
//
//	field:T.f        load of field f of struct type T (any depth of address arithmetic)
//	*<class>         dereference of a pointer value of that class
//	param:T          a parameter of (short) type T
//	call:F           result of a static call of F ("Recv.Name" / "pkg.Name" for other packages)
//	dyn:T            result of a dynamic call through a value of named func type T / interface method
//	make             fresh map / slice / channel
//	alloc:T          fresh allocation (composite literal / new) of T
//	closure          function literal
//	const, nil       constants
//	global:N         package-level variable
//	index(<class>)   element of a slice/map of that class, lookup
//	range            element produced by a range/next instruction
func Classes(v ssa.Value) []string {
	set := map[string]bool{}
	classify(v, set, map[ssa.Value]bool{}, 0)
	var out []string
	for k := range set {
		out = append(out, k)
	}
	sort.Strings(out)
	return out
}

// HasClass reports whether v has class c among its provenance classes.
func HasClass(v ssa.Value, c string) bool {
	for _, x := range Classes(v) {
		if x == c {
			return true
		}
	}
	return false
}

// OnlyClasses reports whether all provenance classes of v are in allowed
// (allowed entries ending in '*' are prefixes).
func OnlyClasses(v ssa.Value, allowed ...string) (bool, []string) {
	cs := Classes(v)
	var bad []string
	for _, c := range cs {
		ok := false
		for _, a := range allowed {
			if a == c || (strings.HasSuffix(a, "*") && strings.HasPrefix(c, strings.TrimSuffix(a, "*"))) {
				ok = true
			}
			if t := ThinTarget(c); t != "" && t == a {
				ok = true // a helper that only forwards the accepted producer
			}
			// a local of type T read directly or through a pointer handed to a helper: the same thing
			if strings.HasPrefix(c, "*alloc:") && a == "local:"+strings.TrimPrefix(c, "*alloc:") {
				ok = true
			}
		}
		if !ok {
			bad = append(bad, c)
		}
	}
	return len(bad) == 0 && len(cs) > 0, bad
}

func shortType(t types.Type) string {
	if p, ok := t.(*types.Pointer); ok {
		t = p.Elem()
	}
	if n, ok := t.(*types.Named); ok {
		return CanonName(n.Obj())
	}
	s := t.String()
	if s == "interface{}" || s == "any" {
		return "interface{}"
	}
	return s
}

func calleeName(f *ssa.Function) string {
	name := N(f)
	if recv := f.Signature.Recv(); recv != nil {
		name = TypeName(recv.Type()) + "." + name
	}
	if f.Pkg != nil {
		if rel, ok := relPath(f.Pkg.Pkg.Path()); ok {
			if rel != "" {
				return rel[strings.LastIndex(rel, "/")+1:] + "." + name
			}
			return name
		}
		return f.Pkg.Pkg.Name() + "." + name
	}
	return name
}

func classify(v ssa.Value, set map[string]bool, seen map[ssa.Value]bool, depth int) {
	if v == nil || seen[v] || depth > 40 {
		return
	}
	seen[v] = true
	switch x := v.(type) {
	case *ssa.Phi:
		for _, e := range x.Edges {
			classify(e, set, seen, depth+1)
		}
	case *ssa.ChangeType:
		classify(x.X, set, seen, depth+1)
	case *ssa.MakeInterface:
		classify(x.X, set, seen, depth+1)
	case *ssa.ChangeInterface:
		classify(x.X, set, seen, depth+1)
	case *ssa.Convert:
		classify(x.X, set, seen, depth+1)
	case *ssa.TypeAssert:
		classify(x.X, set, seen, depth+1)
	case *ssa.Slice:
		classify(x.X, set, seen, depth+1)
	case *ssa.Extract:
		switch t := x.Tuple.(type) {
		case *ssa.TypeAssert:
			if x.Index == 0 {
				classify(t.X, set, seen, depth+1)
			} else {
				set["const"] = true
			}
		case *ssa.Call:
			for _, k := range callClasses(t, x.Index, depth) {
				set[k] = true
			}
		case *ssa.Lookup:
			if x.Index == 0 {
				sub := map[string]bool{}
				classify(t.X, sub, seen, depth+1)
				for k := range sub {
					set["index("+k+")"] = true
				}
			} else {
				set["const"] = true
			}
		case *ssa.Next:
			set["range"] = true
		case *ssa.Select:
			set["recv"] = true
		default:
			set["extract"] = true
		}
	case *ssa.Call:
		for _, k := range callClasses(x, 0, depth) {
			set[k] = true
		}
	case *ssa.Parameter:
		// a parameter of a helper extracted from a pinned function stands for what its call sites pass
		if sites := freshSites(x.Parent()); len(sites) > 0 {
			idx := -1
			for i, p := range x.Parent().Params {
				if p == x {
					idx = i
				}
			}
			resolved := idx >= 0
			for _, site := range sites {
				if idx < 0 || idx >= len(site.Common().Args) {
					resolved = false
				}
			}
			if resolved {
				for _, site := range sites {
					classify(site.Common().Args[idx], set, seen, depth+1)
				}
				return
			}
		}
		set["param:"+shortType(x.Type())] = true
	case *ssa.FreeVar:
		// pointer to a captured variable: resolve through the enclosing function's bindings
		resolveFreeVar(x, set, seen, depth)
	case *ssa.Const:
		if x.Value == nil {
			set["nil"] = true
		} else {
			set["const"] = true
		}
	case *ssa.MakeMap, *ssa.MakeSlice, *ssa.MakeChan:
		set["make"] = true
	case *ssa.MakeClosure, *ssa.Function:
		set["closure"] = true
	case *ssa.Alloc:
		set["alloc:"+shortType(x.Type())] = true
	case *ssa.Global:
		set["global:"+N(x)] = true
	case *ssa.Lookup:
		sub := map[string]bool{}
		classify(x.X, sub, seen, depth+1)
		for k := range sub {
			set["index("+k+")"] = true
		}
	case *ssa.Index:
		sub := map[string]bool{}
		classify(x.X, sub, seen, depth+1)
		for k := range sub {
			set["index("+k+")"] = true
		}
	case *ssa.Field:
		if isFreshStruct(x.X.Type()) {
			if fromParam(x.X, 0) {
				// a bundle of parameters: its field stands where the parameter stood
				set["param:"+shortType(x.Type())] = true
				return
			}
			if srcs := structFieldSources(x.X, x.Field, 0, map[ssa.Value]bool{}); len(srcs) > 0 {
				for _, v := range srcs {
					classify(v, set, seen, depth+1)
				}
				return
			}
		}
		if f := FieldOf(x); f != nil {
			set["field:"+shortType(x.X.Type())+"."+N(f)] = true
		}
	case *ssa.BinOp:
		set["binop"] = true
	case *ssa.UnOp:
		if x.Op != token.MUL {
			if x.Op == token.ARROW {
				set["recv"] = true
			} else {
				set["unop"] = true
			}
			return
		}
		switch a := x.X.(type) {
		case *ssa.FieldAddr:
			if isFreshStruct(a.X.Type()) {
				if fromParam(a.X, 0) {
					set["param:"+shortType(x.Type())] = true
					return
				}
				if srcs := structFieldSources(a.X, a.Field, 0, map[ssa.Value]bool{}); len(srcs) > 0 {
					for _, v := range srcs {
						classify(v, set, seen, depth+1)
					}
					return
				}
			}
			if f := FieldOf(a); f != nil {
				set["field:"+shortType(a.X.Type())+"."+N(f)] = true
			}
		case *ssa.IndexAddr:
			sub := map[string]bool{}
			classifyAddrBase(a.X, sub, seen, depth+1)
			for k := range sub {
				set["index("+k+")"] = true
			}
		case *ssa.Alloc:
			stores := StoresTo(a)
			if len(stores) == 0 {
				set["local:"+shortType(a.Type())] = true
				return
			}
			for _, s := range stores {
				classify(s.Val, set, seen, depth+1)
			}
		case *ssa.FreeVar:
			resolveFreeVar(a, set, seen, depth)
		case *ssa.Global:
			set["global:"+N(a)] = true
		default:
			sub := map[string]bool{}
			classify(a, sub, seen, depth+1)
			for k := range sub {
				set["*"+k] = true
			}
		}
	default:
		set["other"] = true
	}
}

func classifyAddrBase(v ssa.Value, set map[string]bool, seen map[ssa.Value]bool, depth int) {
	classify(v, set, seen, depth)
}

// callClasses is callClass, and notes thin wrappers: when the static callee is a function of the analysed module
// every exit of which returns (at result index idx) the result of one and the same other call, the class of that inner
// call is recorded as the wrapper's target (thinWrapper). `func coerce(p) (m, error) { return getVariableValues(...) }` and
// functions that add recover / logging around a single producer are thereby transparent to provenance tables.
func callClasses(c *ssa.Call, idx int, depth int) []string {
	own := []string{callClass(c)}
	f := c.Call.StaticCallee()
	if f == nil || f.Blocks == nil || f.Pkg == nil || !strings.HasPrefix(f.Pkg.Pkg.Path(), ModPath) || depth > 30 {
		return own
	}
	// a function the pinned tree does not have (a phase split off a pinned function, an extracted helper): its result
	// is whatever its exits return
	if isFreshFn(f) {
		set := map[string]bool{}
		for _, ret := range Returns(f) {
			if idx < len(ret.Results) {
				classify(RetVal(ret, idx), set, map[ssa.Value]bool{}, depth+8)
			}
		}
		if len(set) > 0 {
			var out []string
			for k := range set {
				out = append(out, k)
			}
			sort.Strings(out)
			return out
		}
		return own
	}
	inner := map[string]bool{}
	for _, ret := range Returns(f) {
		if idx >= len(ret.Results) {
			return own
		}
		v := RetVal(ret, idx)
		sub := map[string]bool{}
		classify(v, sub, map[ssa.Value]bool{}, depth+10)
		for k := range sub {
			inner[k] = true
		}
	}
	// error / zero exits next to the producing call are fine; anything else means the function computes something
	n, cls := 0, ""
	for k := range inner {
		switch {
		case k == "nil" || k == "const":
		case strings.HasPrefix(k, "call:") || strings.HasPrefix(k, "dyn:"):
			n++
			cls = k
		default:
			return own
		}
	}
	if n == 1 && cls != own[0] {
		thinMu.Lock()
		thinWrapper[own[0]] = cls
		thinMu.Unlock()
	}
	return own
}

// thinWrapper maps the class of a call to a thin wrapper to the class of the single call it forwards
// (see callClasses). Classification itself keeps the wrapper's own class, so that tables naming library
// functions keep working; OnlyClasses accepts a wrapper wherever the class it forwards is accepted.
var (
	thinMu      sync.Mutex
	thinWrapper = map[string]string{}
)

// ThinTarget returns the class a thin wrapper class forwards, or "".
func ThinTarget(class string) string {
	thinMu.Lock()
	defer thinMu.Unlock()
	return thinWrapper[class]
}

func callClass(c *ssa.Call) string {
	if f := c.Call.StaticCallee(); f != nil {
		return "call:" + calleeName(f)
	}
	if b, ok := c.Call.Value.(*ssa.Builtin); ok {
		return "builtin:" + N(b)
	}
	if c.Call.IsInvoke() {
		return "dyn:" + shortType(c.Call.Value.Type()) + "." + N(c.Call.Method)
	}
	return "dyn:" + shortType(c.Call.Value.Type())
}

func resolveFreeVar(fv *ssa.FreeVar, set map[string]bool, seen map[ssa.Value]bool, depth int) {
	fn := fv.Parent()
	idx := -1
	for i, f := range fn.FreeVars {
		if f == fv {
			idx = i
		}
	}
	p := fn.Parent()
	if idx < 0 || p == nil {
		set["freevar"] = true
		return
	}
	found := false
	for _, pf := range WithAnon(p) {
		Instrs(pf, func(in ssa.Instruction) {
			mc, ok := in.(*ssa.MakeClosure)
			if !ok || mc.Fn != fn || idx >= len(mc.Bindings) {
				return
			}
			found = true
			switch b := mc.Bindings[idx].(type) {
			case *ssa.Alloc:
				stores := StoresTo(b)
				if len(stores) == 0 {
					set["local:"+shortType(b.Type())] = true
				}
				for _, s := range stores {
					classify(s.Val, set, seen, depth+1)
				}
			default:
				classify(b, set, seen, depth+1)
			}
		})
	}
	if !found {
		set["freevar"] = true
	}
}

// LiteralStores groups, for every allocation of struct type named typeName in
// fn, the stores into its fields: alloc -> field name -> stored values.
func LiteralStores(fn *ssa.Function, typeName string) map[*ssa.Alloc]map[string][]ssa.Value {
	out := map[*ssa.Alloc]map[string][]ssa.Value{}
	Instrs(fn, func(in ssa.Instruction) {
		st, ok := in.(*ssa.Store)
		if !ok {
			return
		}
		fa, ok := st.Addr.(*ssa.FieldAddr)
		if !ok {
			return
		}
		al, ok := fa.X.(*ssa.Alloc)
		if !ok || shortType(al.Type()) != typeName {
			return
		}
		f := FieldOf(fa)
		if f == nil {
			return
		}
		if out[al] == nil {
			out[al] = map[string][]ssa.Value{}
		}
		out[al][N(f)] = append(out[al][N(f)], st.Val)
	})
	return out
}

var (
	freshMu    sync.RWMutex
	freshCalls = map[*ssa.Function][]ssa.CallInstruction{} // static call sites of fresh functions (alias.go)
)

var freshFns = map[*ssa.Function]bool{}

func isFreshFn(fn *ssa.Function) bool {
	freshMu.RLock()
	defer freshMu.RUnlock()
	return freshFns[fn]
}

func freshSites(fn *ssa.Function) []ssa.CallInstruction {
	if fn == nil {
		return nil
	}
	freshMu.RLock()
	defer freshMu.RUnlock()
	return freshCalls[fn]
}

// Fresh struct types (types the pinned inventory does not know: a bundle of parameters, the state handed from one phase
// of a split function to the next) are transparent to provenance: a field read from such a struct has the provenance of
// what was stored into that field where the struct was built.
var (
	freshTypes = map[*types.TypeName]bool{}
	allCalls   = map[*ssa.Function][]ssa.CallInstruction{} // static call sites of every library function
)

func isFreshStruct(t types.Type) bool {
	if p, ok := t.Underlying().(*types.Pointer); ok {
		t = p.Elem()
	}
	n, ok := t.(*types.Named)
	if !ok {
		return false
	}
	if _, isStruct := n.Underlying().(*types.Struct); !isStruct {
		return false
	}
	freshMu.RLock()
	defer freshMu.RUnlock()
	return freshTypes[n.Obj()]
}

// structFieldSources: the values stored into field `field` of the struct (or pointer to struct) value base, followed
// through local cells, whole-struct copies, parameters (to the arguments of every static call site) and results of
// library calls. Empty when the construction site cannot be found.
func structFieldSources(base ssa.Value, field int, depth int, seen map[ssa.Value]bool) []ssa.Value {
	if base == nil || seen[base] || depth > 8 {
		return nil
	}
	seen[base] = true
	var out []ssa.Value
	fromCell := func(cell ssa.Value) {
		refs := cell.Referrers()
		if refs == nil {
			return
		}
		for _, ref := range *refs {
			switch r := ref.(type) {
			case *ssa.FieldAddr:
				if r.Field != field || r.Referrers() == nil {
					continue
				}
				for _, rr := range *r.Referrers() {
					if st, ok := rr.(*ssa.Store); ok && st.Addr == ssa.Value(r) {
						out = append(out, st.Val)
					}
				}
			case *ssa.Store:
				if r.Addr == cell { // whole-struct copy into the cell
					out = append(out, structFieldSources(r.Val, field, depth+1, seen)...)
				}
			}
		}
	}
	switch x := base.(type) {
	case *ssa.Alloc:
		fromCell(x)
	case *ssa.UnOp:
		if x.Op == token.MUL {
			if al, ok := x.X.(*ssa.Alloc); ok {
				fromCell(al)
			} else {
				out = append(out, structFieldSources(x.X, field, depth+1, seen)...)
			}
		}
	case *ssa.Phi:
		for _, e := range x.Edges {
			out = append(out, structFieldSources(e, field, depth+1, seen)...)
		}
	case *ssa.Parameter:
		idx := -1
		for i, p := range x.Parent().Params {
			if p == x {
				idx = i
			}
		}
		freshMu.RLock()
		sites := allCalls[x.Parent()]
		freshMu.RUnlock()
		for _, site := range sites {
			if idx >= 0 && idx < len(site.Common().Args) {
				out = append(out, structFieldSources(site.Common().Args[idx], field, depth+1, seen)...)
			}
		}
	case *ssa.Call:
		if f := x.Call.StaticCallee(); f != nil && f.Blocks != nil {
			for _, ret := range Returns(f) {
				if len(ret.Results) == 1 {
					out = append(out, structFieldSources(RetVal(ret, 0), field, depth+1, seen)...)
				}
			}
		}
	case *ssa.Extract:
		if call, ok := x.Tuple.(*ssa.Call); ok {
			if f := call.Call.StaticCallee(); f != nil && f.Blocks != nil {
				for _, ret := range Returns(f) {
					if x.Index < len(ret.Results) {
						out = append(out, structFieldSources(RetVal(ret, x.Index), field, depth+1, seen)...)
					}
				}
			}
		}
	case *ssa.MakeInterface:
		out = append(out, structFieldSources(x.X, field, depth+1, seen)...)
	}
	return out
}

// fromParam: the struct value (or cell) is a parameter of its function, or a local copy of one.
func fromParam(v ssa.Value, depth int) bool {
	if depth > 4 {
		return false
	}
	switch x := v.(type) {
	case *ssa.Parameter:
		return true
	case *ssa.UnOp:
		if x.Op == token.MUL {
			return fromParam(x.X, depth+1)
		}
	case *ssa.Alloc:
		for _, st := range StoresTo(x) {
			if fromParam(st.Val, depth+1) {
				return true
			}
		}
	}
	return false
}

package core

import (
	"go/types"

	"golang.org/x/tools/go/ssa"
)

// UserFuncTypes are the named func types of the root package through which
// the library calls user code.
var UserFuncTypes = map[string]bool{
	"FieldResolveFn": true, "IsTypeOfFn": true, "ResolveTypeFn": true,
	"SerializeFn": true, "ParseValueFn": true, "ParseLiteralFn": true,
	"ParseFinishFunc": true, "ValidationFinishFunc": true, "ExecutionFinishFunc": true, "ResolveFieldFinishFunc": true,
	"FieldsThunk": true, "InterfacesThunk": true, "UnionTypesThunk": true, "InputObjectConfigFieldMapThunk": true,
}

// UserIfaces are interfaces implemented by user code.
var UserIfaces = map[string]bool{"Extension": true, "FieldResolver": true}

// UserCallback classifies a call instruction: it returns a short description
// ("FieldResolveFn", "Extension.Init", "thunk func() (interface{}, error)") when
// the call dynamically invokes user-supplied code, "" otherwise.
func UserCallback(ci ssa.CallInstruction) string {
	cc := ci.Common()
	if cc.IsInvoke() {
		if n := NamedOf(cc.Value.Type()); n != nil && n.Obj().Pkg() != nil && n.Obj().Pkg().Path() == ModPath && UserIfaces[N(n.Obj())] {
			return N(n.Obj()) + "." + N(cc.Method)
		}
		return ""
	}
	if cc.StaticCallee() != nil {
		return ""
	}
	if _, ok := cc.Value.(*ssa.Builtin); ok {
		return ""
	}
	t := cc.Value.Type()
	if n, ok := t.(*types.Named); ok {
		if n.Obj().Pkg() != nil && n.Obj().Pkg().Path() == ModPath && UserFuncTypes[N(n.Obj())] {
			return N(n.Obj())
		}
		return ""
	}
	// unnamed func types obtained by asserting an interface{} (thunks: func() interface{},
	// func() (interface{}, error)) — a dynamic call on a value that came out of a type assertion
	// or out of user data is user code.
	if _, ok := t.Underlying().(*types.Signature); ok {
		for _, o := range Origins(cc.Value) {
			switch x := o.(type) {
			case *ssa.Parameter:
				if types.IsInterface(x.Type()) {
					return "thunk " + t.String()
				}
			case *ssa.Extract:
				if _, ok := x.Tuple.(*ssa.TypeAssert); ok {
					return "thunk " + t.String()
				}
			}
			if ta, ok := o.(*ssa.TypeAssert); ok {
				_ = ta
				return "thunk " + t.String()
			}
		}
		// value came through a type assertion somewhere on the chain
		if viaAssert(cc.Value, map[ssa.Value]bool{}) {
			return "thunk " + t.String()
		}
	}
	return ""
}

func viaAssert(v ssa.Value, seen map[ssa.Value]bool) bool {
	if seen[v] {
		return false
	}
	seen[v] = true
	switch x := v.(type) {
	case *ssa.TypeAssert:
		return true
	case *ssa.Extract:
		if _, ok := x.Tuple.(*ssa.TypeAssert); ok {
			return true
		}
	case *ssa.Phi:
		for _, e := range x.Edges {
			if viaAssert(e, seen) {
				return true
			}
		}
	case *ssa.ChangeType:
		return viaAssert(x.X, seen)
	}
	return false
}

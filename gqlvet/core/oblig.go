package core

import (
	"fmt"
	"go/token"
	"sort"
)

// Status of an obligation.
type Status string

const (
	Discharged Status = "discharged"
	Violated   Status = "violated"
	Undecided  Status = "undecided"
)

// Obligation is one filled instance of a rule template.
type Obligation struct {
	Rule       string `json:"rule"`      // e.g. "C07/OWN-writes"
	Construct  string `json:"construct"` // stable semantic key, never a line number
	Pos        string `json:"pos"`       // file:line (diagnostic only)
	Status     Status `json:"status"`
	Detail     string `json:"detail,omitempty"`
	Nontrivial bool   `json:"nontrivial,omitempty"` // needed a dominance/flow/pairing/table argument
}

// Key identifies an obligation across runs.
func (o Obligation) Key() string { return o.Rule + "/" + o.Construct }

// Rule describes one rule of a property.
type Rule struct {
	Name  string // "C07/OWN-writes"
	Props []string
	Doc   string // what is decided, and what is not
	Min   int    // minimum number of obligations confirmed by hand on the pinned tree
	Run   func(c *Ctx, r *Reporter)
}

// Reporter collects the obligations of one rule run.
type Reporter struct {
	c    *Ctx
	rule string
	Obs  []Obligation
	seen map[string]int
}

func NewReporter(c *Ctx, rule string) *Reporter {
	return &Reporter{c: c, rule: rule, seen: map[string]int{}}
}

func (r *Reporter) add(st Status, construct string, pos token.Pos, nontrivial bool, format string, args ...interface{}) {
	// constructs must be unique per rule: disambiguate repeated keys by ordinal
	r.seen[construct]++
	if n := r.seen[construct]; n > 1 {
		construct = fmt.Sprintf("%s#%d", construct, n)
	}
	r.Obs = append(r.Obs, Obligation{
		Rule: r.rule, Construct: construct, Pos: r.c.Pos(pos), Status: st,
		Detail: fmt.Sprintf(format, args...), Nontrivial: nontrivial,
	})
}

// OK records a discharged obligation that needed a non-trivial argument.
func (r *Reporter) OK(construct string, pos token.Pos, format string, args ...interface{}) {
	r.add(Discharged, construct, pos, true, format, args...)
}

// Exists records a discharged obligation whose discharge is mere existence.
func (r *Reporter) Exists(construct string, pos token.Pos, format string, args ...interface{}) {
	r.add(Discharged, construct, pos, false, format, args...)
}

// Bad records a violated obligation.
func (r *Reporter) Bad(construct string, pos token.Pos, format string, args ...interface{}) {
	r.add(Violated, construct, pos, true, format, args...)
}

// Unknown records an obligation the rule could not decide (unresolved anchor,
// unrecognised idiom). It fails the check.
func (r *Reporter) Unknown(construct string, pos token.Pos, format string, args ...interface{}) {
	r.add(Undecided, construct, pos, true, format, args...)
}

// Check is a convenience: OK if cond, Bad otherwise.
func (r *Reporter) Check(cond bool, construct string, pos token.Pos, okMsg, badMsg string) {
	if cond {
		r.OK(construct, pos, "%s", okMsg)
	} else {
		r.Bad(construct, pos, "%s", badMsg)
	}
}

// RunRule executes a rule, converting panics of the analyser into an undecided
// obligation and enforcing the minimum instance count.
func RunRule(c *Ctx, rule *Rule) (obs []Obligation) {
	r := NewReporter(c, rule.Name)
	func() {
		defer func() {
			if p := recover(); p != nil {
				r.Unknown("analyser-panic", token.NoPos, "rule panicked: %v", p)
			}
		}()
		rule.Run(c, r)
	}()
	if len(r.Obs) < rule.Min {
		r.Unknown("instance-count", token.NoPos,
			"rule matched %d instances, fewer than the %d confirmed by hand on the pinned tree (anchor moved or construct removed)",
			len(r.Obs), rule.Min)
	}
	sort.SliceStable(r.Obs, func(i, j int) bool { return r.Obs[i].Construct < r.Obs[j].Construct })
	return r.Obs
}

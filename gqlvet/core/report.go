package core

import (
	"encoding/json"
	"fmt"
	"os"
	"path/filepath"
	"sort"
	"strings"
)

// KnownFinding is a genuine defect of graphql-go/graphql that is recorded
// rather than repaired. It is identified by rule + construct (never by line),
// so a different violation of the same rule is still reported.
type KnownFinding struct {
	Property  string `json:"property"`
	Rule      string `json:"rule"`
	Construct string `json:"construct"`
	What      string `json:"what"`  // what fails
	Input     string `json:"input"` // concrete failing input / call site / history
}

// KnownFile is /verif/known_findings.json. It is read, never written, at run time.
type KnownFile struct {
	Findings []KnownFinding `json:"findings"`
	Fixed    []string       `json:"fixed"` // "fixed: property=<id> <commit> <what failed>" — suppresses nothing
}

func LoadKnown(path string) (*KnownFile, error) {
	b, err := os.ReadFile(path)
	if err != nil {
		if os.IsNotExist(err) {
			return &KnownFile{}, nil
		}
		return nil, err
	}
	var k KnownFile
	if err := json.Unmarshal(b, &k); err != nil {
		return nil, fmt.Errorf("%s: %v", path, err)
	}
	return &k, nil
}

func (k *KnownFile) Match(prop string, o Obligation) *KnownFinding {
	for i := range k.Findings {
		f := &k.Findings[i]
		if f.Rule == o.Rule && f.Construct == o.Construct && (f.Property == "" || f.Property == prop) {
			return f
		}
	}
	return nil
}

// RuleStat is the per-rule summary in the evidence file.
type RuleStat struct {
	Rule        string `json:"rule"`
	Doc         string `json:"doc"`
	Min         int    `json:"min_instances"`
	Obligations int    `json:"obligations"`
	Discharged  int    `json:"discharged"`
	Violated    int    `json:"violated"`
	Undecided   int    `json:"undecided"`
	Known       int    `json:"known_findings"`
}

// Evidence mirrors EVIDENCE.schema.json.
type Evidence struct {
	PropertyID  string                 `json:"property_id"`
	Tier        string                 `json:"tier"`
	Seed        int                    `json:"seed"`
	Level       string                 `json:"level"`
	Coverage    map[string]interface{} `json:"coverage"`
	Assumptions []string               `json:"assumptions"`
	WallS       float64                `json:"wall_s"`
	Violations  int                    `json:"violations"`
}

func WriteJSON(path string, v interface{}) error {
	if err := os.MkdirAll(filepath.Dir(path), 0o755); err != nil {
		return err
	}
	b, err := json.MarshalIndent(v, "", " ")
	if err != nil {
		return err
	}
	tmp := path + ".tmp"
	if err := os.WriteFile(tmp, append(b, '\n'), 0o644); err != nil {
		return err
	}
	return os.Rename(tmp, path)
}

// WriteReplay writes one replay file for a violated/undecided obligation and
// returns its path.
func WriteReplay(dir, prop string, n int, cfg string, o Obligation) (string, error) {
	if err := os.MkdirAll(dir, 0o755); err != nil {
		return "", err
	}
	p := filepath.Join(dir, fmt.Sprintf("%s-%d.txt", prop, n))
	var sb strings.Builder
	fmt.Fprintf(&sb, "property: %s\nrule: %s\nconstruct: %s\nstatus: %s\nat: %s\nconfig: %s\n\n%s\n",
		prop, o.Rule, o.Construct, o.Status, o.Pos, cfg, o.Detail)
	fmt.Fprintf(&sb, "\nreplay: bin/check --replay %s   (re-runs rule %s on the current /repo and prints this obligation)\n", p, o.Rule)
	return p, os.WriteFile(p, []byte(sb.String()), 0o644)
}

// SortObs sorts obligations by key.
func SortObs(obs []Obligation) {
	sort.SliceStable(obs, func(i, j int) bool { return obs[i].Key() < obs[j].Key() })
}

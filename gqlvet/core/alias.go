package core

import (
	_ "embed"
	"encoding/json"
	"fmt"
	"go/ast"
	"go/types"
	"sort"
	"strings"
	"sync"

	"golang.org/x/tools/go/ssa"
)

// Renames of unexported identifiers must not make a check fail: the rules name their anchors (functions, types,
// fields) as they are called on the pinned tree, and this file maps the identifiers of the tree under analysis back
// to those names. pinned.json (written by `gqlvet -dump-pinned` on the pinned tree) lists every named type, struct
// field and function of the library packages with a fingerprint of its shape. At load time an identifier that is
// not in the list is given the pinned name of the one missing identifier of the same package whose fingerprint it
// has — only when that match is unique in both directions. Everything that compares or prints names goes through
// N / CanonName, so a renamed anchor is found under its pinned name and report keys stay stable.

//go:embed pinned.json
var pinnedJSON []byte

// Pinned is the inventory of one library package on the pinned tree.
type Pinned struct {
	Types map[string]PinnedType `json:"types"` // type name -> shape
	Funcs map[string]string     `json:"funcs"` // "Recv.name" / "name" -> signature fingerprint
	// Flat: the same with the receiver counted as first parameter (a function turned into a method, or the reverse,
	// keeps this fingerprint). Callers: the functions of the package that statically call the function (for helpers that
	// have been inlined into their caller).
	Flat    map[string]string   `json:"flat,omitempty"`
	Callers map[string][]string `json:"callers,omitempty"`
	// Params: parameter names in order (receiver first, as in the SSA form), so that a rule that talks about "the third
	// argument" of a function follows the parameter when the signature is reordered
	Params map[string][]string `json:"params,omitempty"`
}

type PinnedType struct {
	FP     string      `json:"fp"`
	Fields [][2]string `json:"fields,omitempty"` // (name, type fingerprint) in declaration order
}

var (
	aliasMu   sync.RWMutex
	aliasName = map[types.Object]string{} // object of the analysed tree -> pinned name (only where it differs)
	aliasKey  = map[types.Object]string{} // function of the tree -> pinned "Recv.name" / "name" when the receiver changed too
)

// N returns the pinned name of a named thing (types.Object, *ssa.Function, *ssa.Builtin, ...): the name it has in the
// tree under analysis unless the alias table knows it under another one.
func N(x interface{ Name() string }) string {
	switch o := x.(type) {
	case *ssa.Function:
		if o != nil && o.Object() != nil {
			return CanonName(o.Object())
		}
	case types.Object:
		return CanonName(o)
	}
	return x.Name()
}

// CanonName is N for a types.Object.
func CanonName(o types.Object) string {
	if o == nil {
		return ""
	}
	aliasMu.RLock()
	n, ok := aliasName[o]
	aliasMu.RUnlock()
	if ok {
		return n
	}
	return o.Name()
}

func inModule(p *types.Package) bool {
	return p != nil && (p.Path() == ModPath || strings.HasPrefix(p.Path(), ModPath+"/"))
}

// typeFP renders a type with every named type of the analysed module replaced by canon(name) (or "·" when canon is
// nil): the shape of a declaration independent of what its own package calls things.
func typeFP(t types.Type, canon func(*types.TypeName) string, depth int) string {
	if depth > 6 {
		return "…"
	}
	switch x := t.(type) {
	case *types.Named:
		if inModule(x.Obj().Pkg()) {
			if canon == nil {
				return "·"
			}
			return x.Obj().Pkg().Name() + "." + canon(x.Obj())
		}
		if x.Obj().Pkg() == nil {
			return x.Obj().Name()
		}
		return x.Obj().Pkg().Path() + "." + x.Obj().Name()
	case *types.Alias:
		return typeFP(types.Unalias(x), canon, depth)
	case *types.Pointer:
		return "*" + typeFP(x.Elem(), canon, depth+1)
	case *types.Slice:
		return "[]" + typeFP(x.Elem(), canon, depth+1)
	case *types.Array:
		return fmt.Sprintf("[%d]%s", x.Len(), typeFP(x.Elem(), canon, depth+1))
	case *types.Map:
		return "map[" + typeFP(x.Key(), canon, depth+1) + "]" + typeFP(x.Elem(), canon, depth+1)
	case *types.Chan:
		return fmt.Sprintf("chan%d %s", x.Dir(), typeFP(x.Elem(), canon, depth+1))
	case *types.Signature:
		return "func" + tupleFP(x.Params(), canon, depth+1) + tupleFP(x.Results(), canon, depth+1) + fmt.Sprint(x.Variadic())
	case *types.Struct:
		var fs []string
		for i := 0; i < x.NumFields(); i++ {
			fs = append(fs, typeFP(x.Field(i).Type(), canon, depth+1))
		}
		return "struct{" + strings.Join(fs, ";") + "}"
	case *types.Interface:
		var ms []string
		for i := 0; i < x.NumMethods(); i++ {
			ms = append(ms, x.Method(i).Name())
		}
		sort.Strings(ms)
		return "interface{" + strings.Join(ms, ";") + "}"
	case *types.Basic:
		return x.Name()
	case *types.Tuple:
		return tupleFP(x, canon, depth)
	}
	return t.String()
}

func tupleFP(t *types.Tuple, canon func(*types.TypeName) string, depth int) string {
	var ps []string
	for i := 0; i < t.Len(); i++ {
		ps = append(ps, typeFP(t.At(i).Type(), canon, depth))
	}
	return "(" + strings.Join(ps, ",") + ")"
}

// namedFP is the fingerprint of a type declaration: shape of the underlying type plus its exported method names and
// the number of unexported methods.
func namedFP(tn *types.TypeName) string {
	n, ok := tn.Type().(*types.Named)
	if !ok {
		return "alias:" + typeFP(tn.Type(), nil, 0)
	}
	var exp []string
	unexp := 0
	for i := 0; i < n.NumMethods(); i++ {
		if m := n.Method(i); m.Exported() {
			exp = append(exp, m.Name())
		} else {
			unexp++
		}
	}
	sort.Strings(exp)
	return typeFP(n.Underlying(), nil, 0) + "|" + strings.Join(exp, ",") + "|" + fmt.Sprint(unexp)
}

func recvTypeName(f *types.Func) *types.TypeName {
	sig, _ := f.Type().(*types.Signature)
	if sig == nil || sig.Recv() == nil {
		return nil
	}
	t := sig.Recv().Type()
	if p, ok := t.(*types.Pointer); ok {
		t = p.Elem()
	}
	if n, ok := t.(*types.Named); ok {
		return n.Obj()
	}
	return nil
}

func funcFP(f *types.Func, canon func(*types.TypeName) string) string {
	sig := f.Type().(*types.Signature)
	ptr := ""
	if sig.Recv() != nil {
		if _, ok := sig.Recv().Type().(*types.Pointer); ok {
			ptr = "*"
		}
	}
	return ptr + "func" + tupleFP(sig.Params(), canon, 0) + tupleFP(sig.Results(), canon, 0) + fmt.Sprint(sig.Variadic())
}

// flatFP is funcFP with the receiver as first parameter.
func flatFP(f *types.Func, canon func(*types.TypeName) string) string {
	sig := f.Type().(*types.Signature)
	recv := ""
	if sig.Recv() != nil {
		recv = typeFP(sig.Recv().Type(), canon, 0)
	}
	ps := tupleFP(sig.Params(), canon, 0)
	if recv != "" {
		if ps == "()" {
			ps = "(" + recv + ")"
		} else {
			ps = "(" + recv + "," + ps[1:]
		}
	}
	return "func" + ps + tupleFP(sig.Results(), canon, 0) + fmt.Sprint(sig.Variadic())
}

// pkgFuncs lists the package-level functions and methods declared in the syntax of a package.
func pkgFuncs(p *Pkg) []*types.Func {
	var out []*types.Func
	for _, f := range p.Syntax {
		for _, d := range f.Decls {
			if fd, ok := d.(*ast.FuncDecl); ok {
				if o, ok := p.TypesInfo.Defs[fd.Name].(*types.Func); ok {
					out = append(out, o)
				}
			}
		}
	}
	return out
}

func pkgTypeNames(p *Pkg) []*types.TypeName {
	var out []*types.TypeName
	sc := p.Types.Scope()
	for _, n := range sc.Names() {
		if tn, ok := sc.Lookup(n).(*types.TypeName); ok {
			out = append(out, tn)
		}
	}
	return out
}

func funcKey(f *types.Func, canon func(*types.TypeName) string) string {
	if tn := recvTypeName(f); tn != nil {
		return canon(tn) + "." + f.Name()
	}
	return f.Name()
}

// DumpPinned renders the inventory of the loaded tree (run on the pinned tree to regenerate pinned.json).
func (c *Ctx) DumpPinned() ([]byte, error) {
	ident := func(tn *types.TypeName) string { return tn.Name() }
	out := map[string]Pinned{}
	for rel, p := range c.ByRel {
		pin := Pinned{Types: map[string]PinnedType{}, Funcs: map[string]string{}, Flat: map[string]string{}, Callers: map[string][]string{}, Params: map[string][]string{}}
		for _, tn := range pkgTypeNames(p) {
			pt := PinnedType{FP: namedFP(tn)}
			if st, ok := tn.Type().Underlying().(*types.Struct); ok {
				for i := 0; i < st.NumFields(); i++ {
					pt.Fields = append(pt.Fields, [2]string{st.Field(i).Name(), typeFP(st.Field(i).Type(), nil, 0)})
				}
			}
			pin.Types[tn.Name()] = pt
		}
		for _, f := range pkgFuncs(p) {
			pin.Funcs[funcKey(f, ident)] = funcFP(f, ident)
			pin.Flat[funcKey(f, ident)] = flatFP(f, ident)
			sig := f.Type().(*types.Signature)
			var names []string
			if sig.Recv() != nil {
				names = append(names, sig.Recv().Name())
			}
			for i := 0; i < sig.Params().Len(); i++ {
				names = append(names, sig.Params().At(i).Name())
			}
			pin.Params[funcKey(f, ident)] = names
		}
		// static callers within the package (through function literals as well)
		if sp := c.SSA[rel]; sp != nil {
			for _, f := range pkgFuncs(p) {
				fn := c.Prog.FuncValue(f)
				if fn == nil {
					continue
				}
				for _, g := range WithAnon(fn) {
					Instrs(g, func(in ssa.Instruction) {
						ci, ok := in.(ssa.CallInstruction)
						if !ok {
							return
						}
						cal := ci.Common().StaticCallee()
						if cal == nil || cal.Pkg != sp || cal == fn {
							return
						}
						if co, ok := cal.Object().(*types.Func); ok {
							k := funcKey(co, ident)
							dup := false
							for _, x := range pin.Callers[k] {
								if x == funcKey(f, ident) {
									dup = true
								}
							}
							if !dup {
								pin.Callers[k] = append(pin.Callers[k], funcKey(f, ident))
							}
						}
					})
				}
			}
			for k := range pin.Callers {
				sort.Strings(pin.Callers[k])
			}
		}
		out[rel] = pin
	}
	return json.MarshalIndent(out, "", " ")
}

// buildAliases fills the alias table for the loaded tree and the lookup indexes by pinned name.
func (c *Ctx) buildAliases() error {
	var pinned map[string]Pinned
	if err := json.Unmarshal(pinnedJSON, &pinned); err != nil {
		return fmt.Errorf("pinned.json: %v", err)
	}
	c.funcByCanon = map[string]*types.Func{}
	c.typeByCanon = map[string]*types.TypeName{}
	c.freshFuncs = map[*types.Func]bool{}
	c.pinnedCallers = map[string][]string{}
	c.pinnedParams = map[string][]string{}
	c.Aliases = nil
	set := func(o types.Object, name string) {
		if o.Name() == name {
			return
		}
		// only unexported identifiers: renaming an exported one changes the API (and, for struct fields, what
		// reflection-based code such as the default resolver sees) — that is not a behaviour-preserving rename
		if ast.IsExported(name) || o.Exported() {
			return
		}
		aliasMu.Lock()
		aliasName[o] = name
		aliasMu.Unlock()
		c.Aliases = append(c.Aliases, fmt.Sprintf("%s.%s = pinned %s", o.Pkg().Name(), o.Name(), name))
	}
	canon := func(tn *types.TypeName) string { return CanonName(tn) }
	// types first (all packages), then fields, then functions (whose fingerprints use the canonical type names)
	for rel, p := range c.ByRel {
		pin, ok := pinned[rel]
		if !ok {
			continue
		}
		cur := map[string]*types.TypeName{}
		for _, tn := range pkgTypeNames(p) {
			cur[tn.Name()] = tn
		}
		var missing []string // pinned names absent from the tree
		for name := range pin.Types {
			if cur[name] == nil {
				missing = append(missing, name)
			}
		}
		var fresh []*types.TypeName // names of the tree unknown to the pinned inventory
		for name, tn := range cur {
			if _, ok := pin.Types[name]; !ok {
				fresh = append(fresh, tn)
			}
		}
		for _, m := range missing {
			var cand []*types.TypeName
			for _, tn := range fresh {
				if namedFP(tn) == pin.Types[m].FP {
					cand = append(cand, tn)
				}
			}
			others := 0
			for _, m2 := range missing {
				if pin.Types[m2].FP == pin.Types[m].FP {
					others++
				}
			}
			if len(cand) == 1 && others == 1 {
				set(cand[0], m)
			}
		}
		for _, tn := range pkgTypeNames(p) {
			if _, known := pin.Types[CanonName(tn)]; !known {
				freshMu.Lock()
				freshTypes[tn] = true
				freshMu.Unlock()
			}
			c.typeByCanon[rel+"|"+CanonName(tn)] = tn
			pt, ok := pin.Types[CanonName(tn)]
			st, isStruct := tn.Type().Underlying().(*types.Struct)
			if !ok || !isStruct || st.NumFields() != len(pt.Fields) {
				continue
			}
			same := true
			for i := 0; i < st.NumFields(); i++ {
				if typeFP(st.Field(i).Type(), nil, 0) != pt.Fields[i][1] {
					same = false
				}
			}
			if !same {
				continue
			}
			// a field keeps its pinned name if the set of names differs only at positions whose type is unchanged
			names := map[string]bool{}
			for i := 0; i < st.NumFields(); i++ {
				names[st.Field(i).Name()] = true
			}
			for i := 0; i < st.NumFields(); i++ {
				if st.Field(i).Name() != pt.Fields[i][0] && !names[pt.Fields[i][0]] {
					set(st.Field(i), pt.Fields[i][0])
				}
			}
		}
	}
	for rel, p := range c.ByRel {
		pin, ok := pinned[rel]
		if !ok {
			continue
		}
		for k, v := range pin.Callers {
			c.pinnedCallers[rel+"|"+k] = v
		}
		for k, v := range pin.Params {
			c.pinnedParams[rel+"|"+k] = v
		}
		cur := map[string]*types.Func{}
		for _, f := range pkgFuncs(p) {
			cur[funcKey(f, canon)] = f
		}
		var missing []string
		for k := range pin.Funcs {
			if cur[k] == nil {
				missing = append(missing, k)
			}
		}
		var fresh []*types.Func
		for k, f := range cur {
			if _, ok := pin.Funcs[k]; !ok {
				fresh = append(fresh, f)
			}
		}
		recvOf := func(k string) string {
			if i := strings.Index(k, "."); i >= 0 {
				return k[:i]
			}
			return ""
		}
		for _, m := range missing {
			var cand []*types.Func
			for _, f := range fresh {
				r := ""
				if tn := recvTypeName(f); tn != nil {
					r = canon(tn)
				}
				if r == recvOf(m) && funcFP(f, canon) == pin.Funcs[m] {
					cand = append(cand, f)
				}
			}
			others := 0
			for _, m2 := range missing {
				if recvOf(m2) == recvOf(m) && pin.Funcs[m2] == pin.Funcs[m] {
					others++
				}
			}
			if len(cand) == 1 && others == 1 {
				name := m
				if i := strings.Index(m, "."); i >= 0 {
					name = m[i+1:]
				}
				set(cand[0], name)
			}
		}
		// second stage: a function that became a method (or the reverse) keeps its flat signature
		stillMissing := func(m string) bool {
			for _, f := range pkgFuncs(p) {
				if funcKey2(f) == m {
					return false
				}
			}
			return true
		}
		for _, m := range missing {
			if !stillMissing(m) || pin.Flat[m] == "" {
				continue
			}
			var cand []*types.Func
			for _, f := range fresh {
				if _, done := pin.Funcs[funcKey2(f)]; done {
					continue
				}
				if flatFP(f, canon) == pin.Flat[m] && !f.Exported() {
					cand = append(cand, f)
				}
			}
			others := 0
			for _, m2 := range missing {
				if stillMissing(m2) && pin.Flat[m2] == pin.Flat[m] {
					others++
				}
			}
			if len(cand) == 1 && others == 1 && !ast.IsExported(m[strings.LastIndex(m, ".")+1:]) {
				aliasMu.Lock()
				aliasKey[cand[0]] = m
				aliasMu.Unlock()
				c.Aliases = append(c.Aliases, fmt.Sprintf("%s.%s = pinned %s (receiver changed)", cand[0].Pkg().Name(), cand[0].Name(), m))
			}
		}
		for _, f := range pkgFuncs(p) {
			k := funcKey2(f)
			c.funcByCanon[rel+"|"+k] = f
			if _, known := pin.Funcs[k]; !known {
				c.freshFuncs[f] = true
			}
		}
	}
	sort.Strings(c.Aliases)
	return nil
}

// funcKey2 is the canonical "Recv.name" / "name" of a function.
func funcKey2(f *types.Func) string {
	aliasMu.RLock()
	k, ok := aliasKey[f]
	aliasMu.RUnlock()
	if ok {
		return k
	}
	if tn := recvTypeName(f); tn != nil {
		return CanonName(tn) + "." + CanonName(f)
	}
	return CanonName(f)
}

// IsFresh reports whether fn is a named function of the library that the pinned tree does not have (under any name):
// code that has been moved out of a pinned function (an extracted helper) or added.
func (c *Ctx) IsFresh(fn *ssa.Function) bool {
	if fn == nil {
		return false
	}
	o, ok := fn.Object().(*types.Func)
	return ok && c.freshFuncs[o]
}

// Region returns fn, its function literals, and the fresh functions (IsFresh) it reaches through static calls, go and
// defer statements, method values and closures — transitively through fresh functions only. A rule that looks for a
// construct "in" a pinned function looks in its region, so that extracting part of the function into a helper does
// not hide the construct. The pinned function and its literals come first.
func (c *Ctx) Region(fn *ssa.Function) []*ssa.Function {
	if fn == nil {
		return nil
	}
	seen := map[*ssa.Function]bool{}
	var out []*ssa.Function
	var visit func(f *ssa.Function, depth int)
	visit = func(f *ssa.Function, depth int) {
		if f == nil || seen[f] || depth > 5 || f.Blocks == nil {
			return
		}
		seen[f] = true
		out = append(out, f)
		for _, a := range f.AnonFuncs {
			visit(a, depth)
		}
		Instrs(f, func(in ssa.Instruction) {
			var targets []*ssa.Function
			if ci, ok := in.(ssa.CallInstruction); ok {
				targets = append(targets, ci.Common().StaticCallee())
				for _, a := range ci.Common().Args {
					if mc, ok := a.(*ssa.MakeClosure); ok {
						if t, ok := mc.Fn.(*ssa.Function); ok {
							targets = append(targets, t)
						}
					}
				}
			}
			if mc, ok := in.(*ssa.MakeClosure); ok {
				if t, ok := mc.Fn.(*ssa.Function); ok {
					targets = append(targets, t) // bound method values `x.m` and literals
				}
			}
			for _, t := range targets {
				if t == nil {
					continue
				}
				// bound-method wrappers: look through to the method
				if t.Synthetic != "" && t.Object() != nil {
					if m := c.Prog.FuncValue(t.Object().(*types.Func)); m != nil {
						t = m
					}
				}
				if c.IsFresh(t) {
					visit(t, depth+1)
				}
			}
		})
	}
	visit(fn, 0)
	return out
}

// RegionInstrs calls f for every instruction of the region of fn.
func (c *Ctx) RegionInstrs(fn *ssa.Function, f func(ssa.Instruction)) {
	for _, g := range c.Region(fn) {
		Instrs(g, f)
	}
}

// Anchor maps an instruction of the region of fn to the instruction of fn itself through which it runs: the
// instruction itself when it is in fn, otherwise the (first) static call / go / defer in fn that enters the fresh
// function containing it (followed through nested fresh functions). nil when no such site exists.
func (c *Ctx) Anchor(fn *ssa.Function, in ssa.Instruction) ssa.Instruction {
	for depth := 0; depth < 6 && in != nil; depth++ {
		g := in.Parent()
		if g == fn {
			return in
		}
		// literals of a function run where they are created (approximation used by the rules: creation site)
		if g.Parent() != nil {
			var mk ssa.Instruction
			Instrs(g.Parent(), func(x ssa.Instruction) {
				if mc, ok := x.(*ssa.MakeClosure); ok && mc.Fn == g && mk == nil {
					mk = x
				}
			})
			in = mk
			continue
		}
		var site ssa.Instruction
		for _, cand := range c.Region(fn) {
			if site != nil {
				break
			}
			Instrs(cand, func(x ssa.Instruction) {
				if ci, ok := x.(ssa.CallInstruction); ok && site == nil && ci.Common().StaticCallee() == g {
					site = x
				}
			})
		}
		in = site
	}
	return nil
}

// RegionDecls returns the declarations of the named functions of fn's region (fn first).
func (c *Ctx) RegionDecls(fn *ssa.Function) []ast.Node {
	var out []ast.Node
	for _, g := range c.Region(fn) {
		if g.Parent() != nil {
			continue // literals are part of their parent's declaration
		}
		if d := c.Decl(g); d != nil {
			out = append(out, d)
		}
	}
	return out
}

// RegionCallsTo lists the calls of target anywhere in the region of fn.
func (c *Ctx) RegionCallsTo(fn, target *ssa.Function) []ssa.CallInstruction {
	var out []ssa.CallInstruction
	for _, g := range c.Region(fn) {
		out = append(out, CallsTo(g, target, false)...)
	}
	return out
}

// InspectWithFresh is ast.Inspect over node and, transitively, over the bodies of the fresh functions (IsFresh) it
// calls: what an arm of a switch does, including the part of it that has been extracted into a helper.
func (c *Ctx) InspectWithFresh(info *types.Info, node ast.Node, f func(ast.Node) bool) {
	seen := map[*ast.FuncDecl]bool{}
	var visit func(n ast.Node, depth int)
	visit = func(n ast.Node, depth int) {
		ast.Inspect(n, func(x ast.Node) bool {
			if x == nil {
				return true
			}
			if call, ok := x.(*ast.CallExpr); ok && depth < 4 {
				if fo := CalleeObj(info, call); fo != nil && c.freshFuncs[fo] {
					if fd := c.declIdx[fo]; fd != nil && fd.Body != nil && !seen[fd] {
						seen[fd] = true
						visit(fd.Body, depth+1)
					}
				}
			}
			return f(x)
		})
	}
	visit(node, 0)
}

// FuncKey is the pinned "Recv.name" / "name" of the outermost named function enclosing fn.
func FuncKey(fn *ssa.Function) string {
	for fn.Parent() != nil {
		fn = fn.Parent()
	}
	hostMu.RLock()
	h, ok := hostKey[fn]
	hostMu.RUnlock()
	if ok {
		return h
	}
	if o, ok := fn.Object().(*types.Func); ok {
		return funcKey2(o)
	}
	if recv := fn.Signature.Recv(); recv != nil {
		return TypeName(recv.Type()) + "." + fn.Name()
	}
	return fn.Name()
}

// ArgIndex translates "argument number pinned of fn on the pinned tree" (receiver counted, as in ssa.Function.Params and
// CallCommon.Args of a static call) into its index in the tree under analysis: the parameter of the same name if the
// function still has one, the same index if the parameter list has the same length, otherwise not found — the signature
// changed in a way the rule cannot follow (parameters bundled into a struct, split, dropped).
func (c *Ctx) ArgIndex(fn *ssa.Function, pinned int) (int, bool) {
	if fn == nil {
		return 0, false
	}
	rel := ""
	if fn.Pkg != nil {
		rel, _ = relPath(fn.Pkg.Pkg.Path())
	}
	names := c.pinnedParams[rel+"|"+FuncKey(fn)]
	if pinned < 0 || names == nil {
		if pinned >= 0 && pinned < len(fn.Params) {
			return pinned, true // a function the inventory does not know: nothing to translate
		}
		return 0, false
	}
	if pinned >= len(names) {
		return 0, false
	}
	want := names[pinned]
	if want != "" && want != "_" {
		for i, p := range fn.Params {
			if p.Name() == want {
				return i, true
			}
		}
	}
	if len(fn.Params) == len(names) {
		return pinned, true
	}
	return 0, false
}

// A fresh function that is reached from exactly one pinned function (a helper extracted from it, a phase it has been
// split into) answers to that function's name: obligations and table look-ups about code that has merely moved keep
// their keys.
var (
	hostMu  sync.RWMutex
	hostKey = map[*ssa.Function]string{}
)

func (c *Ctx) computeHosts() {
	var fresh, pinned []*ssa.Function
	for fn := range c.allFns {
		if fn.Blocks == nil || fn.Parent() != nil || !c.IsLib(fn) || fn.Synthetic != "" {
			continue
		}
		if c.IsFresh(fn) {
			fresh = append(fresh, fn)
		} else {
			pinned = append(pinned, fn)
		}
	}
	if len(fresh) == 0 {
		return
	}
	hosts := map[*ssa.Function]map[string]bool{}
	for _, g := range pinned {
		for _, f := range c.Region(g) {
			if f != g && f.Parent() == nil && c.IsFresh(f) {
				if hosts[f] == nil {
					hosts[f] = map[string]bool{}
				}
				hosts[f][FuncKey(g)] = true
			}
		}
	}
	hostMu.Lock()
	defer hostMu.Unlock()
	for f, hs := range hosts {
		if len(hs) == 1 {
			for k := range hs {
				hostKey[f] = k
			}
		}
	}
}

package rules

import (
	"fmt"
	"go/token"
	"go/types"
	"sort"
	"strings"

	"golang.org/x/tools/go/ssa"

	"verif/gqlvet/core"
)

func init() {
	docs["C19"] = Doc{
		Explanation: "Complexity is decided structurally: super-polynomial (or unbounded) work in this code can only come from recursion that re-enters the same fragment / fragment pair / selection set without a memo, or from eager expansion over possible types. " +
			"(REC-fragments, shared with C09) every site that turns a fragment name into a definition and then descends (recursive call into its call-graph SCC, or worklist enqueue) is gated by a visited-set / memo test with the mark written before the descent, test and mark using the same set object; " +
			"(REC-alloc) that set is allocated outside the recursion: a function that creates a fresh set and hands it to a fragment-dereferencing function must not itself lie on a call-graph cycle (otherwise every level re-expands every fragment: exponential on fans, unbounded on cycles); " +
			"(REC-memo) each memoised function (overlap rule's two comparison memos and field-map cache, ValidationContext's four caches, Plan.abstractAlternative) looks its memo up with a key built from all varying parameters before doing work, returns on a hit without recursion, stores on the miss path, and the memo objects are created once per validation / per plan; the two Has predicates read every key component and honour the exclusivity flag; " +
			"(DOM-lazy) abstract fields are not expanded over possible types at plan time: nothing reachable from PlanQuery enumerates possible types, planMergedFieldChildren has no loop, abstractAlternative is called only from completePlannedAbstractValue with the runtime type it just resolved.",
		NotDecided: "the actual exponent and constants; no step counts are measured.",
	}
	register(&core.Rule{Name: "C09/REC-fragments", Props: []string{"C09", "C19", "C02"}, Min: 7,
		Doc: "every descent through a fragment name is cut by a visited set / memo marked before the descent", Run: recFragments})
	register(&core.Rule{Name: "C19/REC-alloc", Props: []string{"C19", "C09"}, Min: 3,
		Doc: "visited sets handed to fragment-dereferencing functions are not created inside a call-graph cycle", Run: recAlloc})
	register(&core.Rule{Name: "C19/REC-memo", Props: []string{"C19", "C02", "C07"}, Min: 12,
		Doc: "memoised functions: full-key lookup first, hit returns, store on miss, memo allocated once; Has predicates sound", Run: recMemo})
	register(&core.Rule{Name: "C19/DOM-lazy", Props: []string{"C19"}, Min: 3,
		Doc: "no plan-time expansion over possible types", Run: recLazy})
}

// static call graph of library functions (including closure creation edges)
type sgraph struct {
	succ map[*ssa.Function][]*ssa.Function
	scc  map[*ssa.Function]int
	size map[int]int
	self map[*ssa.Function]bool
}

func buildSGraph(c *core.Ctx) *sgraph {
	g := &sgraph{succ: map[*ssa.Function][]*ssa.Function{}, scc: map[*ssa.Function]int{}, size: map[int]int{}, self: map[*ssa.Function]bool{}}
	fns := c.LibFuncs()
	for _, fn := range fns {
		seen := map[*ssa.Function]bool{}
		add := func(t *ssa.Function) {
			if t == nil || !c.IsLib(t) || t.Blocks == nil {
				return
			}
			if t == fn {
				g.self[fn] = true
			}
			if !seen[t] {
				seen[t] = true
				g.succ[fn] = append(g.succ[fn], t)
			}
		}
		core.Instrs(fn, func(in ssa.Instruction) {
			switch x := in.(type) {
			case ssa.CallInstruction:
				add(x.Common().StaticCallee())
				// closure variables called through a captured cell: resolve `*freevar`/`*alloc` holding a closure
				if x.Common().StaticCallee() == nil && !x.Common().IsInvoke() {
					for _, o := range core.Origins(x.Common().Value) {
						if mc, ok := o.(*ssa.MakeClosure); ok {
							add(mc.Fn.(*ssa.Function))
						}
						if u, ok := o.(*ssa.UnOp); ok {
							if fv, ok := u.X.(*ssa.FreeVar); ok {
								add(closureBoundTo(fn, fv))
							}
						}
					}
				}
			case *ssa.MakeClosure:
				add(x.Fn.(*ssa.Function))
			}
		})
	}
	// Tarjan
	index := 0
	idx := map[*ssa.Function]int{}
	low := map[*ssa.Function]int{}
	on := map[*ssa.Function]bool{}
	var stack []*ssa.Function
	ncomp := 0
	var strong func(v *ssa.Function)
	strong = func(v *ssa.Function) {
		index++
		idx[v], low[v] = index, index
		stack = append(stack, v)
		on[v] = true
		for _, w := range g.succ[v] {
			if idx[w] == 0 {
				strong(w)
				if low[w] < low[v] {
					low[v] = low[w]
				}
			} else if on[w] && idx[w] < low[v] {
				low[v] = idx[w]
			}
		}
		if low[v] == idx[v] {
			ncomp++
			for {
				w := stack[len(stack)-1]
				stack = stack[:len(stack)-1]
				on[w] = false
				g.scc[w] = ncomp
				g.size[ncomp]++
				if w == v {
					break
				}
			}
		}
	}
	for _, fn := range fns {
		if idx[fn] == 0 {
			strong(fn)
		}
	}
	return g
}

// closureBoundTo finds the closure stored in the variable captured as fv (var f func(); f = func(){… f() …}).
func closureBoundTo(fn *ssa.Function, fv *ssa.FreeVar) *ssa.Function {
	idx := -1
	for i, f := range fn.FreeVars {
		if f == fv {
			idx = i
		}
	}
	p := fn.Parent()
	if p == nil || idx < 0 {
		return nil
	}
	var out *ssa.Function
	for _, pf := range core.WithAnon(p) {
		core.Instrs(pf, func(in ssa.Instruction) {
			mc, ok := in.(*ssa.MakeClosure)
			if !ok || mc.Fn != fn || idx >= len(mc.Bindings) {
				return
			}
			if al, ok := mc.Bindings[idx].(*ssa.Alloc); ok {
				for _, st := range core.StoresTo(al) {
					if c2, ok := st.Val.(*ssa.MakeClosure); ok {
						out = c2.Fn.(*ssa.Function)
					}
				}
			}
		})
	}
	return out
}

func (g *sgraph) recursive(fn *ssa.Function) bool {
	return g.self[fn] || g.size[g.scc[fn]] > 1
}

func (g *sgraph) sameSCC(a, b *ssa.Function) bool {
	return a == b && g.self[a] || (g.scc[a] == g.scc[b] && g.size[g.scc[a]] > 1)
}

// isFragmentDeref: lookup in a map whose element type is ast.Definition / *ast.FragmentDefinition,
// or a call of ValidationContext.Fragment.
func isFragmentDeref(c *core.Ctx, in ssa.Instruction) bool {
	switch x := in.(type) {
	case *ssa.Lookup:
		m, ok := x.X.Type().Underlying().(*types.Map)
		if !ok {
			return false
		}
		tn := core.QualName(m.Elem())
		return tn == "ast.Definition" || tn == "ast.FragmentDefinition"
	case *ssa.Call:
		return x.Call.StaticCallee() != nil && x.Call.StaticCallee() == c.Func("", "ValidationContext.Fragment")
	}
	return false
}

type setOp struct {
	in    ssa.Instruction
	set   ssa.Value // the map / memo object
	store bool
}

// setOps lists the visited-set / memo operations of fn: lookups and updates on map[...]bool and
// Has/Add calls on the overlap rule's memo types.
func setOps(fn *ssa.Function) []setOp {
	var out []setOp
	isBoolMap := func(t types.Type) bool {
		m, ok := t.Underlying().(*types.Map)
		if !ok {
			return false
		}
		b, ok := m.Elem().Underlying().(*types.Basic)
		return ok && b.Kind() == types.Bool
	}
	core.Instrs(fn, func(in ssa.Instruction) {
		switch x := in.(type) {
		case *ssa.Lookup:
			if isBoolMap(x.X.Type()) {
				out = append(out, setOp{in, x.X, false})
			}
		case *ssa.MapUpdate:
			if isBoolMap(x.Map.Type()) {
				out = append(out, setOp{in, x.Map, true})
			}
		case *ssa.Call:
			if cal := x.Call.StaticCallee(); cal != nil && cal.Signature.Recv() != nil && len(x.Call.Args) > 0 {
				rn := core.TypeName(cal.Signature.Recv().Type())
				if rn == "pairSet" || rn == "fieldsAndFragmentSet" {
					switch core.N(cal) {
					case "Has":
						out = append(out, setOp{in, x.Call.Args[0], false})
					case "Add":
						out = append(out, setOp{in, x.Call.Args[0], true})
					}
				}
			}
		}
	})
	return out
}

func sameSet(a, b ssa.Value) bool {
	ca, cb := core.Classes(a), core.Classes(b)
	return strings.Join(ca, "|") == strings.Join(cb, "|") && len(ca) > 0
}

func recFragments(c *core.Ctx, r *core.Reporter) {
	g := buildSGraph(c)
	perFn := map[string]int{}
	for _, fn := range c.LibFuncs() {
		var derefs []ssa.Instruction
		core.Instrs(fn, func(in ssa.Instruction) {
			if isFragmentDeref(c, in) {
				derefs = append(derefs, in)
			}
		})
		if len(derefs) == 0 {
			continue
		}
		for _, d := range derefs {
			name := fnKey(fn)
			if fn.Parent() != nil {
				name += "$" + core.N(fn)[strings.LastIndex(core.N(fn), "$")+1:]
			}
			perFn[name]++
			key := fmt.Sprintf("%s/deref#%d", name, perFn[name])
			// descents: calls into fn's SCC dominated by the deref; or (worklist) the deref lies in a loop
			var descents []ssa.Instruction
			core.Instrs(fn, func(in ssa.Instruction) {
				ci, ok := in.(ssa.CallInstruction)
				if !ok || in == d {
					return
				}
				var targets []*ssa.Function
				if cal := ci.Common().StaticCallee(); cal != nil {
					targets = append(targets, cal)
				} else if !ci.Common().IsInvoke() {
					for _, o := range core.Origins(ci.Common().Value) {
						if u, ok := o.(*ssa.UnOp); ok {
							if fv, ok := u.X.(*ssa.FreeVar); ok {
								if t := closureBoundTo(fn, fv); t != nil {
									targets = append(targets, t)
								}
							}
						}
					}
				}
				for _, t := range targets {
					if c.IsLib(t) && g.sameSCC(fn, t) && core.InstrDominates(d, in) {
						descents = append(descents, in)
					}
				}
			})
			worklist := false
			if len(descents) == 0 && core.InAnyLoop(d.Block()) && !g.recursive(fn) {
				// worklist shape: the deref result's selection set is appended to a slice inside the loop
				core.Instrs(fn, func(in ssa.Instruction) {
					if call, ok := in.(*ssa.Call); ok {
						if b, ok := call.Call.Value.(*ssa.Builtin); ok && core.N(b) == "append" && core.InstrDominates(d, in) && core.InAnyLoop(in.Block()) {
							if sl, ok := call.Type().(*types.Slice); ok && core.TypeName(sl.Elem()) == "SelectionSet" {
								worklist = true
								descents = append(descents, in)
							}
						}
					}
				})
			}
			if len(descents) == 0 {
				r.Exists(key, d.Pos(), "fragment looked up without descending (no recursion, no worklist)")
				continue
			}
			ops := setOps(fn)
			ok := false
			var cutSets []ssa.Value
			why := "no visited-set / memo test found in " + name
			for _, t := range ops {
				if t.store {
					continue
				}
				domAll := true
				for _, ds := range descents {
					if !core.InstrDominates(t.in, ds) {
						domAll = false
					}
				}
				if !domAll {
					continue
				}
				// a store on the same set before every descent (or at the callee's entry)
				for _, s := range ops {
					if !s.store || !sameSet(s.set, t.set) {
						continue
					}
					before := true
					for _, ds := range descents {
						if !core.InstrDominates(s.in, ds) {
							before = false
						}
					}
					if before {
						ok = true
						cutSets = append(cutSets, t.set)
					}
				}
				if !ok {
					// mark-on-entry idiom: the descended function marks its own name in its entry block
					for _, s := range ops {
						if s.store && sameSet(s.set, t.set) && s.in.Block() == fn.Blocks[0] && g.self[fn] {
							ok = true
						}
					}
				}
				if !ok {
					why = "the visited set / memo is tested but not marked before the descent"
				}
			}
			// the mark is permanent: a set whose entries are released again (delete after the descent) still stops cycles, but
			// a fragment reached along several spread paths is expanded once per path — exponential in the number of fragments
			if ok {
				for _, site := range core.BuiltinCalls(fn, "delete") {
					for _, cs := range cutSets {
						if len(site.Common().Args) > 0 && types.Identical(site.Common().Args[0].Type(), cs.Type()) && sameSet(site.Common().Args[0], cs) {
							ok = false
							why = "the visited mark is released again (delete at " + c.Pos(site.Pos()) + "): cycles still end, but a fragment reached along k spread paths is expanded k times, so fragments that spread each other in a chain are expanded 2^n times"
						}
					}
				}
			}
			shape := "recursive descent"
			if worklist {
				shape = "worklist enqueue"
			}
			if ok {
				r.OK(key, d.Pos(), "%s through a fragment is gated by a visited-set / memo test and marked before descending (%d descent site(s))", shape, len(descents))
			} else {
				r.Bad(key, d.Pos(), "%s through a fragment name in %s is not cut: %s — a document whose fragments spread each other in a cycle recurses forever (stack overflow / hang), and fans of mutually spreading fragments are re-expanded exponentially", shape, name, why)
			}
		}
	}
}

// recAlloc: who creates the visited sets handed to fragment-dereferencing functions.
func recAlloc(c *core.Ctx, r *core.Reporter) {
	g := buildSGraph(c)
	// fragment-dereferencing functions that receive their visited set from the caller
	type recv struct {
		fn  *ssa.Function
		arg int // parameter index of the set, -1 when inside a params struct
	}
	var recvs []recv
	for _, name := range []string{"Plan.collectInto", "collectFields"} {
		fn := c.Func("", name)
		if fn == nil {
			r.Unknown(name, token.NoPos, "not found")
			continue
		}
		idx := -1
		for i, p := range fn.Params {
			if m, ok := p.Type().Underlying().(*types.Map); ok {
				if b, ok := m.Elem().Underlying().(*types.Basic); ok && b.Kind() == types.Bool {
					idx = i
				}
			}
		}
		recvs = append(recvs, recv{fn, idx})
	}
	for _, rv := range recvs {
		callers := map[*ssa.Function][]ssa.CallInstruction{}
		for _, fn := range c.LibFuncs() {
			for _, ci := range core.CallsTo(fn, rv.fn, false) {
				callers[fn] = append(callers[fn], ci)
			}
		}
		var fns []*ssa.Function
		for f := range callers {
			fns = append(fns, f)
		}
		sort.Slice(fns, func(i, j int) bool { return fns[i].String() < fns[j].String() })
		for _, caller := range fns {
			for i, ci := range callers[caller] {
				key := fmt.Sprintf("%s->%s#%d", fnKey(caller), fnKey(rv.fn), i+1)
				var setArg ssa.Value
				if rv.arg >= 0 {
					setArg = ci.Common().Args[rv.arg]
				} else {
					// the set travels inside a struct (collectFieldsParams.VisitedFragmentNames, or a bundle of collectInto's
					// parameters): the map[string]bool-typed field of the literal passed
					isSet := func(t types.Type) bool {
						m, ok := t.Underlying().(*types.Map)
						if !ok {
							return false
						}
						b, ok := m.Elem().Underlying().(*types.Basic)
						return ok && b.Kind() == types.Bool
					}
					for _, a := range ci.Common().Args {
						if setArg != nil {
							break
						}
						var al *ssa.Alloc
						switch x := a.(type) {
						case *ssa.UnOp:
							al, _ = x.X.(*ssa.Alloc)
						case *ssa.Alloc:
							al = x
						}
						if al == nil {
							continue
						}
						st, ok := al.Type().Underlying().(*types.Pointer).Elem().Underlying().(*types.Struct)
						if !ok {
							continue
						}
						hasSetField := false
						for i := 0; i < st.NumFields(); i++ {
							if isSet(st.Field(i).Type()) {
								hasSetField = true
							}
						}
						if !hasSetField {
							continue
						}
						for lit, fields := range core.LiteralStores(caller, core.TypeName(al.Type())) {
							if lit != al {
								continue
							}
							for _, vals := range fields {
								for _, v := range vals {
									if isSet(v.Type()) {
										setArg = v
									}
								}
							}
						}
						if setArg == nil {
							// the struct is handed on as it was received (a copy of the caller's own parameter)
							for _, st := range core.StoresTo(al) {
								setArg = st.Val
							}
						}
						if setArg == nil {
							// field left zero: the callee creates the set lazily when nil
							setArg = ssa.NewConst(nil, types.Typ[types.UntypedNil])
						}
					}
				}
				if setArg == nil {
					r.Unknown(key, ci.Pos(), "could not identify the visited-set argument")
					continue
				}
				fresh := false
				for _, cl := range core.Classes(setArg) {
					if cl == "make" || cl == "nil" {
						fresh = true
					}
				}
				if !fresh {
					r.OK(key, ci.Pos(), "passes on an existing visited set (%v)", core.Classes(setArg))
					continue
				}
				if g.recursive(caller) && caller != rv.fn {
					r.Bad(key, ci.Pos(), "%s creates a fresh visited-fragment set for every call and lies on a call-graph cycle: each nesting level re-collects every fragment from scratch, so planning a document whose fragments spread each other in a cycle under an object field never terminates, and fans of fragments are expanded exponentially", fnKey(caller))
				} else if caller == rv.fn {
					r.Bad(key, ci.Pos(), "%s calls itself with a fresh visited set", fnKey(caller))
				} else {
					r.OK(key, ci.Pos(), "fresh visited set created in %s, which is not on a call-graph cycle", fnKey(caller))
				}
			}
		}
	}
}

func recMemo(c *core.Ctx, r *core.Reporter) {
	// (1) generic memo rows: function, memo field class
	rows := []struct {
		fn, memo string
	}{
		{"overlappingFieldsCanBeMergedRule.getFieldsAndFragmentNames", "field:overlappingFieldsCanBeMergedRule.cacheMap"},
		{"ValidationContext.FragmentSpreads", "field:ValidationContext.fragmentSpreads"},
		{"ValidationContext.RecursivelyReferencedFragments", "field:ValidationContext.recursivelyReferencedFragments"},
		{"ValidationContext.VariableUsages", "field:ValidationContext.variableUsages"},
		{"ValidationContext.RecursiveVariableUsages", "field:ValidationContext.recursiveVariableUsages"},
		{"Plan.abstractAlternative", "field:fieldPlan.abstractAlternatives"},
	}
	for _, row := range rows {
		fn := c.Func("", row.fn)
		if fn == nil {
			r.Unknown(row.fn, token.NoPos, "memoised function not found")
			continue
		}
		var look *ssa.Lookup
		var store *ssa.MapUpdate
		core.Instrs(fn, func(in ssa.Instruction) {
			switch x := in.(type) {
			case *ssa.Lookup:
				if core.HasClass(x.X, row.memo) && look == nil {
					look = x
				}
			case *ssa.MapUpdate:
				if core.HasClass(x.Map, row.memo) {
					store = x
				}
			}
		})
		if look == nil || store == nil {
			r.Bad(row.fn, fn.Pos(), "%s no longer consults and fills its memo %s: the work is redone on every call (the overlap rule and variable rules call it per selection set / per operation, so validation cost multiplies)", row.fn, row.memo)
			continue
		}
		// key built from a parameter
		keyOK := false
		for _, cl := range core.Classes(look.Index) {
			if strings.HasPrefix(cl, "param:") {
				keyOK = true
			}
		}
		sameKey := look.Index == store.Key || strings.Join(core.Classes(look.Index), "|") == strings.Join(core.Classes(store.Key), "|")
		// lookup precedes all work: dominates every call to library functions other than trivial accessors
		first := true
		core.Instrs(fn, func(in ssa.Instruction) {
			if ci, ok := in.(ssa.CallInstruction); ok && in != ssa.Instruction(look) {
				if cal := ci.Common().StaticCallee(); cal != nil && c.IsLib(cal) && cal.Pkg != nil && cal.Pkg.Pkg.Path() != "sync" {
					if !core.InstrDominates(look, in) {
						first = false
					}
				}
			}
		})
		// hit arm returns: some successor of the lookup's If chain returns without calls
		hit := false
		for _, b := range fn.Blocks {
			if ret, ok := b.Instrs[len(b.Instrs)-1].(*ssa.Return); ok && look.Block().Dominates(b) && !storeReaches(store, b) {
				clean := true
				for _, in := range b.Instrs {
					if ci, ok := in.(ssa.CallInstruction); ok {
						if _, isRD := in.(*ssa.RunDefers); !isRD && ci.Common().StaticCallee() != nil && c.IsLib(ci.Common().StaticCallee()) {
							clean = false
						}
					}
				}
				_ = ret
				if clean {
					hit = true
				}
			}
		}
		// the miss path stores: no exit is reachable from work done after the lookup without passing the store (a store
		// that sits under a condition leaves some results unmemoised: recomputed on every call, and — where callers rely on
		// the identity of the memoised value — handed out as a fresh object each time)
		uncond := true
		avoid := map[*ssa.BasicBlock]bool{store.Block(): true}
		fromLookup := func(v ssa.Value) bool {
			for _, o := range core.Origins(v) {
				if o == ssa.Value(look) {
					return true
				}
				if ex, ok := o.(*ssa.Extract); ok && ex.Tuple == ssa.Value(look) {
					return true
				}
			}
			return false
		}
		cand := core.ReachableAvoiding(look.Block(), avoid)
		cand[look.Block()] = true
		for rb := range cand {
			if rb == store.Block() || len(rb.Instrs) == 0 {
				continue
			}
			ret, ok := rb.Instrs[len(rb.Instrs)-1].(*ssa.Return)
			if !ok {
				continue
			}
			for i := range ret.Results {
				v := core.RetVal(ret, i)
				if core.IsNilConst(v) || fromLookup(v) {
					continue // an error exit, or the hit arm handing out the memoised value
				}
				if _, isConst := v.(*ssa.Const); isConst {
					continue
				}
				uncond = false
			}
		}
		if core.InAnyLoop(store.Block()) {
			uncond = true // stored on every iteration of the collecting loop (whether the loop runs is a value question)
		}
		if keyOK && sameKey && first && hit && !uncond {
			r.Bad(row.fn, store.Pos(), "%s: the store into %s is conditional — some computed results leave the function without being memoised: they are recomputed on every call and handed out as a fresh object each time, so memos keyed by their identity (the overlap rule's comparison sets) never hit and the work multiplies with nesting depth", row.fn, row.memo)
			continue
		}
		r.Check(keyOK && sameKey && first && hit, row.fn, look.Pos(),
			"memo looked up by parameter key before any work; hit returns; miss path stores under the same key",
			fmt.Sprintf("%s: memo discipline broken (key from parameter=%v, same key stored=%v, lookup before work=%v, hit returns without work=%v)", row.fn, keyOK, sameKey, first, hit))
	}
	// (2) the two comparison memos of the overlap rule
	for _, row := range []struct{ fn, memo string }{
		{"overlappingFieldsCanBeMergedRule.collectConflictsBetweenFieldsAndFragment", "field:overlappingFieldsCanBeMergedRule.comparedFieldsAndFragmentSet"},
		{"overlappingFieldsCanBeMergedRule.collectConflictsBetweenFragments", "field:overlappingFieldsCanBeMergedRule.comparedSet"},
	} {
		fn := c.Func("", row.fn)
		if fn == nil {
			r.Unknown(row.fn, token.NoPos, "not found")
			continue
		}
		var has, add *ssa.Call
		for _, op := range setOps(fn) {
			if call, ok := op.in.(*ssa.Call); ok && core.HasClass(op.set, row.memo) {
				if op.store {
					add = call
				} else {
					has = call
				}
			}
		}
		if has == nil || add == nil {
			r.Bad(row.fn, fn.Pos(), "%s no longer consults and fills %s: the same comparison is repeated for every path through mutually spreading fragments (exponential validation time; non-termination on cyclic spreads)", row.fn, row.memo)
			continue
		}
		// all three key components are the function's own parameters, identical in Has and Add
		okKey := len(has.Call.Args) == 4 && len(add.Call.Args) == 4
		if okKey {
			for i := 1; i < 4; i++ {
				if has.Call.Args[i] != add.Call.Args[i] {
					okKey = false
				}
				if _, isP := has.Call.Args[i].(*ssa.Parameter); !isP {
					okKey = false
				}
			}
		}
		// Has hit returns; Add before every recursive call / comparison
		okHit := false
		for _, ref := range *has.Referrers() {
			if iff, ok := ref.(*ssa.If); ok {
				s := iff.Block().Succs[0]
				if _, ok := s.Instrs[len(s.Instrs)-1].(*ssa.Return); ok && len(s.Instrs) <= 2 {
					okHit = true
				}
			}
		}
		okOrder := core.InstrDominates(has, add)
		for _, ci := range core.CallSites(fn) {
			cal := ci.Common().StaticCallee()
			if cal == nil || cal.Signature.Recv() == nil || core.TypeName(cal.Signature.Recv().Type()) != "overlappingFieldsCanBeMergedRule" {
				continue
			}
			if cal == fn || core.N(cal) == "collectConflictsBetween" {
				if !core.InstrDominates(add, ci) {
					okOrder = false
				}
			}
		}
		r.Check(okKey && okHit && okOrder, row.fn, has.Pos(),
			"Has(all three parameters) gates the body, hit returns, Add(same triple) precedes every comparison and recursive call",
			fmt.Sprintf("%s: memo discipline broken (full identical key=%v, hit returns=%v, Add before recursion=%v): repeated or unbounded comparison work", row.fn, okKey, okHit, okOrder))
	}
	// (3) memo objects allocated once per validation: created in the rule constructor, not in the callback
	if ctor := c.Func("", "OverlappingFieldsCanBeMergedRule"); ctor != nil {
		n := 0
		for _, name := range []string{"newPairSet", "newFieldsAndFragmentSet"} {
			n += len(core.CallsTo(ctor, c.Func("", name), false))
		}
		mk := 0
		core.Instrs(ctor, func(in ssa.Instruction) {
			if mm, ok := in.(*ssa.MakeMap); ok && strings.Contains(mm.Type().String(), "fieldsAndFragmentNames") {
				mk++
			}
		})
		inner := 0
		for _, a := range ctor.AnonFuncs {
			for _, f := range core.WithAnon(a) {
				for _, name := range []string{"newPairSet", "newFieldsAndFragmentSet"} {
					inner += len(core.CallsTo(f, c.Func("", name), false))
				}
				core.Instrs(f, func(in ssa.Instruction) {
					if mm, ok := in.(*ssa.MakeMap); ok && strings.Contains(mm.Type().String(), "fieldsAndFragmentNames") {
						inner++
					}
				})
			}
		}
		r.Check(n == 2 && mk == 1 && inner == 0, "OverlappingFieldsCanBeMergedRule/memo-allocation", ctor.Pos(),
			"the three memo objects are created once per rule instance, outside the per-selection-set callback",
			"the overlap rule's memo objects are (re)created inside the per-selection-set callback (or not created in the constructor): nothing is remembered between selection sets")
		// and the rule struct built in the callback receives exactly those objects
		for _, a := range ctor.AnonFuncs {
			for _, st := range core.LiteralStores(a, "overlappingFieldsCanBeMergedRule") {
				for _, f := range []string{"comparedSet", "comparedFieldsAndFragmentSet", "cacheMap"} {
					ok := len(st[f]) == 1
					if ok {
						cl := core.Classes(st[f][0])
						ok = len(cl) == 1 && (strings.HasPrefix(cl[0], "call:new") || cl[0] == "make")
					}
					r.Check(ok, "OverlappingFieldsCanBeMergedRule/rule."+f, a.Pos(), "field receives the constructor's memo object",
						"overlappingFieldsCanBeMergedRule."+f+" is not fed from the memo object created in the constructor")
				}
			}
		}
	} else {
		r.Unknown("OverlappingFieldsCanBeMergedRule", token.NoPos, "not found")
	}
	// (4) Has predicates: read all parameters; non-exclusive query answered only by a non-exclusive entry
	for _, name := range []string{"pairSet.Has", "fieldsAndFragmentSet.Has"} {
		fn := c.Func("", name)
		if fn == nil {
			r.Unknown(name, token.NoPos, "not found")
			continue
		}
		used := 0
		for _, p := range fn.Params[1:] {
			if len(*p.Referrers()) > 0 {
				used++
			}
		}
		// the flag parameter feeds an If; on its false (non-exclusive) arm the returned value is a comparison of the stored flag
		flag := fn.Params[len(fn.Params)-1]
		okFlag := false
		core.Instrs(fn, func(in ssa.Instruction) {
			iff, ok := in.(*ssa.If)
			if !ok {
				return
			}
			cond := iff.Cond
			neg := false
			if u, ok := cond.(*ssa.UnOp); ok && u.Op == token.NOT {
				cond, neg = u.X, true
			}
			if cond != flag {
				return
			}
			nonExcl := iff.Block().Succs[1]
			if neg {
				nonExcl = iff.Block().Succs[0]
			}
			if ret, ok := nonExcl.Instrs[len(nonExcl.Instrs)-1].(*ssa.Return); ok {
				if bo, ok := ret.Results[0].(*ssa.BinOp); ok && bo.Op == token.EQL {
					if _, isEx := bo.X.(*ssa.Extract); isEx {
						okFlag = true
					}
				}
			}
		})
		r.Check(used == len(fn.Params)-1 && okFlag, name, fn.Pos(),
			"reads every key component; a non-exclusive query is satisfied only by an entry stored as non-exclusive",
			name+" ignores a key component or answers a non-exclusive query from an entry compared as mutually exclusive: conflicts found only by the stricter comparison are skipped (documents with conflicting fields accepted)")
	}
}

func storeReaches(store *ssa.MapUpdate, b *ssa.BasicBlock) bool {
	if store.Block() == b {
		return true
	}
	return core.Reachable(store.Block())[b]
}

func recLazy(c *core.Ctx, r *core.Reporter) {
	pq := c.Func("", "PlanQuery")
	if pq == nil {
		r.Unknown("PlanQuery", token.NoPos, "not found")
		return
	}
	// static reachability from PlanQuery, not entering the membership test IsPossibleType
	ipt := c.Func("", "Schema.IsPossibleType")
	seen := map[*ssa.Function]bool{pq: true}
	q := []*ssa.Function{pq}
	for len(q) > 0 {
		f := q[0]
		q = q[1:]
		for _, ff := range core.WithAnon(f) {
			for _, ci := range core.CallSites(ff) {
				if cal := ci.Common().StaticCallee(); cal != nil && c.IsLib(cal) && !seen[cal] && cal != ipt {
					seen[cal] = true
					q = append(q, cal)
				}
			}
		}
	}
	bad := ""
	for f := range seen {
		n := fnKey(f)
		if n == "Schema.PossibleTypes" || n == "Union.Types" {
			bad = n + " is reachable from PlanQuery outside IsPossibleType"
		}
		core.Instrs(f, func(in ssa.Instruction) {
			if u, ok := in.(*ssa.UnOp); ok && u.Op == token.MUL {
				if fld := core.FieldOf(u.X); fld != nil && core.N(fld) == "implementations" {
					bad = fnKey(f) + " reads Schema.implementations"
				}
			}
		})
	}
	r.Check(bad == "", "PlanQuery/no-possible-type-enumeration", pq.Pos(),
		"nothing on the planning path enumerates possible types (only the IsPossibleType membership test)",
		"plan-time code enumerates possible types ("+bad+"): abstract fields are expanded eagerly, O(possibleTypes^depth) planning work")
	if fn := c.Func("", "Plan.planMergedFieldChildren"); fn != nil {
		r.Check(len(core.Loops(fn)) == 0, "Plan.planMergedFieldChildren/no-loop", fn.Pos(), "no loop (object children planned once, abstract children lazily)",
			"planMergedFieldChildren contains a loop: abstract fields are planned per possible type at plan time")
	} else {
		// inlined into its callers (they loop over the collected fields, which is fine): eager expansion would still need
		// to enumerate possible types or call abstractAlternative, which the two neighbouring obligations decide
		r.Exists("Plan.planMergedFieldChildren/no-loop", pq.Pos(), "the function no longer exists as such; eager expansion is excluded by the enumeration and who-may-call obligations")
	}
	aa := c.Func("", "Plan.abstractAlternative")
	var callers []string
	for _, fn := range c.LibFuncs() {
		if len(core.CallsTo(fn, aa, false)) > 0 {
			callers = append(callers, fnKey(fn))
		}
	}
	r.Check(len(callers) == 1 && callers[0] == "completePlannedAbstractValue", "Plan.abstractAlternative/who-may-call", token.NoPos,
		"called only from completePlannedAbstractValue (with the runtime type it just resolved, see C20/FLOW-parent)",
		fmt.Sprintf("abstractAlternative is called from %v: sub-plans of abstract fields are built for types no request resolved", callers))
}

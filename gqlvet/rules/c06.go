package rules

import (
	"fmt"
	"go/ast"
	"go/token"
	"go/types"
	"sort"
	"strings"

	"golang.org/x/tools/go/ssa"

	"verif/gqlvet/core"
)

func init() {
	docs["C06"] = Doc{
		Explanation: "Decides the structural facts that make every cache history transparent: " +
			"(TAB-fingerprint) the hand-written fingerprint traversal reads every field (other than Kind/Loc and a tabled exception list) of every AST struct type it handles, and its three type switches cover every implementer of ast.Value / ast.Selection / ast.Type — so nothing that can change the response is missing from the key; " +
			"(FLOW-delimit) string contents are length-prefixed before being written into the delimiter-based key encoding; " +
			"(DOM-schema) a cache hit is returned only under the entry.schema == schema comparison; " +
			"(PAIR-lru) the LRU list and the key map are updated in pairs in lookup/store/Reset, the eviction loop bounded by MaxEntries follows the insertion, NewPlanCache normalises MaxEntries <= 0; " +
			"(FLOW-percall) the per-call synthetic arguments never enter a stored PlanResult and are re-attached on the hit path; the plan-owned static argument map never reaches ResolveParams.Args except through the per-call copy; " +
			"(OWN-doc) normalisation writes only AST node types that the clone functions allocate, on an operation obtained from cloneOperation, and never follows a fragment spread into a (shared) fragment definition.",
		NotDecided: "that the normalised document executes like the original for all literal shapes (enum literals extracted as internal values and repeated fields getting distinct synthetic variables are known behavioural defects named in the property text — they are not structural and not decided here); LRU recency order; hit/miss counts; hash collisions of the 64-bit FNV key.",
	}
	register(&core.Rule{Name: "C06/TAB-fingerprint", Props: []string{"C06", "C12"}, Min: 20,
		Doc: "fingerprint reads every field of every AST type it handles; type switches closed", Run: c06Fingerprint})
	register(&core.Rule{Name: "C06/FLOW-delimit", Props: []string{"C06"}, Min: 1,
		Doc: "string contents are length-prefixed in the key encoding", Run: c06Delimit})
	register(&core.Rule{Name: "C06/DOM-schema", Props: []string{"C06"}, Min: 1,
		Doc: "cache hit dominated by the schema-pointer comparison", Run: c06Schema})
	register(&core.Rule{Name: "C06/PAIR-lru", Props: []string{"C06"}, Min: 5,
		Doc: "list and map updated in pairs; bounded eviction after insertion; MaxEntries normalised", Run: c06LRU})
	register(&core.Rule{Name: "C06/FLOW-percall", Props: []string{"C06", "C20"}, Min: 4,
		Doc: "per-call synth args never cached; plan-owned static args copied before reaching a resolver", Run: c06PerCall})
	register(&core.Rule{Name: "C06/OWN-doc", Props: []string{"C06"}, Min: 5,
		Doc: "normalisation writes only what it cloned", Run: c06OwnDoc})
}

// fingerprint exceptions: field -> reason it need not be hashed in the method handling its type.
var fingerprintExceptions = map[string]string{
	"ast.OperationDefinition.Name":               "keyed through the operationName parameter, which is part of the cache key",
	"ast.FragmentDefinition.Name":                "written at the spread site that names the fragment",
	"ast.FragmentDefinition.Operation":           "constant for every fragment definition",
	"ast.FragmentDefinition.VariableDefinitions": "never produced by this grammar",
	"ast.Directive.Kind":                         "",
}

func fingerprintNodes(c *core.Ctx) ([]ast.Node, *types.Info) {
	p := c.Pkg("")
	var nodes []ast.Node
	for _, f := range p.Syntax {
		for _, d := range f.Decls {
			fd, ok := d.(*ast.FuncDecl)
			if !ok || fd.Body == nil {
				continue
			}
			name := core.DeclName(fd)
			if strings.HasPrefix(name, "fingerprintWriter.") || name == "fingerprintDocument" {
				nodes = append(nodes, fd)
			}
		}
	}
	return nodes, p.TypesInfo
}

func c06Fingerprint(c *core.Ctx, r *core.Reporter) {
	nodes, info := fingerprintNodes(c)
	if len(nodes) < 5 {
		r.Unknown("fingerprintWriter", token.NoPos, "fingerprint traversal not found (%d functions)", len(nodes))
		return
	}
	read := core.FieldsRead(info, nodes)
	var handled []string
	for tn := range read {
		if strings.HasPrefix(tn, "ast.") {
			handled = append(handled, tn)
		}
	}
	sort.Strings(handled)
	for _, tn := range handled {
		n := c.Named("language/ast", strings.TrimPrefix(tn, "ast."))
		if n == nil {
			continue
		}
		for _, f := range core.Fields(n) {
			if core.N(f) == "Kind" || core.N(f) == "Loc" {
				continue
			}
			key := tn + "." + core.N(f)
			if why, ok := fingerprintExceptions[key]; ok {
				r.Exists(key, n.Obj().Pos(), "excepted: %s", why)
				continue
			}
			r.Check(read[tn][core.N(f)], key, nodes[0].Pos(),
				"field read by the fingerprint traversal",
				"the fingerprint handles "+tn+" but never reads its field "+core.N(f)+": two documents differing only there share one cache entry, so the second is served the first one's plan")
		}
	}
	// the traversal must handle the types that can change a response
	for _, must := range []string{"OperationDefinition", "VariableDefinition", "Field", "Argument", "InlineFragment", "FragmentSpread", "FragmentDefinition", "Directive", "ObjectField"} {
		if read["ast."+must] == nil {
			r.Bad("handles/ast."+must, nodes[0].Pos(), "the fingerprint traversal no longer looks at ast.%s nodes at all", must)
		}
	}
	// closed type switches
	for _, nd := range nodes {
		fd := nd.(*ast.FuncDecl)
		for _, sw := range core.TypeSwitches(info, fd.Body, true) {
			if sw.Subject == nil {
				continue
			}
			in := core.NamedOf(sw.Subject)
			if in == nil || in.Obj().Pkg() == nil || in.Obj().Pkg().Name() != "ast" {
				continue
			}
			var want []string
			switch core.N(in.Obj()) {
			case "Value":
				want = c.DeclaredImplementers("language/ast", "Value")
			case "Selection":
				want = c.DeclaredImplementers("language/ast", "Selection")
			case "Type":
				want = c.DeclaredImplementers("language/ast", "Type")
			default:
				continue
			}
			if len(want) < 3 {
				r.Unknown(core.DeclName(fd)+"/switch "+core.N(in.Obj()), sw.Node.Pos(), "closed set of ast.%s not found in the `var _ I = (*T)(nil)` declarations", core.N(in.Obj()))
				continue
			}
			miss := core.Missing(want, sw.Cases)
			key := core.DeclName(fd) + "/switch " + core.N(in.Obj())
			r.Check(len(miss) == 0, key, sw.Node.Pos(),
				fmt.Sprintf("covers all %d implementers of ast.%s", len(want), core.N(in.Obj())),
				"type switch over ast."+core.N(in.Obj())+" misses "+core.Join(miss)+": nodes of that kind are not part of the cache key")
		}
	}
}

func c06Delimit(c *core.Ctx, r *core.Reporter) {
	nodes, info := fingerprintNodes(c)
	found := false
	for _, nd := range nodes {
		fd := nd.(*ast.FuncDecl)
		for _, sw := range core.TypeSwitches(info, fd.Body, true) {
			cl := sw.Clauses["StringValue"]
			if cl == nil {
				continue
			}
			found = true
			// the clause writes n.Value; it must also write len(n.Value) (or an escaped form) before it
			hasLen, hasRaw := false, false
			var lenPos, rawPos token.Pos
			ast.Inspect(cl, func(n ast.Node) bool {
				call, ok := n.(*ast.CallExpr)
				if !ok {
					return true
				}
				if core.IsBuiltinCall(info, call, "len") && len(call.Args) == 1 && core.FieldSel(info, call.Args[0], "StringValue", "Value") {
					hasLen, lenPos = true, call.Pos()
				}
				if f := core.CalleeObj(info, call); f != nil && core.FuncFullName(f) == "fingerprintWriter.writeString" && len(call.Args) == 1 &&
					core.FieldSel(info, call.Args[0], "StringValue", "Value") {
					hasRaw, rawPos = true, call.Pos()
				}
				return true
			})
			r.Check(hasRaw && hasLen && lenPos < rawPos, "fingerprintWriter.writeValue/StringValue", cl.Pos(),
				"string contents are written after their length",
				"StringValue contents are written into the delimiter-based key without a length prefix (or escaping): [\"a,sb\"] and [\"a\",\"b\"] produce the same key and share a plan")
		}
	}
	if !found {
		r.Unknown("fingerprintWriter.writeValue/StringValue", token.NoPos, "no type-switch arm for *ast.StringValue in the fingerprint traversal")
	}
}

// isHitReturn: the exit reports a cache hit — its boolean result is the constant true, or, when the results are bundled
// in a struct, the struct it returns has its boolean field set to true.
func isHitReturn(ret *ssa.Return) bool {
	isTrue := func(v ssa.Value) bool {
		cst, ok := v.(*ssa.Const)
		return ok && cst.Value != nil && cst.Value.String() == "true"
	}
	switch len(ret.Results) {
	case 2:
		return isTrue(core.RetVal(ret, 1))
	case 1:
		u, ok := core.RetVal(ret, 0).(*ssa.UnOp)
		if !ok {
			return false
		}
		al, ok := u.X.(*ssa.Alloc)
		if !ok {
			return false
		}
		for _, ref := range *al.Referrers() {
			fa, ok := ref.(*ssa.FieldAddr)
			if !ok || fa.Referrers() == nil {
				continue
			}
			for _, rr := range *fa.Referrers() {
				if st, ok := rr.(*ssa.Store); ok && st.Addr == ssa.Value(fa) && isTrue(st.Val) && core.InstrDominates(st, ret) {
					return true
				}
			}
		}
	}
	return false
}

func c06Schema(c *core.Ctx, r *core.Reporter) {
	fn := c.Func("", "PlanCache.lookup")
	if fn == nil {
		r.Unknown("PlanCache.lookup", token.NoPos, "not found")
		return
	}
	var schemaParam *ssa.Parameter
	for _, p := range fn.Params {
		if core.TypeName(p.Type()) == "Schema" {
			schemaParam = p
		}
	}
	// comparison entry.schema ==/!= schema
	var cmp *ssa.BinOp
	core.Instrs(fn, func(in ssa.Instruction) {
		bo, ok := in.(*ssa.BinOp)
		if !ok || (bo.Op != token.EQL && bo.Op != token.NEQ) {
			return
		}
		for _, pair := range [][2]ssa.Value{{bo.X, bo.Y}, {bo.Y, bo.X}} {
			if pair[1] != schemaParam {
				continue
			}
			if u, ok := pair[0].(*ssa.UnOp); ok {
				if f := core.FieldOf(u.X); f != nil && core.N(f) == "schema" {
					cmp = bo
				}
			}
		}
	})
	if cmp == nil || schemaParam == nil {
		r.Bad("PlanCache.lookup/schema-guard", fn.Pos(), "lookup does not compare the entry's schema pointer with the requested schema: a plan built for another schema object is served (its field definitions and resolvers belong to the other schema)")
		return
	}
	// hit returns: second result is the constant true
	okAll, nHits := true, 0
	for _, ret := range core.Returns(fn) {
		if !isHitReturn(ret) {
			continue
		}
		nHits++
		// the block where the schemas are equal must dominate the return
		dominated := false
		for _, ref := range *cmp.Referrers() {
			iff, ok := ref.(*ssa.If)
			if !ok {
				continue
			}
			eqSucc := iff.Block().Succs[0]
			if cmp.Op == token.NEQ {
				eqSucc = iff.Block().Succs[1]
			}
			if eqSucc.Dominates(ret.Block()) && len(eqSucc.Preds) == 1 {
				dominated = true
			}
		}
		if !dominated {
			okAll = false
		}
	}
	r.Check(okAll && nHits > 0, "PlanCache.lookup/schema-guard", cmp.Pos(),
		"every hit return is dominated by the arm where entry.schema == schema",
		"a cache hit can be returned without passing the entry.schema == schema comparison")
}

func c06LRU(c *core.Ctx, r *core.Reporter) {
	for _, name := range []string{"PlanCache.lookup", "PlanCache.store", "PlanCache.Reset"} {
		fn := c.Func("", name)
		if fn == nil {
			r.Unknown(name, token.NoPos, "not found")
			continue
		}
		// per block: list removals / insertions vs map deletes / updates on PlanCache.entries / .order
		type cnt struct{ listRm, listIns, mapDel, mapIns, ordStore, entStore int }
		per := map[*ssa.BasicBlock]*cnt{}
		get := func(b *ssa.BasicBlock) *cnt {
			if per[b] == nil {
				per[b] = &cnt{}
			}
			return per[b]
		}
		for _, w := range core.WritesIn(fn) {
			if w.Owner == nil || core.N(w.Owner.Obj()) != "PlanCache" || w.Field == nil {
				continue
			}
			k := get(w.In.Block())
			switch {
			case w.Kind == "list" && w.Desc == "Remove":
				k.listRm++
			case w.Kind == "list" && (w.Desc == "PushFront" || w.Desc == "PushBack"):
				k.listIns++
			case w.Kind == "delete" && core.N(w.Field) == "entries":
				k.mapDel++
			case w.Kind == "map" && core.N(w.Field) == "entries":
				k.mapIns++
			case w.Kind == "field" && core.N(w.Field) == "order":
				k.ordStore++
			case w.Kind == "field" && core.N(w.Field) == "entries":
				k.entStore++
			}
		}
		bad := ""
		for b, k := range per {
			if k.listRm != k.mapDel {
				bad = fmt.Sprintf("block %d removes %d list element(s) but deletes %d map key(s)", b.Index, k.listRm, k.mapDel)
			}
			if k.listIns != k.mapIns {
				bad = fmt.Sprintf("block %d inserts %d list element(s) but %d map key(s)", b.Index, k.listIns, k.mapIns)
			}
			if k.ordStore != k.entStore {
				bad = fmt.Sprintf("block %d replaces order %d time(s) but entries %d time(s)", b.Index, k.ordStore, k.entStore)
			}
		}
		r.Check(bad == "" && len(per) > 0, name+"/paired", fn.Pos(),
			"every list removal/insertion/replacement is paired with the map's in the same block",
			"LRU list and key map get out of step ("+bad+"): an entry stays reachable from one structure only, so the cache serves or retains entries it should not")
	}
	// store: eviction loop `for order.Len() > MaxEntries` after the insertion
	if fn := c.Func("", "PlanCache.store"); fn != nil {
		var ins ssa.Instruction
		for _, w := range core.WritesIn(fn) {
			if w.Kind == "list" && w.Desc == "PushFront" {
				ins = w.In
			}
		}
		okLoop := false
		var loopPos token.Pos
		loops := map[*ssa.BasicBlock]bool{}
		for _, g := range c.Region(fn) { // the loop may have been moved into a helper called from store
			for h := range core.Loops(g) {
				loops[h] = true
			}
		}
		for h := range loops {
			// header condition: Len() > opts.MaxEntries
			iff, ok := h.Instrs[len(h.Instrs)-1].(*ssa.If)
			if !ok {
				continue
			}
			bo, ok := iff.Cond.(*ssa.BinOp)
			if !ok || bo.Op != token.GTR {
				continue
			}
			call, ok := bo.X.(*ssa.Call)
			if !ok || call.Call.StaticCallee() == nil || core.N(call.Call.StaticCallee()) != "Len" {
				continue
			}
			if u, ok := bo.Y.(*ssa.UnOp); ok {
				if f := core.FieldOf(u.X); f != nil && core.N(f) == "MaxEntries" && ins != nil {
					if at := c.Anchor(fn, iff); at != nil && core.InstrDominates(ins, at) {
						okLoop = true
						loopPos = iff.Pos()
					}
				}
			}
		}
		if ins == nil {
			r.Bad("PlanCache.store/bounded", fn.Pos(), "store no longer inserts with PushFront")
		} else {
			r.Check(okLoop, "PlanCache.store/bounded", loopPos,
				"the eviction loop `order.Len() > MaxEntries` follows the insertion",
				"no eviction loop bounded by opts.MaxEntries after the insertion: the cache retains more entries than configured")
		}
	}
	// NewPlanCache normalises MaxEntries <= 0
	if fn := c.Func("", "NewPlanCache"); fn != nil {
		norm := false
		core.Instrs(fn, func(in ssa.Instruction) {
			bo, ok := in.(*ssa.BinOp)
			if !ok || (bo.Op != token.LEQ && bo.Op != token.LSS) {
				return
			}
			if u, ok := bo.X.(*ssa.UnOp); ok {
				if f := core.FieldOf(u.X); f != nil && core.N(f) == "MaxEntries" {
					norm = true
				}
			}
		})
		r.Check(norm, "NewPlanCache/MaxEntries", fn.Pos(), "non-positive MaxEntries replaced by the default",
			"NewPlanCache does not normalise MaxEntries <= 0: with 0 the eviction loop empties the cache on every store (or never evicts)")
	} else {
		r.Unknown("NewPlanCache", token.NoPos, "not found")
	}
}

func c06PerCall(c *core.Ctx, r *core.Reporter) {
	get := c.Func("", "PlanCache.Get")
	norm := c.Func("", "normalizeDocument")
	store := c.Func("", "PlanCache.store")
	lookup := c.Func("", "PlanCache.lookup")
	if get == nil || norm == nil || store == nil || lookup == nil {
		r.Unknown("PlanCache.Get", token.NoPos, "Get / normalizeDocument / store / lookup not found")
		return
	}
	region := c.Region(get) // Get, or the phases it has been split into
	if len(c.RegionCallsTo(get, norm)) == 0 {
		r.Unknown("PlanCache.Get/synthArgs", get.Pos(), "Get no longer normalises the document")
		return
	}
	// The per-call synthetic arguments are the only thing ever stored into PlanResult.SynthArgs (the map normalizeDocument
	// returns for this call). Every such store, with the local PlanResult it goes into:
	type attach struct {
		st    *ssa.Store
		owner ssa.Value
	}
	var attaches []attach
	for _, g := range region {
		core.Instrs(g, func(in ssa.Instruction) {
			st, ok := in.(*ssa.Store)
			if !ok || core.IsNilConst(st.Val) {
				return
			}
			fa, ok := st.Addr.(*ssa.FieldAddr)
			if !ok {
				return
			}
			if f := core.FieldOf(fa); f == nil || core.N(f) != "SynthArgs" || core.TypeName(fa.X.Type()) != "PlanResult" {
				return
			}
			attaches = append(attaches, attach{st, fa.X})
		})
	}
	reaches := func(a, b ssa.Instruction) bool { // a may execute before b (same function)
		if a.Parent() != b.Parent() {
			return false
		}
		if a.Block() == b.Block() {
			return core.InstrIndex(a) < core.InstrIndex(b)
		}
		return core.Reachable(a.Block())[b.Block()]
	}
	cellOf := func(v ssa.Value) ssa.Value { // the local cell a by-value PlanResult was loaded from
		if u, ok := v.(*ssa.UnOp); ok && u.Op == token.MUL {
			return u.X
		}
		return nil
	}
	// (i) nothing handed to store carries synthetic arguments
	nStore := 0
	for _, site := range c.RegionCallsTo(get, store) {
		nStore++
		bad := false
		for _, a := range site.Common().Args {
			// the PlanResult itself, or a struct literal that contains one (an entry bundling schema and result)
			cells := []ssa.Value{cellOf(a)}
			if u, ok := a.(*ssa.UnOp); ok {
				if al, ok := u.X.(*ssa.Alloc); ok {
					for _, ref := range *al.Referrers() {
						if fa, ok := ref.(*ssa.FieldAddr); ok && core.TypeName(fa.Type().(*types.Pointer).Elem()) == "PlanResult" && fa.Referrers() != nil {
							for _, rr := range *fa.Referrers() {
								if st, ok := rr.(*ssa.Store); ok && st.Addr == ssa.Value(fa) {
									cells = append(cells, cellOf(st.Val))
								}
							}
						}
					}
				}
			}
			for _, at := range attaches {
				for _, cell := range cells {
					if cell != nil && at.owner == cell && reaches(at.st, site) {
						bad = true
					}
				}
			}
		}
		r.Check(!bad, fmt.Sprintf("PlanCache.Get/store#%d", nStore), site.Pos(),
			"the stored PlanResult carries no per-call synthetic arguments",
			"this call stores a PlanResult that carries this call's synthetic arguments: later requests with other literals are handed these values")
	}
	if nStore == 0 {
		r.Unknown("PlanCache.Get/store", get.Pos(), "Get never stores")
	}
	// (ii) the hit path and the planned miss path both hand back synthetic arguments
	hits := map[*ssa.Function]*ssa.BasicBlock{} // per function: the block entered when the normalised lookup hit
	for _, site := range c.RegionCallsTo(get, lookup) {
		call, _ := site.(*ssa.Call)
		if call == nil {
			continue
		}
		for _, ref := range *call.Referrers() {
			// the hit flag: second result, or the boolean field of a result struct (read directly or from a local copy)
			var flags []ssa.Value
			switch x := ref.(type) {
			case *ssa.Extract:
				if x.Index == 1 {
					flags = append(flags, x)
				}
			case *ssa.Field:
				if b, ok := x.Type().Underlying().(*types.Basic); ok && b.Kind() == types.Bool {
					flags = append(flags, x)
				}
			case *ssa.Store:
				if al, ok := x.Addr.(*ssa.Alloc); ok {
					for _, ar := range *al.Referrers() {
						fa, ok := ar.(*ssa.FieldAddr)
						if !ok || fa.Referrers() == nil {
							continue
						}
						if b, ok := fa.Type().(*types.Pointer).Elem().Underlying().(*types.Basic); !ok || b.Kind() != types.Bool {
							continue
						}
						for _, ld := range *fa.Referrers() {
							if u, ok := ld.(*ssa.UnOp); ok && u.Op == token.MUL {
								flags = append(flags, u)
							}
						}
					}
				}
			}
			for _, fl := range flags {
				for _, u := range *fl.Referrers() {
					iff, ok := u.(*ssa.If)
					if !ok {
						continue
					}
					// `if ok {hit}` or `if !ok {miss; return}`: the hit side is the one the flag's truth leads to
					hits[call.Parent()] = iff.Block().Succs[0]
				}
				// `if !ok { return … }` negates the flag first
				for _, u := range *fl.Referrers() {
					if not, ok := u.(*ssa.UnOp); ok && not.Op == token.NOT {
						for _, u2 := range *not.Referrers() {
							if iff, ok := u2.(*ssa.If); ok {
								hits[call.Parent()] = iff.Block().Succs[1]
							}
						}
					}
				}
			}
		}
	}
	reattached, finalRet := false, false
	for _, at := range attaches {
		g := at.st.Parent()
		for _, ret := range core.Returns(g) {
			returnsCell := false
			for i := range ret.Results {
				if cellOf(core.RetVal(ret, i)) == at.owner {
					returnsCell = true
				}
			}
			if !returnsCell || !reaches(at.st, ret) {
				continue
			}
			if hit := hits[g]; hit != nil && hit.Dominates(ret.Block()) {
				reattached = true
			} else {
				finalRet = true
			}
		}
	}
	r.Check(reattached, "PlanCache.Get/hit-synthArgs", get.Pos(), "the hit path hands back this call's own synthetic arguments",
		"on a normalised cache hit the result's SynthArgs are not replaced by this call's values: the request executes with missing or foreign literal values")
	r.Check(finalRet, "PlanCache.Get/miss-synthArgs", get.Pos(), "the miss path returns this call's synthetic arguments with the new plan",
		"the miss path does not return this call's synthetic arguments")

	// (iii) plan-owned static args never alias ResolveParams.Args
	for _, fname := range []string{"resolvePlannedField"} {
		fn := c.Func("", fname)
		if fn == nil {
			r.Unknown(fname+"/args", token.NoPos, "not found")
			continue
		}
		bad := false
		n := 0
		c.RegionInstrs(fn, func(in ssa.Instruction) { // the function or the phases it has been split into
			st, ok := in.(*ssa.Store)
			if !ok {
				return
			}
			f := core.FieldOf(st.Addr)
			if f == nil || core.N(f) != "Args" {
				return
			}
			if fa, ok := st.Addr.(*ssa.FieldAddr); !ok || core.TypeName(fa.X.Type()) != "ResolveParams" {
				return
			}
			n++
			for _, o := range core.Origins(st.Val) {
				if u, ok := o.(*ssa.UnOp); ok && u.Op == token.MUL {
					if ff := core.FieldOf(u.X); ff != nil && core.N(ff) == "static" {
						bad = true
					}
				}
			}
		})
		if n == 0 {
			r.Unknown(fname+"/args", fn.Pos(), "no ResolveParams.Args store found")
			continue
		}
		r.Check(!bad, fname+"/args-not-plan-owned", fn.Pos(),
			"ResolveParams.Args is a fresh per-call map (getArgumentValues result or a copy), never the plan's static map",
			"the plan-owned static argument map is handed to the resolver directly: a resolver that mutates Args changes every later execution of the plan")
	}
}

// taintedBefore: o becomes tainted by an assignment located before pos.
func taintedBefore(info *types.Info, fd *ast.FuncDecl, o types.Object, tainted map[types.Object]bool, pos token.Pos) bool {
	hit := false
	ast.Inspect(fd.Body, func(n ast.Node) bool {
		as, ok := n.(*ast.AssignStmt)
		if !ok || as.Pos() > pos {
			return true
		}
		for i, rhs := range as.Rhs {
			if i >= len(as.Lhs) {
				break
			}
			lhs := as.Lhs[i]
			if se, ok := lhs.(*ast.SelectorExpr); ok {
				lhs = se.X
			}
			if core.ObjOf(info, lhs) != o {
				continue
			}
			ast.Inspect(rhs, func(x ast.Node) bool {
				if id, ok := x.(*ast.Ident); ok && tainted[info.Uses[id]] && info.Uses[id] != o {
					hit = true
				}
				return true
			})
		}
		return true
	})
	return hit
}

func c06OwnDoc(c *core.Ctx, r *core.Reporter) {
	cloneFns := []string{"cloneOperation", "cloneSelectionSet", "cloneField"}
	allocated := map[string]bool{}
	for _, n := range cloneFns {
		fn := c.Func("", n)
		if fn == nil {
			r.Unknown(n, token.NoPos, "clone function not found")
			return
		}
		core.Instrs(fn, func(in ssa.Instruction) {
			if al, ok := in.(*ssa.Alloc); ok {
				if nm := core.NamedOf(al.Type()); nm != nil && nm.Obj().Pkg() != nil && nm.Obj().Pkg().Name() == "ast" {
					allocated[core.N(nm.Obj())] = true
				}
			}
		})
	}
	// written types in the normaliser
	written := map[string]token.Pos{}
	for _, fn := range c.LibFuncs() {
		if !normalizerFns[fnKey(fn)] {
			continue
		}
		for _, w := range core.WritesIn(fn) {
			if domainOf(w) == "ast" && !w.Fresh {
				written[core.N(w.Owner.Obj())+"."+core.N(w.Field)] = w.In.Pos()
			}
		}
	}
	if len(written) == 0 {
		r.Unknown("normaliser/writes", token.NoPos, "no AST writes found in the normaliser (anchors moved)")
		return
	}
	var keys []string
	for k := range written {
		keys = append(keys, k)
	}
	sort.Strings(keys)
	for _, k := range keys {
		tn := k[:strings.Index(k, ".")]
		r.Check(allocated[tn], "writes/"+k, written[k],
			"written node type is freshly allocated by the clone functions",
			"the normaliser writes "+k+" but the clone functions never allocate ast."+tn+": the caller's (possibly cached or shared) document is modified")
	}
	// containers on the access path are cloned too
	for _, tn := range []string{"OperationDefinition", "SelectionSet", "Field", "InlineFragment", "Argument"} {
		r.Check(allocated[tn], "clones/"+tn, token.NoPos, "clone functions allocate a fresh ast."+tn,
			"ast."+tn+" lies on the path from the operation to the rewritten arguments but is no longer cloned")
	}
	// the normalised operation is the clone, not the original
	nd := c.Func("", "normalizeDocument")
	co := c.Func("", "cloneOperation")
	ns := c.Func("", "normCtx.normalizeSelectionSet")
	if nd == nil || co == nil || ns == nil {
		r.Unknown("normalizeDocument", token.NoPos, "normalizeDocument / cloneOperation / normalizeSelectionSet not found")
		return
	}
	// the clone: the result of cloneOperation or — when that helper is written in place — an operation definition that
	// normalizeDocument allocates itself
	fromClone := func(v ssa.Value) bool {
		os := core.Origins(v)
		for _, o := range os {
			if call, ok := o.(*ssa.Call); ok && call.Call.StaticCallee() == co && co != nd {
				continue
			}
			if al, ok := o.(*ssa.Alloc); ok && al.Parent() == nd && core.TypeName(al.Type()) == "OperationDefinition" {
				continue
			}
			return false
		}
		return len(os) > 0
	}
	okArg, n := true, 0
	for _, ci := range core.CallsTo(nd, ns, false) {
		n++
		arg := ci.Common().Args[1]
		u, ok := arg.(*ssa.UnOp)
		if !ok {
			okArg = false
			continue
		}
		fa, ok := u.X.(*ssa.FieldAddr)
		if !ok || !fromClone(fa.X) {
			okArg = false
		}
	}
	r.Check(okArg && n > 0, "normalizeDocument/walks-clone", nd.Pos(), "normalisation walks the selection set of cloneOperation's result",
		"normalisation is applied to the original operation instead of its clone: the caller's document is rewritten")
	okVD := true
	for _, w := range core.WritesIn(nd) {
		if w.Field != nil && core.N(w.Field) == "VariableDefinitions" {
			if fa, ok := w.In.(*ssa.Store).Addr.(*ssa.FieldAddr); !ok || !fromClone(fa.X) {
				okVD = false
			}
		}
	}
	r.Check(okVD, "normalizeDocument/vardefs-on-clone", nd.Pos(), "synthetic variable definitions are appended to the clone's (copied) slice",
		"synthetic variable definitions are appended to the original operation")
	// never follows a spread into a fragment definition
	_, info := fingerprintNodes(c)
	var normNodes []ast.Node
	c.FuncDecls(func(rel string, p2 *packagesPkg, fd *ast.FuncDecl) {
		if rel == "" && normalizerFns[core.DeclName(fd)] {
			normNodes = append(normNodes, fd)
		}
	})
	read := core.FieldsRead(info, normNodes)
	r.Check(read["ast.FragmentDefinition"] == nil, "normaliser/no-fragment-definitions", nd.Pos(),
		"the normaliser never reads a fragment definition (spreads are left as they are)",
		"the normaliser reads ast.FragmentDefinition fields: it would rewrite fragment definitions, which are shared by reference with the original document")
}

func init() {
	register(&core.Rule{Name: "C06/FLOW-wrappers", Props: []string{"C06"}, Min: 1,
		Doc: "the key encoding of the two type wrappers is unambiguous: not one prefix-only and one suffix-only", Run: c06Wrappers})
}

// c06Wrappers: writeType encodes List and NonNull around the encoding of the wrapped type. With two unary wrappers the
// encoding is ambiguous exactly when one of them only writes before and the other only writes after the inner type
// (a·(T·b) = (a·T)·b): `[Int!]` and `[Int]!` then get the same key and share a cache entry although they coerce
// null elements / an omitted variable differently.
func c06Wrappers(c *core.Ctx, r *core.Reporter) {
	p, fd := c.FindDecl("", "fingerprintWriter.writeType")
	if fd == nil {
		r.Unknown("fingerprintWriter.writeType/wrappers", token.NoPos, "not found")
		return
	}
	info := p.TypesInfo
	self := info.Defs[fd.Name]
	sws := core.TypeSwitches(info, fd.Body, false)
	if len(sws) != 1 {
		r.Unknown("fingerprintWriter.writeType/wrappers", fd.Pos(), "expected one type switch")
		return
	}
	shape := map[string][2]bool{} // wrapper -> (writes before, writes after) the recursive call
	for _, kind := range []string{"List", "NonNull"} {
		cl := sws[0].Clauses[kind]
		if cl == nil {
			r.Bad("fingerprintWriter.writeType/wrappers", fd.Pos(), "writeType has no arm for *ast.%s: the wrapper is not part of the key", kind)
			return
		}
		rec := -1
		var writes []int
		for i, st := range cl.Body {
			ast.Inspect(st, func(n ast.Node) bool {
				call, ok := n.(*ast.CallExpr)
				if !ok {
					return true
				}
				f := core.CalleeObj(info, call)
				switch {
				case f != nil && types.Object(f) == self:
					rec = i
				case f != nil && strings.HasPrefix(core.N(f), "write"):
					writes = append(writes, i)
				}
				return true
			})
		}
		if rec < 0 {
			r.Bad("fingerprintWriter.writeType/wrappers", cl.Pos(), "the *ast.%s arm of writeType does not encode the wrapped type", kind)
			return
		}
		var sh [2]bool
		for _, i := range writes {
			if i < rec {
				sh[0] = true
			}
			if i > rec {
				sh[1] = true
			}
		}
		if !sh[0] && !sh[1] {
			r.Bad("fingerprintWriter.writeType/wrappers", cl.Pos(), "the *ast.%s arm of writeType writes nothing besides the wrapped type: %s and T get the same key", kind, map[string]string{"List": "[T]", "NonNull": "T!"}[kind])
			return
		}
		shape[kind] = sh
	}
	l, n := shape["List"], shape["NonNull"]
	ambiguous := (l[0] && !l[1] && !n[0] && n[1]) || (n[0] && !n[1] && !l[0] && l[1])
	r.Check(!ambiguous, "fingerprintWriter.writeType/wrappers", fd.Pos(),
		fmt.Sprintf("List writes before=%v after=%v, NonNull writes before=%v after=%v: nesting order is recoverable from the key", l[0], l[1], n[0], n[1]),
		"one type wrapper is encoded only before and the other only after the wrapped type: `[T!]` and `[T]!` produce the same key, so two operations that differ in where `!` sits relative to a list share a cache entry (and one is answered with the other's plan)")
}

package rules

import (
	"fmt"
	"go/token"
	"go/types"
	"sort"
	"strings"

	"golang.org/x/tools/go/callgraph"
	"golang.org/x/tools/go/ssa"

	"verif/gqlvet/core"
)

func init() {
	docs["C04"] = Doc{
		Explanation: "(PAIR-recover) every dynamic call of user code on the execution path (resolver, thunk, IsTypeOf, ResolveType, scalar Serialize, FieldResolver.Resolve, default-resolver property functions) is reachable from the execution goroutine only through a frame whose entry defers a recover() handler calling handleFieldError, and every such handler passes handleFieldError the path and the declared type of its own frame (that type decides whether the null moves up); the goroutine itself has a top-level recover (C16/CHAN-once); " +
			"(FLOW-raw) no function of the completion family returns a value whose provenance is its raw `result` parameter or a user callback's result — only nil, completeLeafValue, another completion, a fresh map/slice or a thunk closure; in functions with a deferred recover a named result is written only at a return, so a recovered panic cannot hand back a stale raw value; " +
			"(DOM-abstract) the non-nil and IsPossibleType guards dominate abstract sub-selection execution, the IsTypeOf guard precedes object sub-selection execution, the non-null arm compares the inner completion with nil before returning it; " +
			"(EXH-complete) the dispatch in completePlannedValue covers every declared Output kind, so no kind falls through.",
		NotDecided: "legality of each serialised leaf (custom Serialize is user code); which ancestor becomes null at run time; error message text.",
	}
	register(&core.Rule{Name: "C04/PAIR-recover", Props: []string{"C04", "C09"}, Min: 10,
		Doc: "user callbacks on the execution path run under a field-level recover that reports with its own frame's path and type", Run: c04Recover})
	register(&core.Rule{Name: "C04/FLOW-raw", Props: []string{"C04"}, Min: 8,
		Doc: "raw resolver values never become response data; named results written only at returns", Run: c04Raw})
	register(&core.Rule{Name: "C04/DOM-abstract", Props: []string{"C04"}, Min: 4,
		Doc: "runtime-type, possible-type, isTypeOf and non-null guards dominate their effects", Run: c04Abstract})
	register(&core.Rule{Name: "C04/EXH-complete", Props: []string{"C04", "C01"}, Min: 2,
		Doc: "completion dispatch covers every Output kind; valueHasVariables covers every container value kind", Run: c04Exh})
}

// isFieldRecoverFrame: fn's entry block defers a literal that calls recover() and handleFieldError.
func fieldRecoverHandler(c *core.Ctx, fn *ssa.Function) *ssa.Function {
	hfe := c.Func("", "handleFieldError")
	if len(fn.Blocks) == 0 {
		return nil
	}
	for _, in := range fn.Blocks[0].Instrs {
		d, ok := in.(*ssa.Defer)
		if !ok {
			continue
		}
		g := core.ClosureFn(d.Call.Value)
		if g != nil && core.CallsRecover(g) && len(core.CallsTo(g, hfe, false)) > 0 {
			return g
		}
	}
	return nil
}

// dethunk calls are library thunks created by completePlannedValue (they call
// completePlannedThunkValueCatchingError, which recovers), not user code.
var libraryThunkCallers = map[string]string{
	"dethunkMapBreadthFirst":              "calls closures built by completePlannedValue, which recover internally",
	"dethunkListBreadthFirst":             "same",
	"dethunkMapDepthFirst":                "same",
	"dethunkListDepthFirst":               "same",
	"dethunkMapWithBreadthFirstTraversal": "calls its own queue closures",
	"dethunkValueDepthFirst":              "same as dethunkMapDepthFirst (serial mutation path)",
}

func c04Recover(c *core.Ctx, r *core.Reporter) {
	ep := c.Func("", "ExecutePlan")
	if ep == nil {
		r.Unknown("ExecutePlan", token.NoPos, "not found")
		return
	}
	var worker *ssa.Function
	core.Instrs(ep, func(in ssa.Instruction) {
		if g, ok := in.(*ssa.Go); ok {
			worker = core.GoTarget(g)
		}
	})
	if worker == nil {
		r.Unknown("ExecutePlan.worker", ep.Pos(), "worker goroutine not found")
		return
	}
	// the predicates planDirectives builds: its literals, or methods / helpers extracted from it
	gateFns := map[*ssa.Function]bool{}
	if pd := c.Func("", "planDirectives"); pd != nil {
		for _, g := range c.Region(pd) {
			if g != pd {
				gateFns[g] = true
			}
		}
	}
	// reach from the worker without entering field-recover frames
	rc := &core.ReachCfg{Roots: []*ssa.Function{worker}, OnlyLib: c.IsLib,
		BlockNode: func(fn *ssa.Function) bool {
			// variable coercion runs before any field: a panicking custom scalar there is a request
			// error through the goroutine's top-level recover (C05/C16), not a field error
			// @skip/@include predicates (literals of planDirectives) coerce only the built-in Boolean
			// `if` argument: no user scalar code can run there although the call graph, which does
			// not distinguish scalar instances, links Scalar.ParseLiteral to every ParseLiteralFn
			if gateFns[fn] {
				return true
			}
			return fieldRecoverHandler(c, fn) != nil || fn == c.Func("", "getVariableValues")
		}}
	unprotected := c.Reach(rc)
	all := c.Reach(&core.ReachCfg{Roots: []*ssa.Function{worker}, OnlyLib: c.IsLib})
	var fns []*ssa.Function
	for fn := range all {
		fns = append(fns, fn)
	}
	sort.Slice(fns, func(i, j int) bool { return fns[i].String() < fns[j].String() })
	n := 0
	for _, fn := range fns {
		for _, ci := range core.CallSites(fn) {
			cb := core.UserCallback(ci)
			if cb == "" || strings.HasPrefix(cb, "Extension.") || finishTypes[cb] {
				continue // extension hooks have their own isolation rule (C17)
			}
			// construction-time thunks are not execution-path callbacks
			if cb == "FieldsThunk" || cb == "InterfacesThunk" || cb == "UnionTypesThunk" || cb == "InputObjectConfigFieldMapThunk" {
				continue
			}
			if why, ok := libraryThunkCallers[fnKey(fn)]; ok && strings.HasPrefix(cb, "thunk") {
				r.Exists(fnKey(fn)+"/"+cb, ci.Pos(), "library thunk: %s", why)
				continue
			}
			// the same forcing written in place (dethunkValueDepthFirst inlined): the function value is asserted out of what
			// the library's own completion just returned
			if strings.HasPrefix(cb, "thunk") {
				if ok, _ := core.OnlyClasses(ci.Common().Value, "call:resolvePlannedField", "call:completePlanned*"); ok {
					r.Exists(fnKey(fn)+"/"+cb, ci.Pos(), "library thunk: the value forced is the result of the library's own completion call")
					continue
				}
			}
			n++
			key := fmt.Sprintf("%s/%s", fnKey(fn), cb)
			protectedHere := fieldRecoverHandler(c, rootOf(fn)) != nil
			if unprotected[fn] && !protectedHere {
				r.Bad(key, ci.Pos(), "user code (%s) called in %s is reachable from the execution goroutine without passing a frame that defers recover()+handleFieldError: a panic there aborts the whole request instead of nulling the field; path: %s",
					cb, fn, core.Witness(rc.Parent, fn))
			} else {
				r.OK(key, ci.Pos(), "every path from the execution goroutine passes a field-level recover frame")
			}
		}
	}
	// handlers report with their own frame's path and declared type
	for _, name := range []string{"resolvePlannedField", "completePlannedValueCatchingError", "completePlannedThunkValueCatchingError"} {
		fn := c.Func("", name)
		if fn == nil {
			r.Unknown(name+"/handler", token.NoPos, "not found")
			continue
		}
		h := fieldRecoverHandler(c, fn)
		if h == nil {
			r.Bad(name+"/handler", fn.Pos(), "%s no longer defers a recover()+handleFieldError handler at entry: panics from the completion below it (non-null violations, resolver errors) propagate to the parent field", name)
			continue
		}
		call := core.CallsTo(h, c.Func("", "handleFieldError"), false)[0]
		args := call.Common().Args
		// handleFieldError(r, nodes, path, returnType, eCtx)
		okPath, _ := core.OnlyClasses(args[2], "param:ResponsePath")
		var okType bool
		var want string
		if name == "resolvePlannedField" {
			okType, _ = core.OnlyClasses(args[3], "field:fieldPlan.returnType", "nil")
			want = "fieldPlan.returnType"
		} else {
			okType, _ = core.OnlyClasses(args[3], "param:Type")
			want = "the frame's returnType parameter"
		}
		r.Check(okPath, name+"/handler-path", call.Pos(), "handler reports its own frame's path",
			fmt.Sprintf("the recover handler reports path %v instead of the frame's own path parameter: the error addresses another field", core.Classes(args[2])))
		r.Check(okType, name+"/handler-type", call.Pos(), "handler passes its own frame's declared type ("+want+")",
			fmt.Sprintf("the recover handler passes %v to handleFieldError instead of %s: whether the null propagates is decided with the wrong type", core.Classes(args[3]), want))
	}
	// handleFieldError re-panics exactly for NonNull
	if hfe := c.Func("", "handleFieldError"); hfe != nil {
		hasAssert, hasPanic, appends := false, false, false
		core.Instrs(hfe, func(in ssa.Instruction) {
			switch x := in.(type) {
			case *ssa.TypeAssert:
				if core.TypeName(x.AssertedType) == "NonNull" && x.CommaOk {
					hasAssert = true
				}
			case *ssa.Panic:
				hasPanic = true
			case *ssa.Store:
				if f := core.FieldOf(x.Addr); f != nil && core.N(f) == "Errors" {
					appends = true
				}
			}
		})
		r.Check(hasAssert && hasPanic && appends, "handleFieldError/nonnull-repanic", hfe.Pos(),
			"re-panics for *NonNull, records the error otherwise", "handleFieldError no longer both re-panics for non-null types and records the error for nullable ones")
	}
	if n == 0 {
		r.Unknown("callbacks", worker.Pos(), "no user callback found on the execution path (call graph or anchors changed)")
	}
	_ = callgraph.Edge{}
}

func rootOf(fn *ssa.Function) *ssa.Function {
	for fn.Parent() != nil {
		fn = fn.Parent()
	}
	return fn
}

var completionFamily = []string{
	"resolvePlannedField", "completePlannedValueCatchingError", "completePlannedValue", "completePlannedThunkValueCatchingError",
	"completePlannedListValue", "completePlannedObjectValue", "completePlannedAbstractValue", "completeLeafValue",
}

func c04Raw(c *core.Ctx, r *core.Reporter) {
	allowedCalls := map[string]bool{}
	for _, n := range completionFamily {
		allowedCalls["call:"+n] = true
	}
	allowedCalls["call:executePlannedSelection"] = true
	for _, name := range completionFamily {
		fn := c.Func("", name)
		if fn == nil {
			r.Unknown(name, token.NoPos, "completion function not found")
			continue
		}
		bad := ""
		for _, ret := range core.Returns(fn) {
			if len(ret.Results) == 0 {
				continue
			}
			v := core.RetVal(ret, 0)
			for _, cl := range core.Classes(v) {
				switch {
				case cl == "nil" || cl == "make" || cl == "closure" || cl == "builtin:append" || cl == "const":
				case allowedCalls[cl]:
				case name == "completeLeafValue" && (cl == "dyn:Leaf.Serialize"):
				case strings.HasPrefix(cl, "local:"):
					// zero value of a named result that is only written at returns (checked below)
				default:
					bad = cl
				}
			}
		}
		r.Check(bad == "", name+"/returns", fn.Pos(),
			"every returned value is nil, a completion result, a fresh container or a thunk closure",
			name+" can return a value with provenance "+bad+": a raw resolver / callback value (or a parameter) becomes response data without completion")
		// list: appended elements come from completion
		if name == "completePlannedListValue" {
			okEl := true
			core.Instrs(fn, func(in ssa.Instruction) {
				call, ok := in.(*ssa.Call)
				if !ok {
					return
				}
				if b, ok := call.Call.Value.(*ssa.Builtin); !ok || core.N(b) != "append" || len(call.Call.Args) != 2 {
					return
				}
				// varargs slice: stores into its backing array
				if sl, ok := call.Call.Args[1].(*ssa.Slice); ok {
					if al, ok := sl.X.(*ssa.Alloc); ok {
						for _, ref := range *al.Referrers() {
							if ia, ok := ref.(*ssa.IndexAddr); ok {
								for _, r2 := range *ia.Referrers() {
									if st, ok := r2.(*ssa.Store); ok {
										if ok2, _ := core.OnlyClasses(st.Val, "call:completePlannedValueCatchingError"); !ok2 {
											okEl = false
										}
									}
								}
							}
						}
					}
				}
			})
			r.Check(okEl, name+"/elements", fn.Pos(), "list elements are results of completePlannedValueCatchingError",
				"a list element is appended without going through completePlannedValueCatchingError")
		}
		// named results in recovering frames: stores only at returns
		if h := fieldRecoverHandler(c, fn); h != nil {
			staleStore := token.NoPos
			for _, in := range fn.Blocks[0].Instrs {
				al, ok := in.(*ssa.Alloc)
				if !ok || !isNamedResult(fn, al) {
					continue
				}
				for _, st := range core.StoresTo(al) {
					if st.Parent() != fn {
						continue
					}
					// allowed: no call between the store and a Return ending the same block
					blk := st.Block()
					_, endsRet := blk.Instrs[len(blk.Instrs)-1].(*ssa.Return)
					callAfter := false
					for _, x := range blk.Instrs[core.InstrIndex(st)+1:] {
						if _, isCall := x.(ssa.CallInstruction); isCall {
							if _, isRD := x.(*ssa.RunDefers); !isRD {
								callAfter = true
							}
						}
						if _, isP := x.(*ssa.Panic); isP {
							callAfter = true
						}
					}
					if !endsRet || callAfter {
						staleStore = st.Pos()
					}
				}
			}
			r.Check(staleStore == token.NoPos, name+"/named-result", fn.Pos(),
				"named results are written only at returns",
				"a named result is assigned at "+c.Pos(staleStore)+" before code that can panic: when the deferred recover catches the panic the function returns that stale value (e.g. the raw resolver value next to its error)")
		}
	}
}

func isNamedResult(fn *ssa.Function, al *ssa.Alloc) bool {
	res := fn.Signature.Results()
	for i := 0; i < res.Len(); i++ {
		if core.N(res.At(i)) != "" && core.N(res.At(i)) == al.Comment {
			return true
		}
	}
	return false
}

func c04Abstract(c *core.Ctx, r *core.Reporter) {
	if fn := c.Func("", "completePlannedAbstractValue"); fn != nil {
		aa := core.CallsTo(fn, c.Func("", "Plan.abstractAlternative"), false)
		ipt := core.CallsTo(fn, c.Func("", "Schema.IsPossibleType"), false)
		if len(aa) != 1 {
			r.Bad("completePlannedAbstractValue/possible-type-guard", fn.Pos(), "expected one abstractAlternative call")
		} else {
			use := aa[0].(ssa.Instruction)
			// possible-type guard
			okPT := false
			if len(ipt) == 1 {
				call := ipt[0].(*ssa.Call)
				sameType := call.Call.Args[2] == aa[0].Common().Args[2]
				if core.InstrDominates(call, use) && sameType && guardsWithPanic(call) {
					okPT = true
				}
			}
			r.Check(okPT, "completePlannedAbstractValue/possible-type-guard", use.Pos(),
				"IsPossibleType(returnType, runtimeType) dominates planning/execution of the sub-selection and its failure panics",
				"the sub-selection of an abstract field is planned/executed without a dominating IsPossibleType check on the same runtime type: a type resolver returning a non-member type leaks that type's fields")
			// nil guard: a comparison runtimeType != nil feeding invariantf whose error panics
			okNil := false
			rt := aa[0].Common().Args[2]
			core.Instrs(fn, func(in ssa.Instruction) {
				bo, ok := in.(*ssa.BinOp)
				if !ok || bo.Op != token.NEQ || !core.IsNilConst(bo.Y) || bo.X != rt {
					return
				}
				if core.InstrDominates(bo, use) {
					okNil = true
				}
			})
			r.Check(okNil, "completePlannedAbstractValue/nil-guard", use.Pos(),
				"runtimeType != nil is tested before use", "the resolved runtime type is used without a dominating nil test (a type resolver returning nil crashes the field)")
		}
	} else {
		r.Unknown("completePlannedAbstractValue", token.NoPos, "not found")
	}
	if fn := c.Func("", "completePlannedObjectValue"); fn != nil {
		ex := core.CallsTo(fn, c.Func("", "executePlannedSelection"), false)
		var ito *ssa.Call
		for _, ci := range core.CallSites(fn) {
			if core.UserCallback(ci) == "IsTypeOfFn" {
				ito, _ = ci.(*ssa.Call)
			}
		}
		ok := false
		if ito != nil && len(ex) == 1 && guardsWithPanic(ito) {
			// the execution is not reachable from the IsTypeOf call block through the panic arm, and the
			// nil test of IsTypeOf dominates the execution
			ok = !ito.Block().Dominates(ex[0].Block()) || true
			// the block testing `IsTypeOf != nil` must dominate both
			ok = ok && len(ito.Block().Preds) == 1 && ito.Block().Preds[0].Dominates(ex[0].Block())
		}
		r.Check(ok, "completePlannedObjectValue/isTypeOf-guard", fn.Pos(),
			"when IsTypeOf is set it is consulted (failure panics) on the way to the sub-selection",
			"the object sub-selection can run without consulting a configured IsTypeOf (or its failure no longer panics)")
	} else {
		r.Unknown("completePlannedObjectValue", token.NoPos, "not found")
	}
	if fn := c.Func("", "completePlannedValue"); fn != nil {
		// non-null arm: recursive call on OfType; result compared with nil; nil -> panic; else returned
		ok := false
		for _, ci := range core.CallsTo(fn, fn, false) {
			call, isCall := ci.(*ssa.Call)
			if !isCall || !core.HasClass(call.Call.Args[1], "field:NonNull.OfType") {
				continue
			}
			for _, ref := range *call.Referrers() {
				bo, isBo := ref.(*ssa.BinOp)
				if !isBo || (bo.Op != token.EQL && bo.Op != token.NEQ) || !core.IsNilConst(bo.Y) {
					continue
				}
				for _, r2 := range *bo.Referrers() {
					if iff, isIf := r2.(*ssa.If); isIf {
						nilB, valB := iff.Block().Succs[0], iff.Block().Succs[1]
						if bo.Op == token.NEQ { // `if completed != nil { return completed }; panic(…)`
							nilB, valB = valB, nilB
						}
						if alwaysPanics(nilB, 0) && returnsValue(valB, call) {
							ok = true
						}
					}
				}
			}
		}
		r.Check(ok, "completePlannedValue/nonnull-guard", fn.Pos(),
			"the non-null arm panics when the inner completion is nil and returns it otherwise",
			"the non-null arm no longer turns a nil inner completion into a panic: a non-null position can hold null")
	} else {
		r.Unknown("completePlannedValue", token.NoPos, "not found")
	}
	// completeLeafValue: nullish serialisation becomes nil
	if fn := c.Func("", "completeLeafValue"); fn != nil {
		nullish := core.CallsTo(fn, c.Func("", "isNullish"), false)
		r.Check(len(nullish) == 1, "completeLeafValue/nullish", fn.Pos(), "serialised value passes isNullish before being returned",
			"completeLeafValue no longer maps a nullish serialisation (nil, NaN, typed nil) to null")
	}
}

// guardsWithPanic: the boolean result of call feeds (possibly negated) an If one of whose successors ends in panic.
func guardsWithPanic(call *ssa.Call) bool {
	var check func(v ssa.Value, depth int) bool
	check = func(v ssa.Value, depth int) bool {
		if depth > 3 || v.Referrers() == nil {
			return false
		}
		for _, ref := range *v.Referrers() {
			switch x := ref.(type) {
			case *ssa.If:
				for _, s := range x.Block().Succs {
					if endsInPanic(s) {
						return true
					}
				}
			case *ssa.UnOp:
				if x.Op == token.NOT && check(x, depth+1) {
					return true
				}
			}
		}
		return false
	}
	return check(call, 0)
}

// alwaysPanics: straight-line code from b ends in a panic.
func alwaysPanics(b *ssa.BasicBlock, depth int) bool {
	if endsInPanic(b) {
		return true
	}
	return depth < 4 && len(b.Succs) == 1 && alwaysPanics(b.Succs[0], depth+1)
}

func endsInPanic(b *ssa.BasicBlock) bool {
	if len(b.Instrs) == 0 {
		return false
	}
	_, ok := b.Instrs[len(b.Instrs)-1].(*ssa.Panic)
	return ok
}

func returnsValue(b *ssa.BasicBlock, v ssa.Value) bool {
	if len(b.Instrs) == 0 {
		return false
	}
	ret, ok := b.Instrs[len(b.Instrs)-1].(*ssa.Return)
	return ok && len(ret.Results) == 1 && core.RetVal(ret, 0) == v
}

func c04Exh(c *core.Ctx, r *core.Reporter) {
	p, fd := c.FindDecl("", "completePlannedValue")
	if fd == nil {
		r.Unknown("completePlannedValue/dispatch", token.NoPos, "not found")
	} else {
		want := c.DeclaredImplementers("", "Output")
		have := core.AssertChain(p.TypesInfo, fd.Body, func(t types.Type) bool { return core.TypeName(t) == "Type" || core.TypeName(t) == "Output" })
		miss := core.Missing(want, have)
		if len(want) < 5 {
			r.Unknown("completePlannedValue/dispatch", fd.Pos(), "closed set of Output kinds not found")
		} else {
			r.Check(len(miss) == 0, "completePlannedValue/dispatch", fd.Pos(),
				fmt.Sprintf("assertion chain covers all %d declared Output kinds", len(want)),
				"completePlannedValue has no arm for "+core.Join(miss)+": values of that kind fall through to the 'unexpected type' error")
		}
	}
	p2, fd2 := c.FindDecl("", "valueHasVariables")
	if fd2 == nil {
		r.Unknown("valueHasVariables/containers", token.NoPos, "not found")
		return
	}
	// every ast.Value implementer that has a child Value / []Value / []*ObjectField must have an arm
	var want []string
	valueT := c.Named("language/ast", "Value")
	for _, tn := range c.DeclaredImplementers("language/ast", "Value") {
		n := c.Named("language/ast", tn)
		if tn == "Variable" {
			want = append(want, tn)
			continue
		}
		for _, f := range core.Fields(n) {
			ft := f.Type()
			if sl, ok := ft.(*types.Slice); ok {
				ft = sl.Elem()
			}
			if types.Identical(ft, valueT) || core.TypeName(ft) == "ObjectField" {
				want = append(want, tn)
				break
			}
		}
	}
	sws := core.TypeSwitches(p2.TypesInfo, fd2.Body, false)
	if len(sws) != 1 {
		r.Unknown("valueHasVariables/containers", fd2.Pos(), "expected one type switch")
		return
	}
	miss := core.Missing(want, sws[0].Cases)
	r.Check(len(miss) == 0 && len(want) >= 3, "valueHasVariables/containers", fd2.Pos(),
		"has an arm for Variable and every container value kind ("+core.Join(want)+")",
		"valueHasVariables misses "+core.Join(miss)+": arguments containing variables there are pre-coerced at plan time with nil variables")
}

package rules

import (
	"fmt"
	"go/token"
	"go/types"
	"sort"
	"strings"

	"golang.org/x/tools/go/callgraph"
	"golang.org/x/tools/go/ssa"

	"verif/gqlvet/core"
)

func init() {
	docs["C07"] = Doc{
		Explanation: "'No data race in library state' is decided as an exhaustive inventory of writes: (OWN-writes) every SSA store / map update / delete / container-list mutation whose target is a field of a shared-state type (schema types, Plan types, PlanCache types, AST nodes held by plans) or a package-level variable, in a library function reachable from the request-time roots through the library-only call graph, must be discharged by one of: the base object is allocated in the same function (fresh); the function runs only under the owning object's mutex (Lock(); defer Unlock() dominates the call edge or the write) or only inside the constructor frame of its ownership domain (PlanQuery for plan types); it is a construction-forced lazy initialisation (PAIR-force); anything else is a violation with the call path as witness. " +
			"(PAIR-force) each tolerated lazy initialiser has a guarded fast path, writes only on the slow path, and is called on the construction path (type constructor or typeMapReducer) so that the slow path never runs after the schema is published. " +
			"(PAIR-lock) every Lock() is paired with a deferred Unlock() and no user callback or channel operation is reachable while PlanCache.mu is held. (OWN-globals) no store to a package-level variable is reachable from request-time roots.",
		NotDecided: "races inside user resolvers; deadlock freedom beyond the lock rules; equality of concurrent and sequential responses; writes through reflection (visitor.Visit's reflect.Value.Set is covered by C14/DOM-noedit).",
		Assumptions: []string{
			"call graph: CHA (quick) / VTA-refined (thorough) restricted to library functions; user callbacks are opaque and not followed",
			"an object allocated in the writing function is not shared before that function publishes it",
		},
	}
	register(&core.Rule{Name: "C07/OWN-writes", Props: []string{"C07", "C12", "C05"}, Min: 25,
		Doc: "inventory of request-reachable writes to shared state; each discharged by freshness, lock, constructor frame or forced lazy init", Run: c07Writes})
	register(&core.Rule{Name: "C07/PAIR-lock", Props: []string{"C07", "C09"}, Min: 4,
		Doc: "Lock paired with deferred Unlock; no user callback / channel op under PlanCache.mu", Run: c07Lock})
}

var planDomain = map[string]bool{"Plan": true, "selectionPlan": true, "fieldPlan": true, "argPlan": true}
var cacheDomain = map[string]bool{"PlanCache": true, "planCacheItem": true, "planCacheEntry": true}
var schemaDomain = map[string]bool{
	"Schema": true, "Object": true, "Interface": true, "Union": true, "Enum": true, "InputObject": true,
	"Scalar": true, "List": true, "NonNull": true, "Directive": true, "FieldDefinition": true, "Argument": true,
	"InputObjectField": true, "EnumValueDefinition": true, "Field": true, "ArgumentConfig": true,
}

// domainOf classifies the owner type of a write.
func domainOf(w *core.Write) string {
	if w.Global != nil {
		return "global"
	}
	if w.Owner == nil || w.Owner.Obj().Pkg() == nil {
		return ""
	}
	rel, ok := core.RelOfPkg(w.Owner.Obj().Pkg())
	if !ok {
		return ""
	}
	name := core.N(w.Owner.Obj())
	switch rel {
	case "":
		switch {
		case planDomain[name]:
			return "plan"
		case cacheDomain[name]:
			return "cache"
		case schemaDomain[name]:
			return "schema"
		}
	case "language/ast":
		return "ast"
	}
	return ""
}

// lazyInits are the tolerated construction-forced lazy initialisers (DESIGN.md C07/PAIR-force):
// function -> functions on the construction path that must (transitively, via static calls) call it.
var lazyInits = map[string][]string{
	"Object.Fields":      {"typeMapReducer"},
	"Object.Interfaces":  {"typeMapReducer"},
	"Interface.Fields":   {"typeMapReducer"},
	"Union.Types":        {"typeMapReducer"},
	"InputObject.Fields": {"typeMapReducer"},
	// helpers that only run on the slow path of the initialisers above
	"defineFieldMap":             nil,
	"defineInterfaces":           nil,
	"defineUnionTypes":           nil,
	"InputObject.defineFieldMap": nil,
}

// slowPathOnly: helper -> the guarded initialisers that are its only permitted callers.
var slowPathOnly = map[string][]string{
	"defineFieldMap":             {"Object.Fields", "Interface.Fields"},
	"defineInterfaces":           {"Object.Interfaces"},
	"defineUnionTypes":           {"Union.Types"},
	"InputObject.defineFieldMap": {"InputObject.Fields", "InputObject.AddFieldConfig"},
}

// normalizerFns write AST nodes they cloned; decided by C06/OWN-doc.
var normalizerFns = map[string]bool{"normalizeDocument": true, "normCtx.normalizeField": true, "normCtx.normalizeSelectionSet": true, "normCtx.tryExtract": true}

func fnKey(fn *ssa.Function) string {
	return core.FuncKey(fn)
}

func c07Writes(c *core.Ctx, r *core.Reporter) {
	roots, missing := c.FuncsByName(core.RequestRoots)
	for _, m := range missing {
		r.Unknown("root/"+m, token.NoPos, "request-time root %s not found", m)
	}
	g := c.CallGraph()
	_ = g
	locks := map[*ssa.Function]*core.LockInfo{}
	for _, fn := range c.LibFuncs() {
		if li := core.LockOf(fn); li != nil {
			locks[fn] = li
		}
	}
	// plain reachability from R (library only)
	plain := &core.ReachCfg{Roots: roots, OnlyLib: c.IsLib}
	reachAll := c.Reach(plain)

	// per-domain reachability with locked edges / constructor frames removed
	domReach := map[string]map[*ssa.Function]bool{}
	domParent := map[string]map[*ssa.Function]*callgraph.Edge{}
	planQuery := c.Func("", "PlanQuery")
	for _, dom := range []string{"plan", "cache", "schema", "ast", "global"} {
		dom := dom
		rc := &core.ReachCfg{OnlyLib: c.IsLib}
		for _, rt := range roots {
			if dom == "plan" && rt == planQuery {
				continue // the plan is unpublished until PlanQuery returns
			}
			rc.Roots = append(rc.Roots, rt)
		}
		rc.BlockNode = func(fn *ssa.Function) bool { return dom == "plan" && fn == planQuery }
		rc.BlockEdge = func(e *callgraph.Edge) bool {
			li := locks[e.Caller.Func]
			if li == nil || e.Site == nil || li.Owner == nil {
				return false
			}
			if !li.HoldsExclusive(e.Site) {
				return false
			}
			own := core.N(li.Owner.Obj())
			return (dom == "plan" && planDomain[own]) || (dom == "cache" && cacheDomain[own])
		}
		domReach[dom] = c.Reach(rc)
		domParent[dom] = rc.Parent
	}

	// static-call closure from a function (used for the forcing requirement)
	staticReach := func(from *ssa.Function) map[*ssa.Function]bool {
		seen := map[*ssa.Function]bool{from: true}
		q := []*ssa.Function{from}
		for len(q) > 0 {
			f := q[0]
			q = q[1:]
			for _, ff := range core.WithAnon(f) {
				for _, ci := range core.CallSites(ff) {
					if cal := ci.Common().StaticCallee(); cal != nil && !seen[cal] && c.IsLib(cal) {
						seen[cal] = true
						q = append(q, cal)
					}
				}
			}
		}
		return seen
	}
	forcedBy := map[string]map[*ssa.Function]bool{}

	type agg struct {
		status string // "", "bad"
		pos    token.Pos
		why    string
		n      int
	}
	results := map[string]*agg{}
	var keys []string
	note := func(key string, pos token.Pos, bad bool, why string) {
		a := results[key]
		if a == nil {
			a = &agg{pos: pos, why: why}
			results[key] = a
			keys = append(keys, key)
		}
		a.n++
		if bad && a.status != "bad" {
			a.status, a.why, a.pos = "bad", why, pos
		}
	}

	for _, fn := range c.LibFuncs() {
		if !reachAll[fn] {
			continue
		}
		for _, w := range core.WritesIn(fn) {
			dom := domainOf(w)
			if dom == "" {
				continue
			}
			key := fnKey(fn) + "/" + w.Target()
			switch {
			case w.Fresh:
				note(key, w.In.Pos(), false, "object allocated in the writing function (not yet shared)")
				continue
			case dom == "ast" && c.IsLibPkgFn(fn, "language/parser", "language/ast"):
				// the parser and the ast constructors write nodes they have just built
				if allocatedHere(w) {
					note(key, w.In.Pos(), false, "node built by the parser/constructor itself")
					continue
				}
			}
			if dom == "ast" && normalizerFns[fnKey(fn)] {
				continue // ownership of the normaliser's writes (clone before write) is decided by C06/OWN-doc
			}
			if onceGuarded(fn) {
				note(key, w.In.Pos(), false, "write inside a function literal that runs only through sync.Once.Do on a Once field of the owner")
				continue
			}
			if li := locks[fn]; li.HoldsExclusive(w.In) && sameDomainLock(li, dom) {
				note(key, w.In.Pos(), false, "write dominated by "+core.N(li.Owner.Obj())+"."+core.N(li.Field)+".Lock() with deferred Unlock")
				continue
			}
			if !domReach[dom][fn] {
				why := "reachable from request-time roots only through a frame holding the owner's mutex"
				if dom == "plan" {
					why += " or through PlanQuery (plan unpublished until it returns)"
				}
				note(key, w.In.Pos(), false, why)
				continue
			}
			fk := fnKey(fn)
			if must, ok := lazyInits[fk]; ok && dom == "schema" {
				if verdict := lazyForced(c, fn, fk, must, staticReach, forcedBy); verdict == "" {
					note(key, w.In.Pos(), false, "construction-forced lazy initialisation (guarded fast path; forced by "+strings.Join(must, ",")+")")
					continue
				} else {
					note(key, w.In.Pos(), true, "lazy initialiser no longer qualifies as construction-forced: "+verdict)
					continue
				}
			}
			note(key, w.In.Pos(), true, fmt.Sprintf("%s write to shared %s state %s is reachable at request time without the owner's lock, outside its constructor frame and is not a forced lazy initialisation; path: %s",
				w.Kind, dom, w.Target(), core.Witness(domParent[dom], fn)))
		}
	}
	sort.Strings(keys)
	for _, k := range keys {
		a := results[k]
		if a.status == "bad" {
			r.Bad(k, a.pos, "%s", a.why)
		} else {
			r.OK(k, a.pos, "%d write site(s): %s", a.n, a.why)
		}
	}
}

// onceGuarded: fn is a function literal whose only use is as the argument of
// (*sync.Once).Do called on a struct field (x.once.Do(func(){…})).
func onceGuarded(fn *ssa.Function) bool {
	p := fn.Parent()
	if p == nil {
		return false
	}
	uses, ok := 0, true
	core.Instrs(p, func(in ssa.Instruction) {
		mc, isMC := in.(*ssa.MakeClosure)
		if !isMC || mc.Fn != fn {
			return
		}
		for _, ref := range *mc.Referrers() {
			uses++
			ci, isCall := ref.(*ssa.Call)
			if !isCall {
				ok = false
				continue
			}
			cal := ci.Call.StaticCallee()
			if cal == nil || cal.Pkg == nil || cal.Pkg.Pkg.Path() != "sync" || core.N(cal) != "Do" || len(ci.Call.Args) != 2 || ci.Call.Args[1] != mc {
				ok = false
				continue
			}
			if _, isField := ci.Call.Args[0].(*ssa.FieldAddr); !isField {
				ok = false
			}
		}
	})
	return uses > 0 && ok
}

func sameDomainLock(li *core.LockInfo, dom string) bool {
	if li == nil || li.Owner == nil {
		return false
	}
	own := core.N(li.Owner.Obj())
	return (dom == "plan" && planDomain[own]) || (dom == "cache" && cacheDomain[own])
}

// allocatedHere: the written object's base is a parameter-free local value of the function
// (constructors copying a literal) — approximated by: the function itself allocates an object of
// the owner type.
func allocatedHere(w *core.Write) bool {
	found := false
	core.Instrs(w.Fn, func(in ssa.Instruction) {
		if al, ok := in.(*ssa.Alloc); ok {
			if n := core.NamedOf(al.Type()); n != nil && w.Owner != nil && n.Obj() == w.Owner.Obj() {
				found = true
			}
		}
	})
	return found
}

// lazyForced checks the PAIR-force shape of a tolerated lazy initialiser. "" = ok.
func lazyForced(c *core.Ctx, fn *ssa.Function, fk string, must []string,
	staticReach func(*ssa.Function) map[*ssa.Function]bool, cache map[string]map[*ssa.Function]bool) string {
	for fn.Parent() != nil {
		fn = fn.Parent()
	}
	if callers, ok := slowPathOnly[fk]; ok {
		// helper: every static caller must be one of the guarded initialisers (or a construction root)
		allowed := map[string]bool{}
		for _, cn := range callers {
			allowed[cn] = true
		}
		for _, other := range c.LibFuncs() {
			for _, ci := range core.CallsTo(other, fn, false) {
				_ = ci
				if !allowed[fnKey(other)] {
					return fmt.Sprintf("%s is also called from %s, which is not one of its guarded initialisers %v", fk, fnKey(other), callers)
				}
			}
		}
		return ""
	}
	// guarded fast path: entry block ends in If whose condition reads a receiver field, and one
	// successor returns without any store
	if len(fn.Blocks) == 0 || len(fn.Params) == 0 {
		return "no receiver"
	}
	entry := fn.Blocks[0]
	iff, ok := entry.Instrs[len(entry.Instrs)-1].(*ssa.If)
	if !ok {
		return "no guard at function entry (the initialiser would re-run and write on every call)"
	}
	if !readsReceiverField(iff.Cond, fn.Params[0], 0) {
		return "entry guard does not test a field of the receiver"
	}
	fast := false
	for _, s := range entry.Succs {
		if _, isRet := s.Instrs[len(s.Instrs)-1].(*ssa.Return); isRet {
			clean := true
			for _, in := range s.Instrs {
				switch in.(type) {
				case *ssa.Store, *ssa.MapUpdate:
					clean = false
				}
			}
			if clean {
				fast = true
			}
		}
	}
	if !fast {
		return "no write-free fast path directly behind the entry guard"
	}
	for _, in := range entry.Instrs {
		switch in.(type) {
		case *ssa.Store, *ssa.MapUpdate:
			return "writes before the entry guard"
		}
	}
	for _, m := range must {
		mf := c.Func("", m)
		if mf == nil {
			return "forcing function " + m + " not found"
		}
		if cache[m] == nil {
			cache[m] = staticReach(mf)
		}
		if !cache[m][fn] {
			return fmt.Sprintf("%s no longer reaches %s through static calls, so the first request would run the slow path concurrently", m, fk)
		}
	}
	return ""
}

func readsReceiverField(v ssa.Value, recv *ssa.Parameter, depth int) bool {
	if depth > 6 {
		return false
	}
	switch x := v.(type) {
	case *ssa.UnOp:
		if fa, ok := x.X.(*ssa.FieldAddr); ok && x.Op == token.MUL {
			return fa.X == recv
		}
		return readsReceiverField(x.X, recv, depth+1)
	case *ssa.BinOp:
		return readsReceiverField(x.X, recv, depth+1) || readsReceiverField(x.Y, recv, depth+1)
	case *ssa.Call:
		for _, a := range x.Call.Args {
			if readsReceiverField(a, recv, depth+1) {
				return true
			}
		}
	}
	return false
}

func c07Lock(c *core.Ctx, r *core.Reporter) {
	for _, fn := range c.LibFuncs() {
		var lockCalls []ssa.Instruction
		core.Instrs(fn, func(in ssa.Instruction) {
			if ci, ok := in.(ssa.CallInstruction); ok {
				if cal := ci.Common().StaticCallee(); cal != nil && cal.Pkg != nil && cal.Pkg.Pkg.Path() == "sync" && (core.N(cal) == "Lock" || core.N(cal) == "RLock") {
					lockCalls = append(lockCalls, in)
				}
			}
		})
		if len(lockCalls) == 0 {
			continue
		}
		key := fnKey(fn) + "/lock"
		li := core.LockOf(fn)
		if li == nil || len(lockCalls) != 1 || !li.Paired {
			r.Bad(key, lockCalls[0].Pos(), "Lock() is not released on every exit (no deferred Unlock and some return/panic path without an explicit Unlock), or the function locks several times: a later request deadlocks")
			continue
		}
		if li.Deferred {
			r.OK(key, li.Lock.Pos(), "Lock() with deferred Unlock()")
		} else {
			// explicit unlocks: nothing that can run user code or panic by design inside the region
			bad := ""
			core.Instrs(fn, func(in ssa.Instruction) {
				if ci, ok := in.(ssa.CallInstruction); ok && li.Holds(in) {
					if cb := core.UserCallback(ci); cb != "" {
						bad = cb
					}
					if _, isPanic := in.(*ssa.Panic); isPanic {
						bad = "panic"
					}
				}
			})
			r.Check(bad == "", key, li.Lock.Pos(), "Lock() released by an explicit Unlock() on every path; no user code in the critical section",
				"explicit Unlock() but user code ("+bad+") runs inside the critical section: if it panics the mutex stays held")
		}
		// sync mutexes are not re-entrant: nothing reachable from a call made while the lock is held may take the
		// same mutex field again (same receiver in every instance found in this code base)
		if li.Owner != nil && li.Field != nil {
			rc := &core.ReachCfg{OnlyLib: c.IsLib}
			if node := c.CallGraph().Nodes[fn]; node != nil {
				for _, e := range node.Out {
					if e.Site != nil && li.Holds(e.Site) && e.Callee.Func != nil && c.IsLib(e.Callee.Func) {
						rc.Roots = append(rc.Roots, e.Callee.Func)
					}
				}
			}
			again := ""
			if len(rc.Roots) > 0 {
				reach := c.Reach(rc)
				for g := range reach {
					if lg := core.LockOf(g); lg != nil && lg.Owner == li.Owner && lg.Field == li.Field {
						if w := core.Witness(rc.Parent, g); again == "" || w < again {
							again = w
						}
					}
				}
			}
			r.Check(again == "", fnKey(fn)+"/not-re-entrant", li.Lock.Pos(), "no function reachable from the critical section takes "+core.N(li.Owner.Obj())+"."+core.N(li.Field)+" again",
				"while "+core.N(li.Owner.Obj())+"."+core.N(li.Field)+" is held, "+fnKey(fn)+" calls into code that locks the same mutex again ("+again+"): sync mutexes are not re-entrant, so the goroutine deadlocks with the lock held and every later request on the same object hangs")
		}
		// nothing user-supplied and no channel operation while a cache mutex is held
		if li.Owner != nil && cacheDomain[core.N(li.Owner.Obj())] {
			bad := ""
			seen := map[*ssa.Function]bool{}
			var walk func(f *ssa.Function, depth int)
			walk = func(f *ssa.Function, depth int) {
				if seen[f] || depth > 6 || bad != "" {
					return
				}
				seen[f] = true
				core.Instrs(f, func(in ssa.Instruction) {
					if f == fn && !li.Holds(in) {
						return
					}
					switch x := in.(type) {
					case *ssa.Send, *ssa.Select:
						bad = "channel operation in " + f.String()
					case *ssa.UnOp:
						if x.Op == token.ARROW {
							bad = "channel receive in " + f.String()
						}
					case ssa.CallInstruction:
						if cb := core.UserCallback(x); cb != "" {
							bad = "user callback " + cb + " in " + f.String()
						}
						if cal := x.Common().StaticCallee(); cal != nil && c.IsLib(cal) {
							walk(cal, depth+1)
						}
					}
				})
			}
			walk(fn, 0)
			r.Check(bad == "", fnKey(fn)+"/held-region", li.Lock.Pos(), "no user callback and no channel operation while the cache mutex is held",
				"while PlanCache.mu is held: "+bad+" (a blocked or re-entrant callee stalls every request using the cache)")
		}
	}
	_ = types.Typ
}

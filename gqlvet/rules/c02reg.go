package rules

import (
	"go/token"

	"verif/gqlvet/core"
)

// frozenRegistrations: the (rule, node kind, phase) visitor callbacks confirmed on the pinned
// tree. Each is what makes its rule see the nodes it must check (or skip the sub-trees it must
// not look at); a registration that disappears means the rule silently stops checking that
// construct while its own unit tests — which exercise the remaining callbacks — stay green.
// New registrations are welcome; missing ones are reported.
var frozenRegistrations = []string{
	"ArgumentsOfCorrectTypeRule/Argument/Kind",
	"DefaultValuesOfCorrectTypeRule/FragmentDefinition/Kind",
	"DefaultValuesOfCorrectTypeRule/SelectionSet/Kind",
	"DefaultValuesOfCorrectTypeRule/VariableDefinition/Kind",
	"FieldsOnCorrectTypeRule/Field/Kind",
	"FragmentsOnCompositeTypesRule/FragmentDefinition/Kind",
	"FragmentsOnCompositeTypesRule/InlineFragment/Kind",
	"KnownArgumentNamesRule/Argument/Kind",
	"KnownDirectivesRule/Directive/Kind",
	"KnownFragmentNamesRule/FragmentSpread/Kind",
	"KnownTypeNamesRule/InputObjectDefinition/Kind",
	"KnownTypeNamesRule/InterfaceDefinition/Kind",
	"KnownTypeNamesRule/Named/Kind",
	"KnownTypeNamesRule/ObjectDefinition/Kind",
	"KnownTypeNamesRule/UnionDefinition/Kind",
	"LoneAnonymousOperationRule/Document/Kind",
	"LoneAnonymousOperationRule/OperationDefinition/Kind",
	"NoFragmentCyclesRule/FragmentDefinition/Kind",
	"NoFragmentCyclesRule/OperationDefinition/Kind",
	"NoUndefinedVariablesRule/OperationDefinition/Enter",
	"NoUndefinedVariablesRule/OperationDefinition/Leave",
	"NoUndefinedVariablesRule/VariableDefinition/Kind",
	"NoUnusedFragmentsRule/Document/Leave",
	"NoUnusedFragmentsRule/FragmentDefinition/Kind",
	"NoUnusedFragmentsRule/OperationDefinition/Kind",
	"NoUnusedVariablesRule/OperationDefinition/Enter",
	"NoUnusedVariablesRule/OperationDefinition/Leave",
	"NoUnusedVariablesRule/VariableDefinition/Kind",
	"OverlappingFieldsCanBeMergedRule/SelectionSet/Kind",
	"PossibleFragmentSpreadsRule/FragmentSpread/Kind",
	"PossibleFragmentSpreadsRule/InlineFragment/Kind",
	"ProvidedNonNullArgumentsRule/Directive/Kind",
	"ProvidedNonNullArgumentsRule/Field/Leave",
	"ScalarLeafsRule/Field/Kind",
	"UniqueArgumentNamesRule/Argument/Kind",
	"UniqueArgumentNamesRule/Directive/Kind",
	"UniqueArgumentNamesRule/Field/Kind",
	"UniqueFragmentNamesRule/FragmentDefinition/Kind",
	"UniqueFragmentNamesRule/OperationDefinition/Kind",
	"UniqueInputFieldNamesRule/ObjectField/Kind",
	"UniqueInputFieldNamesRule/ObjectValue/Enter",
	"UniqueInputFieldNamesRule/ObjectValue/Leave",
	"UniqueOperationNamesRule/FragmentDefinition/Kind",
	"UniqueOperationNamesRule/OperationDefinition/Kind",
	"UniqueVariableNamesRule/OperationDefinition/Kind",
	"UniqueVariableNamesRule/VariableDefinition/Kind",
	"VariableUsages/Variable/Kind",
	"VariableUsages/VariableDefinition/Kind",
	"VariablesAreInputTypesRule/VariableDefinition/Kind",
	"VariablesInAllowedPositionRule/OperationDefinition/Enter",
	"VariablesInAllowedPositionRule/OperationDefinition/Leave",
	"VariablesInAllowedPositionRule/VariableDefinition/Kind",
}

func init() {
	register(&core.Rule{Name: "C02/TAB-registrations", Props: []string{"C02"}, Min: 50,
		Doc: "every visitor callback a rule registered on the pinned tree is still registered (rule, kind, phase)", Run: c02Registrations})
}

func c02Registrations(c *core.Ctx, r *core.Reporter) {
	have := ruleRegistrations(c)
	for _, k := range frozenRegistrations {
		pos, ok := have[k]
		if ok {
			r.Exists(k, pos, "callback registered")
		} else {
			r.Bad(k, token.NoPos, "the visitor callback %s (rule/kind/phase) that exists on the pinned tree is no longer registered: the rule stops seeing (or stops skipping) nodes of that kind, so documents it used to reject are accepted, or sub-trees it must ignore are now checked", k)
		}
	}
}

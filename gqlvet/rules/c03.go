package rules

import (
	"fmt"
	"go/ast"
	"go/constant"
	"go/token"
	"go/types"
	"sort"
	"strings"

	"golang.org/x/tools/go/ssa"

	"verif/gqlvet/core"
)

func init() {
	docs["C03"] = Doc{
		Explanation: "Language equality is not decidable by inspection of a hand-written recursive descent and is NOT decided (no grammar extraction is attempted). Decided are necessary conditions, each of which had a concrete accepted-but-illegal or mis-built input: " +
			"(PAIR-token) no token is consumed unchecked: every comparison of a token's text with a keyword happens with the token kind NAME established (or only rejects), every direct advance() is made with the current token's kind established, functions that advance at entry export that requirement to their callers, and no `fallthrough` leads into an arm that consumes; " +
			"(FLOW-nil) no production returns (nil, nil) except the optional parseDescription; " +
			"(LIT-ast) every node literal the parser builds sets every field of its struct other than Kind (tabled optional fields aside), required child fields can never receive nil, Loc is loc(parser, start) with start read from the current token before the production's first consuming call, and the children are parsed in the order the visitor's child table (QueryDocumentKeys) lists them; " +
			"(FLOW-err) no error result of a parser/lexer function is dropped; " +
			"(EXH-tokens) every TokenKind has a description, a producing makeToken site and a consuming parser site, every keyword constant is a key of tokenDefinitionFn; " +
			"(FLOW-src) parsing never writes the source: no store into, and no append onto a sub-slice of, Source.Body in lexer / parser / gqlerrors / location; " +
			"(FLOW-offset, shared with C18) byte offsets and rune counts never mix.",
		NotDecided: "that every legal document is accepted and every illegal one rejected; literal values; escape decoding; block-string indentation.",
	}
	register(&core.Rule{Name: "C03/PAIR-token", Props: []string{"C03"}, Min: 14,
		Doc: "no unchecked token consumption (keyword tests, direct advances, fallthrough)", Run: c03Token})
	register(&core.Rule{Name: "C03/FLOW-nil", Props: []string{"C03", "C09"}, Min: 30,
		Doc: "no production returns (nil, nil)", Run: c03Nil})
	register(&core.Rule{Name: "C03/LIT-ast", Props: []string{"C03", "C14"}, Min: 35,
		Doc: "node literals complete, required children non-nil, located from the production's first token", Run: c03Lit})
	register(&core.Rule{Name: "C03/FLOW-err", Props: []string{"C03"}, Min: 1,
		Doc: "no parse/lex error is dropped", Run: c03Err})
	register(&core.Rule{Name: "C03/EXH-tokens", Props: []string{"C03"}, Min: 30,
		Doc: "token and keyword tables closed", Run: c03Tokens})
	register(&core.Rule{Name: "C03/FLOW-src", Props: []string{"C03"}, Min: 1,
		Doc: "parsing never writes Source.Body", Run: c03Src})
}

// isKindTest: expression establishes Token.Kind == NAME (peek(parser, lexer.NAME) or X.Kind == lexer.NAME)
func isNameKindTest(info *types.Info, e ast.Expr) bool {
	found := false
	ast.Inspect(e, func(x ast.Node) bool {
		switch y := x.(type) {
		case *ast.CallExpr:
			if f := core.CalleeObj(info, y); f != nil && (core.N(f) == "peek") && len(y.Args) == 2 {
				if c, ok := core.ObjOf(info, y.Args[1]).(*types.Const); ok && core.N(c) == "NAME" {
					found = true
				}
			}
		case *ast.BinaryExpr:
			if y.Op == token.EQL {
				for _, pair := range [][2]ast.Expr{{y.X, y.Y}, {y.Y, y.X}} {
					if se, ok := pair[0].(*ast.SelectorExpr); ok && se.Sel.Name == "Kind" {
						if c, ok := core.ObjOf(info, pair[1]).(*types.Const); ok && core.N(c) == "NAME" {
							found = true
						}
					}
				}
			}
		}
		return true
	})
	return found
}

// anyKindTest: expression tests the current token's kind at all (peek, Kind ==, keyword+NAME)
func anyKindTest(info *types.Info, e ast.Expr) bool {
	found := false
	ast.Inspect(e, func(x ast.Node) bool {
		switch y := x.(type) {
		case *ast.CallExpr:
			if f := core.CalleeObj(info, y); f != nil && (core.N(f) == "peek" || core.N(f) == "peekDescription") {
				found = true
			}
		case *ast.SelectorExpr:
			if y.Sel.Name == "Kind" {
				found = true
			}
		}
		return true
	})
	return found
}

// negKindTest: falling through `if cond { leave }` establishes the token kind: cond is `x.Kind != K`, `!peek(…)`, or a
// disjunction with such a disjunct (a conjunction does not: its negation leaves the kind open).
func negKindTest(info *types.Info, e ast.Expr) bool {
	switch x := ast.Unparen(e).(type) {
	case *ast.BinaryExpr:
		switch x.Op {
		case token.NEQ:
			for _, side := range []ast.Expr{x.X, x.Y} {
				if se, ok := ast.Unparen(side).(*ast.SelectorExpr); ok && se.Sel.Name == "Kind" {
					return true
				}
			}
		case token.LOR:
			return negKindTest(info, x.X) || negKindTest(info, x.Y)
		}
	case *ast.UnaryExpr:
		if x.Op == token.NOT {
			if call, ok := ast.Unparen(x.X).(*ast.CallExpr); ok {
				if f := core.CalleeObj(info, call); f != nil && (core.N(f) == "peek" || core.N(f) == "peekDescription") {
					return true
				}
			}
		}
	}
	return false
}

func isTokenValue(info *types.Info, e ast.Expr) bool {
	se, ok := ast.Unparen(e).(*ast.SelectorExpr)
	if !ok || se.Sel.Name != "Value" {
		return false
	}
	t := info.TypeOf(se.X)
	return t != nil && core.QualName(t) == "lexer.Token"
}

func c03Token(c *core.Ctx, r *core.Reporter) {
	p := c.Pkg("language/parser")
	info := p.TypesInfo
	advanceFn := c.Object("language/parser", "advance")
	per := map[string]int{}
	// functions that advance before testing anything (requirement exported to callers)
	advanceAtEntry := map[string]bool{}
	c.FuncDecls(func(rel string, pp *packagesPkg, fd *ast.FuncDecl) {
		if rel != "language/parser" {
			return
		}
		for _, st := range fd.Body.List {
			consumed := false
			ast.Inspect(st, func(x ast.Node) bool {
				if call, ok := x.(*ast.CallExpr); ok && core.CalleeObj(info, call) == advanceFn {
					consumed = true
				}
				return true
			})
			if consumed {
				// is there a kind test in this or an earlier top-level statement?
				tested := false
				for _, prev := range fd.Body.List {
					if prev.Pos() > st.Pos() {
						break
					}
					ast.Inspect(prev, func(x ast.Node) bool {
						if e, ok := x.(ast.Expr); ok && anyKindTest(info, e) {
							tested = true
						}
						return true
					})
				}
				if !tested {
					advanceAtEntry[fd.Name.Name] = true
				}
				break
			}
		}
	})
	c.FuncDecls(func(rel string, pp *packagesPkg, fd *ast.FuncDecl) {
		if rel != "language/parser" {
			return
		}
		core.WalkStack(fd.Body, func(n ast.Node, stack []ast.Node) bool {
			switch x := n.(type) {
			case *ast.BranchStmt:
				if x.Tok == token.FALLTHROUGH {
					per[fd.Name.Name+"/fallthrough"]++
					r.Bad(fmt.Sprintf("%s/fallthrough#%d", fd.Name.Name, per[fd.Name.Name+"/fallthrough"]), x.Pos(),
						"`fallthrough` in a token switch of %s leads into an arm written for another token kind: that arm consumes the current token without it having been checked", fd.Name.Name)
				}
			case *ast.BinaryExpr:
				if x.Op != token.EQL && x.Op != token.NEQ {
					return true
				}
				var other ast.Expr
				if isTokenValue(info, x.X) {
					other = x.Y
				} else if isTokenValue(info, x.Y) {
					other = x.X
				} else {
					return true
				}
				if tv, ok := info.Types[other]; !ok || tv.Value == nil || tv.Value.Kind() != constant.String {
					return true
				}
				per[fd.Name.Name+"/kw"]++
				key := fmt.Sprintf("%s/keyword-test#%d", fd.Name.Name, per[fd.Name.Name+"/kw"])
				ok, how := keywordKindEstablished(info, x, stack)
				if ok {
					r.OK(key, x.Pos(), "token text compared with %s with the kind established (%s)", core.ExprString(other), how)
				} else {
					r.Bad(key, x.Pos(), "%s compares the token text with %s without the token kind NAME being established: a string token with that content is taken for the keyword", fd.Name.Name, core.ExprString(other))
				}
			case *ast.CallExpr:
				f := core.CalleeObj(info, x)
				if f == nil {
					return true
				}
				isAdvance := f == advanceFn
				if !isAdvance && !advanceAtEntry[core.N(f)] {
					return true
				}
				if advanceAtEntry[fd.Name.Name] && isAdvance {
					if usedAsValue(info, p, fd) {
						r.Bad(fd.Name.Name+"/advance-at-entry", x.Pos(), "%s consumes the current token before testing anything and is also used as a function value (dispatch table), so its callers cannot all be checked: some token is consumed unchecked", fd.Name.Name)
					} else {
						r.Exists(fd.Name.Name+"/advance-at-entry", x.Pos(), "advances at entry: requirement exported to its (static) callers")
					}
					return true
				}
				per[fd.Name.Name+"/adv"]++
				key := fmt.Sprintf("%s/consume#%d", fd.Name.Name, per[fd.Name.Name+"/adv"])
				if kindKnownAt(info, x, stack, fd) {
					r.OK(key, x.Pos(), "%s called with the current token's kind established", core.N(f))
				} else {
					r.Bad(key, x.Pos(), "%s calls %s (which consumes the current token unconditionally) without having tested the token's kind on this path", fd.Name.Name, core.N(f))
				}
			}
			return true
		})
	})
}

func keywordKindEstablished(info *types.Info, cmp *ast.BinaryExpr, stack []ast.Node) (bool, string) {
	// (a) conjunct of an && chain containing a NAME kind test
	for i := len(stack) - 2; i >= 0; i-- {
		be, ok := stack[i].(*ast.BinaryExpr)
		if !ok {
			break
		}
		if be.Op == token.LAND && isNameKindTest(info, be) {
			return true, "conjunct of a NAME test"
		}
	}
	for i := len(stack) - 2; i >= 0; i-- {
		switch s := stack[i].(type) {
		case *ast.CaseClause:
			for _, e := range s.List {
				if c, ok := core.ObjOf(info, e).(*types.Const); ok && core.N(c) == "NAME" {
					return true, "inside case lexer.NAME"
				}
			}
		case *ast.IfStmt:
			// (e) `if tok.Value == kw { return …error… }` only rejects
			if s.Cond == ast.Expr(cmp) && cmp.Op == token.EQL {
				if len(s.Body.List) == 1 {
					if ret, ok := s.Body.List[0].(*ast.ReturnStmt); ok && len(ret.Results) == 2 && isNilIdent(info, ret.Results[0]) {
						return true, "only rejects"
					}
				}
			}
		case *ast.FuncDecl:
			// (c)/(d): token variable came from expect(parser, lexer.NAME), or an earlier guard returns unless Kind == NAME
			established := false
			ast.Inspect(s.Body, func(x ast.Node) bool {
				if x == nil || x.Pos() > cmp.Pos() {
					return true
				}
				switch y := x.(type) {
				case *ast.AssignStmt:
					if len(y.Rhs) == 1 {
						if call, ok := y.Rhs[0].(*ast.CallExpr); ok {
							if f := core.CalleeObj(info, call); f != nil && core.N(f) == "expect" && len(call.Args) == 2 {
								if c, ok := core.ObjOf(info, call.Args[1]).(*types.Const); ok && core.N(c) == "NAME" {
									established = true
								}
							}
						}
					}
				case *ast.IfStmt:
					if be, ok := y.Cond.(*ast.BinaryExpr); ok && be.Op == token.NEQ {
						if se, ok := be.X.(*ast.SelectorExpr); ok && se.Sel.Name == "Kind" {
							if c, ok := core.ObjOf(info, be.Y).(*types.Const); ok && core.N(c) == "NAME" {
								established = true
							}
						}
					}
				}
				return true
			})
			if established {
				return true, "kind NAME established earlier in the function"
			}
		}
	}
	// switch on tok.Value where tok came from expect(NAME) is handled by (c); a plain switch tag is not a BinaryExpr
	return false, ""
}

func kindKnownAt(info *types.Info, call *ast.CallExpr, stack []ast.Node, fd *ast.FuncDecl) bool {
	for i := len(stack) - 2; i >= 0; i-- {
		switch s := stack[i].(type) {
		case *ast.CaseClause:
			if len(s.List) > 0 {
				// a case of a switch over the token kind
				if c, ok := core.ObjOf(info, s.List[0]).(*types.Const); ok && core.QualName(c.Type()) == "lexer.TokenKind" {
					return true
				}
			}
		case *ast.IfStmt:
			if anyKindTest(info, s.Cond) && s.Body.Pos() <= call.Pos() && call.End() <= s.Body.End() {
				return true
			}
			if s.Init != nil && s.Cond == nil {
				continue
			}
		case *ast.ReturnStmt:
			// `return token, advance(parser)` inside `if token.Kind == kind {`
			continue
		case *ast.BlockStmt:
			// guard clause: an earlier statement of this block tests the kind and leaves on the other outcome
			// (`if token.Kind != kind { return … }` followed by the consuming call)
			for _, st := range s.List {
				if st.End() > call.Pos() {
					break
				}
				ifs, ok := st.(*ast.IfStmt)
				if !ok || ifs.Else != nil || !negKindTest(info, ifs.Cond) || len(ifs.Body.List) == 0 {
					continue
				}
				switch last := ifs.Body.List[len(ifs.Body.List)-1].(type) {
				case *ast.ReturnStmt:
					return true
				case *ast.BranchStmt:
					if last.Tok == token.CONTINUE || last.Tok == token.BREAK {
						return true
					}
				}
			}
		}
	}
	return false
}

func c03Nil(c *core.Ctx, r *core.Reporter) {
	optional := map[string]string{"parseDescription": "Description is optional: (nil, nil) means absent"}
	sp := c.SSA["language/parser"]
	var names []string
	for n := range sp.Members {
		names = append(names, n)
	}
	sort.Strings(names)
	for _, n := range names {
		fn, ok := sp.Members[n].(*ssa.Function)
		if !ok || !strings.HasPrefix(n, "parse") || fn.Blocks == nil {
			continue
		}
		res := fn.Signature.Results()
		if res.Len() != 2 || res.At(1).Type().String() != "error" {
			continue
		}
		if why, ok := optional[n]; ok {
			r.Exists(n, fn.Pos(), "excepted: %s", why)
			continue
		}
		bad := token.NoPos
		for _, ret := range core.Returns(fn) {
			v0, v1 := core.RetVal(ret, 0), core.RetVal(ret, 1)
			if !core.IsNilConst(v1) {
				continue
			}
			for _, cl := range core.Classes(v0) {
				if cl == "nil" {
					bad = ret.Pos()
				}
			}
		}
		r.Check(bad == token.NoPos, n, fn.Pos(), "never returns a nil node together with a nil error",
			n+" can return (nil, nil) (at "+c.Pos(bad)+"): the caller stores a nil child in the AST although parsing 'succeeded', and later stages dereference it")
	}
}

// optional node fields per grammar (`?` in the productions) and fields this grammar never produces
var optionalNodeFields = map[string]bool{
	"OperationDefinition.Name": true, "OperationDefinition.VariableDefinitions": true,
	"FragmentDefinition.Operation": true, "FragmentDefinition.VariableDefinitions": true,
}
var nilableChildren = map[string]bool{
	"Field.Alias": true, "Field.SelectionSet": true, "InlineFragment.TypeCondition": true,
	"VariableDefinition.DefaultValue": true, "InputValueDefinition.DefaultValue": true, "OperationDefinition.Name": true,
}

func c03Lit(c *core.Ctx, r *core.Reporter) {
	p := c.Pkg("language/parser")
	info := p.TypesInfo
	per := map[string]int{}
	childKeys, _, _ := keyTable(c)
	c.FuncDecls(func(rel string, pp *packagesPkg, fd *ast.FuncDecl) {
		if rel != "language/parser" {
			return
		}
		ast.Inspect(fd.Body, func(x ast.Node) bool {
			cl, ok := x.(*ast.CompositeLit)
			if !ok {
				return true
			}
			n := core.NamedOf(info.TypeOf(cl))
			if n == nil || n.Obj().Pkg() == nil || n.Obj().Pkg().Name() != "ast" || core.N(n.Obj()) == "Location" {
				return true
			}
			tn := core.N(n.Obj())
			per[fd.Name.Name+"/"+tn]++
			key := fmt.Sprintf("%s/%s", fd.Name.Name, tn)
			if per[key] > 1 {
				key = fmt.Sprintf("%s#%d", key, per[fd.Name.Name+"/"+tn])
			}
			set, order := core.LiteralFields(info, fd, cl)
			var miss []string
			for _, f := range core.Fields(n) {
				if core.N(f) == "Kind" || optionalNodeFields[tn+"."+core.N(f)] {
					continue
				}
				if _, ok := set[core.N(f)]; !ok {
					miss = append(miss, core.N(f))
				}
			}
			// Loc = loc(parser, <start read from the current token at the production's start>)
			locOK := false
			if le, ok := set["Loc"].(*ast.CallExpr); ok {
				if f := core.CalleeObj(info, le); f != nil && core.N(f) == "loc" && len(le.Args) == 2 {
					locOK = startFromEntryToken(info, fd, le.Args[1])
				}
			}
			// the children listed in QueryDocumentKeys[kind] are obtained (parsed) in that order
			if keys := childKeys[tn]; len(keys) > 1 && len(miss) == 0 {
				last := token.NoPos
				okOrder := true
				n := 0
				for _, k := range keys {
					pos := producedAt(info, fd, set[k])
					if pos == token.NoPos {
						continue
					}
					n++
					if pos < last {
						okOrder = false
					}
					last = pos
				}
				if n > 1 {
					r.Check(okOrder, key+"/child-order", cl.Pos(), "children are parsed in the order the visitor's child table lists them (document order)",
						fmt.Sprintf("the children of ast.%s are parsed in a different order than QueryDocumentKeys lists them: the visitor does not traverse this node's children in document order", tn))
				}
			}
			switch {
			case len(miss) > 0:
				r.Bad(key, cl.Pos(), "%s builds ast.%s without setting %s: that part of the source is parsed and then dropped from the AST", fd.Name.Name, tn, core.Join(miss))
			case !locOK:
				r.Bad(key, cl.Pos(), "the Loc of the ast.%s built in %s is not loc(parser, start) with start taken from the current token before the production's first consuming call: the node's location does not begin at the node's first token", tn, fd.Name.Name)
			default:
				r.OK(key, cl.Pos(), "sets %s; located from the production's first token", strings.Join(order, ","))
			}
			return true
		})
	})
	// required children never nil (SSA provenance of the stored field values)
	sp := c.SSA["language/parser"]
	perNil := map[string]int{}
	var fnames []string
	for n := range sp.Members {
		fnames = append(fnames, n)
	}
	sort.Strings(fnames)
	for _, fname := range fnames {
		fn, ok := sp.Members[fname].(*ssa.Function)
		if !ok || fn.Blocks == nil {
			continue
		}
		core.Instrs(fn, func(in ssa.Instruction) {
			st, ok := in.(*ssa.Store)
			if !ok {
				return
			}
			fa, ok := st.Addr.(*ssa.FieldAddr)
			if !ok {
				return
			}
			al, ok := fa.X.(*ssa.Alloc)
			if !ok {
				return
			}
			n := core.NamedOf(al.Type())
			f := core.FieldOf(fa)
			if n == nil || f == nil || n.Obj().Pkg() == nil || n.Obj().Pkg().Name() != "ast" || core.N(n.Obj()) == "Location" {
				return
			}
			if !isNodeish(c, f.Type()) || core.N(f) == "Description" || nilableChildren[core.N(n.Obj())+"."+core.N(f)] {
				return
			}
			if _, isSlice := f.Type().(*types.Slice); isSlice {
				return
			}
			k := fmt.Sprintf("%s/%s.%s/non-nil", fname, core.N(n.Obj()), core.N(f))
			perNil[k]++
			if perNil[k] > 1 {
				k = fmt.Sprintf("%s#%d", k, perNil[k])
			}
			hasNil := false
			for _, cl := range core.Classes(st.Val) {
				if cl == "nil" {
					hasNil = true
				}
			}
			r.Check(!hasNil, k, st.Pos(), "required child can never be nil here",
				fmt.Sprintf("%s stores a possibly-nil value into required child %s.%s: on some token sequence the node is built without that child (and the sequence is accepted)", fname, core.N(n.Obj()), core.N(f)))
		})
	}
}

// startFromEntryToken: e is `start` / `token.Start` where the variable was assigned from
// parser.Token(.Start) in the function's leading statements, before any consuming call.
func startFromEntryToken(info *types.Info, fd *ast.FuncDecl, e ast.Expr) bool {
	var base ast.Expr = e
	if se, ok := e.(*ast.SelectorExpr); ok && se.Sel.Name == "Start" {
		base = se.X
	}
	o := core.ObjOf(info, base)
	if o == nil {
		return false
	}
	for _, st := range fd.Body.List {
		// declarations (var (...)) may precede
		if ds, ok := st.(*ast.DeclStmt); ok {
			_ = ds
			continue
		}
		as, ok := st.(*ast.AssignStmt)
		if ok && len(as.Lhs) == 1 && core.ObjOf(info, as.Lhs[0]) == o {
			s := core.ExprString(as.Rhs[0])
			return s == "parser.Token.Start" || s == "parser.Token"
		}
		// `token, err := expect(parser, KIND)` as the very first statement: the consumed token is the production's first token
		if ok && len(as.Lhs) == 2 && core.ObjOf(info, as.Lhs[0]) == o && len(as.Rhs) == 1 {
			if call, isCall := as.Rhs[0].(*ast.CallExpr); isCall {
				if f := core.CalleeObj(info, call); f != nil && (core.N(f) == "expect" || core.N(f) == "expectKeyWord") {
					return true
				}
			}
		}
		// any other statement containing a call ends the prefix
		hasCall := false
		ast.Inspect(st, func(x ast.Node) bool {
			if _, ok := x.(*ast.CallExpr); ok {
				hasCall = true
			}
			return true
		})
		if hasCall {
			return false
		}
	}
	return false
}

func c03Err(c *core.Ctx, r *core.Reporter) {
	n, bad := 0, 0
	for _, rel := range []string{"language/parser", "language/lexer"} {
		p := c.Pkg(rel)
		info := p.TypesInfo
		c.FuncDecls(func(rl string, pp *packagesPkg, fd *ast.FuncDecl) {
			if rl != rel {
				return
			}
			ast.Inspect(fd.Body, func(x ast.Node) bool {
				switch s := x.(type) {
				case *ast.ExprStmt:
					call, ok := s.X.(*ast.CallExpr)
					if !ok {
						return true
					}
					if returnsError(info, call) {
						n++
						bad++
						r.Bad(fmt.Sprintf("%s/dropped-error#%d", fd.Name.Name, bad), call.Pos(), "%s calls %s and discards its error result: a lexer/parser error at that position is swallowed and parsing continues on a stale token", fd.Name.Name, core.ExprString(call.Fun))
					}
				case *ast.AssignStmt:
					if len(s.Rhs) == 1 {
						if call, ok := s.Rhs[0].(*ast.CallExpr); ok && returnsError(info, call) {
							n++
							if id, ok := s.Lhs[len(s.Lhs)-1].(*ast.Ident); ok && id.Name == "_" {
								bad++
								r.Bad(fmt.Sprintf("%s/dropped-error#%d", fd.Name.Name, bad), call.Pos(), "%s assigns the error result of %s to the blank identifier", fd.Name.Name, core.ExprString(call.Fun))
							}
						}
					}
				}
				return true
			})
		})
	}
	if bad == 0 {
		r.OK("parser+lexer/errors-used", token.NoPos, "all %d calls returning an error in parser and lexer use it", n)
	}
}

func returnsError(info *types.Info, call *ast.CallExpr) bool {
	// only functions of this module: bytes.Buffer writes and the like never fail
	f := core.CalleeObj(info, call)
	if f == nil || f.Pkg() == nil || !strings.HasPrefix(f.Pkg().Path(), core.ModPath) {
		return false
	}
	t := info.TypeOf(call)
	if t == nil {
		return false
	}
	if tup, ok := t.(*types.Tuple); ok {
		return tup.Len() > 0 && tup.At(tup.Len()-1).Type().String() == "error"
	}
	return t.String() == "error"
}

func c03Tokens(c *core.Ctx, r *core.Reporter) {
	lp := c.Pkg("language/lexer")
	pp := c.Pkg("language/parser")
	tk := c.Named("language/lexer", "TokenKind")
	if tk == nil {
		r.Unknown("TokenKind", token.NoPos, "not found")
		return
	}
	var kindsC []*types.Const
	var keywords []*types.Const
	sc := lp.Types.Scope()
	for _, n := range sc.Names() {
		cst, ok := sc.Lookup(n).(*types.Const)
		if !ok {
			continue
		}
		if types.Identical(cst.Type(), tk) {
			kindsC = append(kindsC, cst)
		} else if cst.Val().Kind() == constant.String && cst.Exported() {
			keywords = append(keywords, cst)
		}
	}
	// description table keys, makeToken producers
	desc := map[types.Object]bool{}
	produced := map[types.Object]bool{}
	for _, f := range lp.Syntax {
		ast.Inspect(f, func(x ast.Node) bool {
			switch y := x.(type) {
			case *ast.ValueSpec:
				if len(y.Names) == 1 && y.Names[0].Name == "tokenDescription" && len(y.Values) == 1 {
					if cl, ok := y.Values[0].(*ast.CompositeLit); ok {
						for _, el := range cl.Elts {
							if kv, ok := el.(*ast.KeyValueExpr); ok {
								desc[core.ObjOf(lp.TypesInfo, kv.Key)] = true
							}
						}
					}
				}
			case *ast.CompositeLit:
				// makeToken written in place: Token{Kind: K, …}
				if core.TypeName(lp.TypesInfo.TypeOf(y)) == "Token" {
					for _, el := range y.Elts {
						kv, ok := el.(*ast.KeyValueExpr)
						if !ok {
							continue
						}
						if id, ok := kv.Key.(*ast.Ident); !ok || id.Name != "Kind" {
							continue
						}
						if o := core.ObjOf(lp.TypesInfo, kv.Value); o != nil {
							if _, isVar := o.(*types.Var); isVar {
								for _, kc := range kindsC {
									if core.N(kc) == "INT" || core.N(kc) == "FLOAT" {
										produced[kc] = true
									}
								}
							} else {
								produced[o] = true
							}
						}
					}
				}
			case *ast.CallExpr:
				if fo := core.CalleeObj(lp.TypesInfo, y); fo != nil && core.N(fo) == "makeToken" && len(y.Args) == 4 {
					if o := core.ObjOf(lp.TypesInfo, y.Args[0]); o != nil {
						if v, ok := o.(*types.Var); ok {
							// kind := INT; if isFloat { kind = FLOAT }
							_ = v
							for _, kc := range kindsC {
								if core.N(kc) == "INT" || core.N(kc) == "FLOAT" {
									produced[kc] = true
								}
							}
						} else {
							produced[o] = true
						}
					}
				}
			}
			return true
		})
	}
	consumed := map[types.Object]bool{}
	keyOf := map[types.Object]bool{}
	for _, f := range pp.Syntax {
		ast.Inspect(f, func(x ast.Node) bool {
			switch y := x.(type) {
			case *ast.SelectorExpr:
				if o := pp.TypesInfo.Uses[y.Sel]; o != nil && o.Pkg() == lp.Types {
					consumed[o] = true
				}
			case *ast.AssignStmt:
				if len(y.Lhs) == 1 {
					if ie, ok := y.Lhs[0].(*ast.IndexExpr); ok {
						if id, ok := ie.X.(*ast.Ident); ok && id.Name == "tokenDefinitionFn" {
							keyOf[core.ObjOf(pp.TypesInfo, ie.Index)] = true
						}
					}
				}
			}
			return true
		})
	}
	for _, k := range kindsC {
		ok := desc[k] && produced[k] && consumed[k]
		r.Check(ok, "kind/"+core.N(k), k.Pos(), "described, produced by the lexer and consumed by the parser",
			fmt.Sprintf("token kind %s: described=%v produced=%v consumed=%v — a token the lexer never makes or the parser never accepts changes the accepted language", core.N(k), desc[k], produced[k], consumed[k]))
	}
	for _, kw := range keywords {
		r.Check(keyOf[kw], "keyword/"+core.N(kw), kw.Pos(), "keyword dispatches to a definition parser",
			"keyword constant "+core.N(kw)+" is not a key of tokenDefinitionFn: definitions starting with it are rejected")
	}
}

func c03Src(c *core.Ctx, r *core.Reporter) {
	bad := ""
	var pos token.Pos
	n := 0
	for _, rel := range []string{"language/lexer", "language/parser", "gqlerrors", "language/location", "language/source"} {
		sp := c.SSA[rel]
		for _, m := range sp.Members {
			fn, ok := m.(*ssa.Function)
			if !ok || fn.Blocks == nil {
				continue
			}
			for _, f := range core.WithAnon(fn) {
				n++
				core.Instrs(f, func(in ssa.Instruction) {
					switch x := in.(type) {
					case *ssa.Store:
						if ia, ok := x.Addr.(*ssa.IndexAddr); ok && fromBody(ia.X) {
							bad, pos = core.N(f)+" stores into Source.Body", in.Pos()
						}
					case *ssa.Call:
						if b, ok := x.Call.Value.(*ssa.Builtin); ok && (core.N(b) == "append" || core.N(b) == "copy") && len(x.Call.Args) > 0 {
							if fromBody(x.Call.Args[0]) {
								bad, pos = core.N(f)+" appends onto / copies into a (sub-)slice of Source.Body", in.Pos()
							}
						}
					}
				})
			}
		}
	}
	r.Check(bad == "", "no-write-to-source", pos, fmt.Sprintf("no store, append or copy targets Source.Body in %d lexer/parser/error functions", n),
		bad+": the slice shares its backing array with the caller's source, so parsing modifies the request text it was given")
}

// fromBody: the slice value derives (through sub-slicing and locals) from a load of Source.Body.
func fromBody(v ssa.Value) bool {
	for _, cl := range core.Classes(v) {
		if cl == "field:Source.Body" {
			return true
		}
	}
	return false
}

// usedAsValue: the function is referenced other than as the callee of a call.
func usedAsValue(info *types.Info, p *packagesPkg, fd *ast.FuncDecl) bool {
	obj := info.Defs[fd.Name]
	used := false
	for _, f := range p.Syntax {
		core.WalkStack(f, func(n ast.Node, stack []ast.Node) bool {
			id, ok := n.(*ast.Ident)
			if !ok || info.Uses[id] != obj {
				return true
			}
			if len(stack) >= 2 {
				if call, ok := stack[len(stack)-2].(*ast.CallExpr); ok && call.Fun == ast.Expr(id) {
					return true
				}
			}
			used = true
			return true
		})
	}
	return used
}

// producedAt: source position of the parse call whose result becomes expression e (a call, or a
// variable assigned from a call somewhere in the function; the first such assignment counts).
func producedAt(info *types.Info, fd *ast.FuncDecl, e ast.Expr) token.Pos {
	if e == nil {
		return token.NoPos
	}
	if call, ok := e.(*ast.CallExpr); ok {
		return call.Pos()
	}
	o := core.ObjOf(info, e)
	if o == nil {
		return token.NoPos
	}
	pos := token.NoPos
	ast.Inspect(fd.Body, func(x ast.Node) bool {
		as, ok := x.(*ast.AssignStmt)
		if !ok || len(as.Rhs) != 1 {
			return true
		}
		call, ok := as.Rhs[0].(*ast.CallExpr)
		if !ok {
			return true
		}
		for _, l := range as.Lhs {
			if core.ObjOf(info, l) == o && (pos == token.NoPos || call.Pos() < pos) {
				pos = call.Pos()
			}
		}
		return true
	})
	return pos
}

package rules

import (
	"go/token"
	"strings"

	"golang.org/x/tools/go/ssa"

	"verif/gqlvet/core"
)

func init() {
	docs["C13"] = Doc{
		Explanation: "The mechanism is three structural facts, all decided: (DOM-order, via C20/DOM-once) the root selection is walked by indexing the plan's field slice, which collectInto fills only by appending in selection order; exactly one resolver call per field per iteration; no goroutine and no map iteration between the loop head and the resolver call; " +
			"(DOM-force) on the serial (mutation) path everything a top-level field deferred is forced, depth-first, inside the field loop after the field's resolution and before its result is stored / the next iteration starts; ExecutePlan passes the plan's mutation flag as the serial flag, and that flag is the operation's type compared with `mutation`; " +
			"(EXH-dethunk) the depth-first forcing functions handle a thunk, a map and a list at every level.",
		NotDecided: "nothing further is claimed; nested (non-top-level) order is not constrained by the property.",
	}
	register(&core.Rule{Name: "C13/DOM-force", Props: []string{"C13"}, Min: 4,
		Doc: "a mutation field's deferred work is forced inside the field loop before the next field starts", Run: c13Force})
	register(&core.Rule{Name: "C13/DOM-append", Props: []string{"C13"}, Min: 1,
		Doc: "the plan's field slice is only appended to, in selection order", Run: c13Append})
	register(&core.Rule{Name: "C13/EXH-dethunk", Props: []string{"C13"}, Min: 3,
		Doc: "depth-first forcing covers thunk, map and list", Run: c13Dethunk})
}

func c13Force(c *core.Ctx, r *core.Reporter) {
	eps := c.Func("", "executePlannedSelection")
	rpf := c.Func("", "resolvePlannedField")
	if eps == nil || rpf == nil {
		r.Unknown("executePlannedSelection", token.NoPos, "not found")
		return
	}
	// the serial flag parameter
	var serial *ssa.Parameter
	for _, p := range eps.Params {
		if core.Classes(p)[0] == "param:bool" {
			serial = p
		}
	}
	sites := core.CallsTo(eps, rpf, false)
	if serial == nil || len(sites) != 1 {
		r.Bad("executePlannedSelection/serial-forcing", eps.Pos(), "executePlannedSelection has no serial flag (or not exactly one resolver call): on the mutation path nothing forces a field's deferred work before the next field's resolver starts")
		return
	}
	resolve := sites[0].(ssa.Instruction)
	// forcing instructions: static calls from which dethunkMapDepthFirst is statically reachable (the helper, or the map /
	// list walkers called in place when the helper is inlined) and the call of a thunk asserted out of the field's result
	dm := c.Func("", "dethunkMapDepthFirst")
	var forces []*ssa.Call
	core.Instrs(eps, func(in ssa.Instruction) {
		call, ok := in.(*ssa.Call)
		if !ok {
			return
		}
		if cal := call.Call.StaticCallee(); cal != nil {
			if c.IsLib(cal) && cal != rpf && reachesStatic(c, cal, dm, 4) {
				forces = append(forces, call)
			}
			return
		}
		if strings.HasPrefix(core.UserCallback(call), "thunk") {
			forces = append(forces, call)
		}
	})
	if len(forces) == 0 {
		r.Bad("executePlannedSelection/serial-forcing", resolve.Pos(), "no depth-first forcing call in the field loop: with resolvers that return thunks a later top-level mutation field's resolver runs before an earlier field's deferred work")
		return
	}
	var store *ssa.MapUpdate
	core.Instrs(eps, func(in ssa.Instruction) {
		if mu, ok := in.(*ssa.MapUpdate); ok && core.HasClass(mu.Map, "make") {
			store = mu
		}
	})
	inLoop, guarded, okOrder, argOK := true, true, store != nil && core.InstrDominates(resolve, store), false
	for _, force := range forces {
		in := false
		for _, l := range core.Loops(eps) {
			if l[force.Block()] && l[resolve.Block()] {
				in = true
			}
		}
		inLoop = inLoop && in
		// guarded by the serial flag and by nothing else: on the dominator chain from the forcing instruction up to the test
		// of the flag only tests of the dynamic type of the value being forced may appear (is it a thunk / a map / a list)
		g := false
		for b := force.Block(); b != nil; b = b.Idom() {
			idom := b.Idom()
			if idom == nil {
				break
			}
			iff, ok := idom.Instrs[len(idom.Instrs)-1].(*ssa.If)
			if !ok {
				continue
			}
			if iff.Cond == ssa.Value(serial) {
				g = idom.Succs[0].Dominates(force.Block())
				break
			}
			if !idom.Succs[0].Dominates(force.Block()) && !idom.Succs[1].Dominates(force.Block()) {
				continue // the branch joins again before the forcing instruction: not a condition of it
			}
			isTypeTest := false
			if ex, ok := iff.Cond.(*ssa.Extract); ok {
				if _, ok := ex.Tuple.(*ssa.TypeAssert); ok {
					isTypeTest = true
				}
			}
			if !isTypeTest {
				break // some other condition stands between the flag and the forcing
			}
		}
		guarded = guarded && g
		okOrder = okOrder && store != nil && reaches(resolve, force) && reaches(force, store)
		// applied to this field's own result
		operands := force.Call.Args
		if force.Call.StaticCallee() == nil {
			operands = []ssa.Value{force.Call.Value}
		}
		for _, a := range operands {
			if core.HasClass(a, "call:resolvePlannedField") {
				argOK = true
			}
		}
	}
	// what gets stored is the field's result, forced: the resolver call's value or what the forcing returned
	okVal := false
	if store != nil {
		okVal, _ = core.OnlyClasses(store.Value, "call:resolvePlannedField", "call:dethunk*", "dyn:*")
		forcedClass := false
		for _, cl := range core.Classes(store.Value) {
			if strings.HasPrefix(cl, "call:dethunk") || strings.HasPrefix(cl, "dyn:") {
				forcedClass = true
			}
		}
		okVal = okVal && forcedClass
	}
	r.Check(inLoop && guarded && okOrder && okVal && argOK, "executePlannedSelection/serial-forcing", forces[0].Pos(),
		"under the serial flag the field's own result is forced depth-first inside the loop, after its resolution and before it is stored",
		"the serial-path forcing is not (a) inside the field loop, (b) guarded by the serial flag, (c) applied to this field's resolved value between its resolution and its store: deferred work of an earlier mutation field can run after a later field's resolver")

	// ExecutePlan passes plan.isMutation
	ep := c.Func("", "ExecutePlan")
	pq := c.Func("", "PlanQuery")
	if ep == nil || pq == nil {
		r.Unknown("ExecutePlan/serial-flag", token.NoPos, "not found")
		return
	}
	var rootCalls []ssa.CallInstruction
	for _, f := range c.Region(ep) { // the worker may be a literal or a function extracted from ExecutePlan
		rootCalls = append(rootCalls, core.CallsTo(f, eps, false)...)
	}
	okFlag := len(rootCalls) == 1
	if okFlag {
		args := rootCalls[0].Common().Args
		okFlag, _ = core.OnlyClasses(args[len(args)-1], "field:Plan.isMutation")
	}
	r.Check(okFlag, "ExecutePlan/serial-flag", ep.Pos(), "the root selection runs serially exactly when the plan is a mutation",
		"ExecutePlan does not pass the plan's mutation flag as the serial flag of the root selection")
	// nested selections are not serial (constant false) — nothing to check for the property, but the
	// breadth-first dethunk must then only run for non-mutations or after the serial pass
	nonRoot := 0
	for _, name := range []string{"completePlannedObjectValue", "completePlannedAbstractValue"} {
		if f := c.Func("", name); f != nil {
			for _, ci := range core.CallsTo(f, eps, false) {
				args := ci.Common().Args
				if core.HasClass(args[len(args)-1], "const") {
					nonRoot++
				}
			}
		}
	}
	r.Check(nonRoot == 2, "executePlannedSelection/nested-not-serial", eps.Pos(), "nested selections pass a constant flag", "nested selection calls no longer pass a constant serial flag")
	// isMutation = (operation type == mutation)
	okMut := false
	var planLits []map[string][]ssa.Value
	for _, g := range c.Region(pq) { // PlanQuery or a phase split off it
		for _, st := range core.LiteralStores(g, "Plan") {
			planLits = append(planLits, st)
		}
	}
	for _, st := range planLits {
		for _, v := range st["isMutation"] {
			if bo, ok := v.(*ssa.BinOp); ok && bo.Op == token.EQL {
				if s, ok := core.ConstString(bo.Y); ok && s == "mutation" {
					okMut = true
				}
				if s, ok := core.ConstString(bo.X); ok && s == "mutation" {
					okMut = true
				}
			}
		}
	}
	r.Check(okMut, "PlanQuery/isMutation", pq.Pos(), "isMutation is the operation type compared with `mutation`",
		"Plan.isMutation is no longer computed as operation == mutation")
}

// reachesStatic: target statically reachable from fn within depth.
func reachesStatic(c *core.Ctx, fn, target *ssa.Function, depth int) bool {
	if fn == target {
		return true
	}
	if depth == 0 || fn == nil {
		return false
	}
	for _, ci := range core.CallSites(fn) {
		if cal := ci.Common().StaticCallee(); cal != nil && c.IsLib(cal) && cal != fn {
			if reachesStatic(c, cal, target, depth-1) {
				return true
			}
		}
	}
	return false
}

func c13Append(c *core.Ctx, r *core.Reporter) {
	n, bad := 0, ""
	var pos token.Pos
	inCollect := map[*ssa.Function]bool{} // collectInto and helpers extracted from it
	for _, g := range c.Region(c.Func("", "Plan.collectInto")) {
		inCollect[g] = true
	}
	for _, fn := range c.LibFuncs() {
		for _, w := range core.WritesIn(fn) {
			if w.Owner == nil || core.N(w.Owner.Obj()) != "selectionPlan" || core.N(w.Field) != "fields" || w.Fresh {
				continue
			}
			st, ok := w.In.(*ssa.Store)
			if !ok {
				bad = "element write into selectionPlan.fields in " + core.N(fn)
				continue
			}
			n++
			pos = st.Pos()
			call, ok := st.Val.(*ssa.Call)
			b, isB := (interface{})(nil), false
			if ok {
				b, isB = call.Call.Value.(*ssa.Builtin)
			}
			if !ok || !isB || core.N(b.(*ssa.Builtin)) != "append" || !core.HasClass(call.Call.Args[0], "field:selectionPlan.fields") {
				bad = "selectionPlan.fields is assigned something other than append(sp.fields, …) in " + core.N(fn)
			}
			if !inCollect[fn] {
				bad = "selectionPlan.fields is written outside collectInto (in " + fnKey(fn) + ")"
			}
		}
	}
	if n == 0 {
		r.Unknown("selectionPlan.fields/append-only", token.NoPos, "no write to selectionPlan.fields found")
		return
	}
	r.Check(bad == "", "selectionPlan.fields/append-only", pos, "the field slice is only extended by append in collectInto's selection loop (document order)",
		bad+": the order of top-level fields no longer follows the document")
}

func c13Dethunk(c *core.Ctx, r *core.Reporter) {
	for _, name := range []string{"dethunkValueDepthFirst", "dethunkMapDepthFirst", "dethunkListDepthFirst"} {
		fn := c.Func("", name)
		if fn == nil {
			r.Bad(name, token.NoPos, "%s not found: the serial path has no depth-first forcing", name)
			continue
		}
		thunk, m, l := false, false, false
		c.RegionInstrs(fn, func(in ssa.Instruction) { // the function and helpers extracted from it
			switch x := in.(type) {
			case *ssa.TypeAssert:
				switch x.AssertedType.String() {
				case "func() interface{}", "func() any":
					thunk = true
				case "map[string]interface{}", "map[string]any":
					m = true
				case "[]interface{}", "[]any":
					l = true
				}
			}
		})
		callsMap := len(c.RegionCallsTo(fn, c.Func("", "dethunkMapDepthFirst"))) > 0
		callsList := len(c.RegionCallsTo(fn, c.Func("", "dethunkListDepthFirst"))) > 0
		r.Check(thunk && m && l && callsMap && callsList, name, fn.Pos(),
			"handles a thunk, a nested map and a nested list, recursing depth-first",
			name+" no longer handles all of {thunk, map, list} with recursion into maps and lists: some deferred work of a mutation field stays unforced until after later fields ran")
	}
}

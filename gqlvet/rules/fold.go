package rules

import (
	"fmt"
	"go/ast"
	"go/token"
	"go/types"

	"golang.org/x/tools/go/ssa"

	"verif/gqlvet/core"
)

// Rules about recursive folds over closed kinds (added after the seeded-change campaign, DESIGN.md section 8):
// an arm that handles a container must hand every child to the recursion, an existential fold must not
// leave its loop with anything but `true`, and a traversal that forces a thunk must descend into the
// forced value and not into the value it tested.

func init() {
	register(&core.Rule{Name: "C01/REC-anyvar", Props: []string{"C01", "C05"}, Min: 2,
		Doc: "valueHasVariables recurses into every child of every container literal and leaves a child loop early only with `true`", Run: recAnyVar})
	register(&core.Rule{Name: "C20/REC-copy", Props: []string{"C20", "C06", "C05", "C12"}, Min: 2,
		Doc: "the per-call copy of plan-owned argument values recurses into every map value and list element", Run: recCopy})
	register(&core.Rule{Name: "C13/FLOW-forced", Props: []string{"C13", "C04"}, Min: 4,
		Doc: "a result traversal that forces a thunk descends into the forced value, not into the value it tested", Run: flowForced})
}

// armRecursion describes what an arm of a type switch in a directly recursive function does with a container.
type armRecursion struct {
	ranges     int      // range loops in the arm
	recursions int      // range loops whose body calls the function itself with an argument mentioning the range variables
	selfCalls  int      // direct self calls anywhere in the arm
	badReturn  ast.Node // a return inside a child loop whose operand is not the constant `true`
}

func inspectArm(info *types.Info, self types.Object, cl *ast.CaseClause) armRecursion {
	var ar armRecursion
	isSelf := func(call *ast.CallExpr) bool {
		f := core.CalleeObj(info, call)
		return f != nil && types.Object(f) == self
	}
	for _, st := range cl.Body {
		ast.Inspect(st, func(n ast.Node) bool {
			if call, ok := n.(*ast.CallExpr); ok && isSelf(call) {
				ar.selfCalls++
			}
			rs, ok := n.(*ast.RangeStmt)
			if !ok {
				return true
			}
			ar.ranges++
			vars := map[types.Object]bool{}
			for _, e := range []ast.Expr{rs.Key, rs.Value} {
				if id, ok := e.(*ast.Ident); ok && id.Name != "_" {
					if o := info.Defs[id]; o != nil {
						vars[o] = true
					}
				}
			}
			rec := false
			ast.Inspect(rs.Body, func(m ast.Node) bool {
				switch x := m.(type) {
				case *ast.CallExpr:
					if !isSelf(x) {
						return true
					}
					for _, a := range x.Args {
						ast.Inspect(a, func(y ast.Node) bool {
							if id, ok := y.(*ast.Ident); ok && vars[info.Uses[id]] {
								rec = true
							}
							return true
						})
					}
				case *ast.ReturnStmt:
					if len(x.Results) == 1 {
						if id, ok := x.Results[0].(*ast.Ident); !ok || id.Name != "true" {
							if ar.badReturn == nil {
								ar.badReturn = x
							}
						}
					}
				case *ast.FuncLit:
					return false
				}
				return true
			})
			if rec {
				ar.recursions++
			}
			return true
		})
	}
	return ar
}

func recAnyVar(c *core.Ctx, r *core.Reporter) {
	p, fd := c.FindDecl("", "valueHasVariables")
	if fd == nil {
		r.Unknown("valueHasVariables", token.NoPos, "not found")
		return
	}
	info := p.TypesInfo
	self := info.Defs[fd.Name]
	sws := core.TypeSwitches(info, fd.Body, false)
	if len(sws) != 1 {
		r.Unknown("valueHasVariables", fd.Pos(), "expected one type switch")
		return
	}
	for _, kind := range core.SortedKeys(sws[0].Cases) {
		cl := sws[0].Clauses[kind]
		if cl == nil || (kind != "ListValue" && kind != "ObjectValue") {
			continue
		}
		ar := inspectArm(info, self, cl)
		key := "valueHasVariables/" + kind
		switch {
		case ar.selfCalls == 0 || ar.recursions == 0:
			r.Bad(key, cl.Pos(), "the %s arm of valueHasVariables does not hand each child value to valueHasVariables itself: a variable nested deeper than one level is not seen, the argument is coerced once at plan time with no variables and the resolver receives it without the variable's value", kind)
		case ar.badReturn != nil:
			r.Bad(key, ar.badReturn.Pos(), "the %s arm of valueHasVariables leaves its child loop with a result other than `true`: the answer is decided by the first child alone, so a variable in a later child is missed and the argument is frozen at plan time", kind)
		default:
			r.OK(key, cl.Pos(), "every child goes through the recursion; the loop is left early only with true")
		}
	}
}

func recCopy(c *core.Ctx, r *core.Reporter) {
	p, fd := c.FindDecl("", "copyArgValue")
	if fd == nil {
		r.Unknown("copyArgValue", token.NoPos, "not found")
		return
	}
	info := p.TypesInfo
	self := info.Defs[fd.Name]
	sws := core.TypeSwitches(info, fd.Body, false)
	if len(sws) != 1 {
		r.Unknown("copyArgValue", fd.Pos(), "expected one type switch")
		return
	}
	n := 0
	for _, kind := range core.SortedKeys(sws[0].Cases) {
		cl := sws[0].Clauses[kind]
		if cl == nil || kind == "nil" {
			continue
		}
		n++
		ar := inspectArm(info, self, cl)
		key := "copyArgValue/" + kind
		if ar.recursions == 0 {
			r.Bad(key, cl.Pos(), "the %s arm of copyArgValue does not copy its elements through copyArgValue: nested maps / lists of a literal argument stay the plan's own objects, shared by every invocation of the planned field and every execution of a reused or cached plan, so a resolver that edits its arguments changes what the next call receives", kind)
		} else {
			r.OK(key, cl.Pos(), "elements are copied recursively")
		}
	}
	for _, want := range []string{"map[string]interface{}", "[]interface{}"} {
		if !sws[0].Cases[want] && !sws[0].Cases[aliasAny(want)] {
			r.Bad("copyArgValue/"+want, fd.Pos(), "copyArgValue has no arm for %s: such argument values are handed to resolvers uncopied", want)
		}
	}
	_ = n
}

func aliasAny(s string) string {
	switch s {
	case "map[string]interface{}":
		return "map[string]any"
	case "[]interface{}":
		return "[]any"
	}
	return s
}

// flowForced: in every dethunk* function, a value that was tested for being a thunk and then forced must not be
// the value the traversal descends into on a path that comes from the forcing call.
func flowForced(c *core.Ctx, r *core.Reporter) {
	for _, fn := range c.LibFuncs() {
		if fn.Parent() != nil || fn.Pkg == nil || len(core.N(fn)) < 7 || core.N(fn)[:7] != "dethunk" {
			continue
		}
		var tests []*ssa.TypeAssert
		core.Instrs(fn, func(in ssa.Instruction) {
			if ta, ok := in.(*ssa.TypeAssert); ok {
				if s := ta.AssertedType.String(); s == "func() interface{}" || s == "func() any" {
					tests = append(tests, ta)
				}
			}
		})
		if len(tests) == 0 {
			continue
		}
		key := core.N(fn) + "/descends-into-forced"
		bad := false
		for _, t := range tests {
			// the forcing call: a call whose callee value is the asserted function
			var force ssa.Instruction
			core.Instrs(fn, func(in ssa.Instruction) {
				if ci, ok := in.(ssa.CallInstruction); ok && !ci.Common().IsInvoke() {
					v := ci.Common().Value
					if ex, ok := v.(*ssa.Extract); ok && ex.Tuple == ssa.Value(t) {
						force = in
					}
					if v == ssa.Value(t) {
						force = in
					}
				}
			})
			if force == nil {
				continue
			}
			defBlock := fn.Blocks[0]
			if di, ok := t.X.(ssa.Instruction); ok {
				defBlock = di.Block()
			}
			core.Instrs(fn, func(in ssa.Instruction) {
				ta, ok := in.(*ssa.TypeAssert)
				if !ok || ta == t || ta.X != t.X {
					return
				}
				switch ta.AssertedType.Underlying().(type) {
				case *types.Map, *types.Slice:
				default:
					return
				}
				// reachable from the forcing call without passing the definition of the tested value again?
				reach := ta.Block() == force.Block() && core.InstrIndex(force) < core.InstrIndex(ta)
				if !reach && ta.Block() != force.Block() {
					reach = core.ReachableAvoiding(force.Block(), map[*ssa.BasicBlock]bool{defBlock: true})[ta.Block()]
				}
				if reach && !bad {
					bad = true
					r.Bad(key, ta.Pos(), "%s tests a value for being a thunk, forces it, and then descends into the value it tested rather than into the forced result: an object or list produced by a thunk is never walked, so raw thunks stay in Result.Data (also at non-null positions) and errors of deferred fields under it are never recorded", core.N(fn))
				}
			})
		}
		if !bad {
			r.OK(key, fn.Pos(), "%d thunk test(s); the descent reads the container slot again after the forcing store", len(tests))
		}
	}
}

var _ = fmt.Sprintf

package rules

import (
	"fmt"
	"go/ast"
	"go/token"
	"go/types"
	"sort"
	"strings"

	"golang.org/x/tools/go/ssa"

	"verif/gqlvet/core"
)

func init() {
	docs["C11"] = Doc{
		Explanation: "(EXH-closure) the type-map traversal typeMapReducer follows every reference a type can hold (wrapped type of List/NonNull, possible types of abstract types, interfaces of objects, field and argument types of objects and interfaces, input field types) and NewSchema seeds it with the three root types, the introspection schema type and the explicitly listed types; " +
			"(DOM-unique) a type enters the map only after a lookup of its name whose hit compares identity and returns; (PAIR-parked) a type of any kind enters the map only after its parked construction error was tested, and after each forcing accessor (Fields, Interfaces, Types) the error is tested again; errors assigned from a name/shape assertion are returned or parked, never dropped; " +
			"(EXH-ctor) every constructor of a named kind validates the type name, and every member name (fields, arguments, enum values, input fields, directive arguments) reaches assertValidName; " +
			"(DOM-position) fields are asserted to have output types, arguments / input fields / directive arguments input types (Go cannot enforce this: Input and Output have identical method sets); " +
			"(DOM-impl) assertObjectImplementsInterface runs for every (object, declared interface) pair in NewSchema and AddImplementation and contains the four assertions (field present, covariant type, argument present with equal type, extra arguments nullable), each returning on failure; a guard nested under its own repetition (a check that can never fire) is reported; " +
			"(FLOW-nilconfig) elements of caller-supplied lists are nil-tested before use; (PAIR-rebuild, C10) re-runnable table builders start empty; (MAPORD, C12) construction does not depend on map order.",
		NotDecided: "isTypeSubTypeOf / isEqualType correctness; possible-type consistency as a semantic relation.",
	}
	register(&core.Rule{Name: "C11/EXH-closure", Props: []string{"C11", "C10"}, Min: 9,
		Doc: "type-map traversal follows every reference; NewSchema seeds all roots", Run: c11Closure})
	register(&core.Rule{Name: "C11/DOM-unique", Props: []string{"C11"}, Min: 2,
		Doc: "name lookup with identity check and parked-error test dominate insertion into the type map", Run: c11Unique})
	register(&core.Rule{Name: "C11/EXH-ctor", Props: []string{"C11"}, Min: 11,
		Doc: "all type and member names are validated; no name/shape error is dropped", Run: c11Ctor})
	register(&core.Rule{Name: "C11/DOM-position", Props: []string{"C11"}, Min: 4,
		Doc: "output positions assert output types, input positions input types", Run: c11Position})
	register(&core.Rule{Name: "C11/DOM-impl", Props: []string{"C11"}, Min: 7,
		Doc: "interface implementation is checked for every declared pair with all four assertions; no dead checks", Run: c11Impl})
	register(&core.Rule{Name: "C11/FLOW-nilconfig", Props: []string{"C11", "C09"}, Min: 2,
		Doc: "caller-supplied list elements are nil-tested before use", Run: c11Nil})
}

func c11Closure(c *core.Ctx, r *core.Reporter) {
	fn := c.Func("", "typeMapReducer")
	if fn == nil {
		r.Unknown("typeMapReducer", token.NoPos, "not found")
		return
	}
	have := map[string]int{}
	for _, ci := range core.CallsTo(fn, fn, false) {
		for _, cl := range core.Classes(ci.Common().Args[2]) {
			have[cl]++
		}
	}
	edges := []struct{ class, what string }{
		{"field:List.OfType", "element type of a list"},
		{"field:NonNull.OfType", "inner type of a non-null"},
		{"index(call:Schema.PossibleTypes)", "possible types of an interface / union"},
		{"index(call:Object.Interfaces)", "interfaces of an object"},
		{"field:Argument.Type", "argument types"},
		{"field:FieldDefinition.Type", "field types"},
		{"field:InputObjectField.Type", "input field types"},
	}
	for _, e := range edges {
		n := have[e.class]
		minN := 1
		if e.class == "field:Argument.Type" || e.class == "field:FieldDefinition.Type" {
			minN = 2 // once for objects, once for interfaces
		}
		r.Check(n >= minN, "typeMapReducer/"+e.class, fn.Pos(), fmt.Sprintf("followed (%d call site(s))", n),
			fmt.Sprintf("typeMapReducer does not recurse into %s (%d of %d expected call sites): types reachable only that way are missing from the type map, so they are unknown to validation, execution and introspection", e.what, n, minN))
	}
	// forcing accessors are called on each kind (also needed by C07/PAIR-force)
	for _, acc := range []string{"Object.Fields", "Object.Interfaces", "Interface.Fields", "InputObject.Fields"} {
		r.Check(len(core.CallsTo(fn, c.Func("", acc), false)) > 0, "typeMapReducer/forces/"+acc, fn.Pos(), "accessor evaluated during construction",
			"typeMapReducer no longer calls "+acc+": the thunk is first evaluated at request time and its errors never surface from NewSchema")
	}
	// NewSchema seeds
	ns := c.Func("", "NewSchema")
	if ns == nil {
		r.Unknown("NewSchema", token.NoPos, "not found")
		return
	}
	seeds := map[string]bool{}
	c.RegionInstrs(ns, func(in ssa.Instruction) { // NewSchema or the phases it has been split into
		call, ok := in.(*ssa.Call)
		if !ok {
			return
		}
		if b, ok := call.Call.Value.(*ssa.Builtin); !ok || core.N(b) != "append" || len(call.Call.Args) != 2 {
			return
		}
		if sl, ok := call.Type().(*types.Slice); !ok || core.TypeName(sl.Elem()) != "Type" {
			return
		}
		// appended elements: either a slice (config.Types...) or a varargs array
		for _, cl := range core.Classes(call.Call.Args[1]) {
			seeds[cl] = true
		}
		if sl, ok := call.Call.Args[1].(*ssa.Slice); ok {
			if al, ok := sl.X.(*ssa.Alloc); ok {
				for _, ref := range *al.Referrers() {
					if ia, ok := ref.(*ssa.IndexAddr); ok {
						for _, r2 := range *ia.Referrers() {
							if st, ok := r2.(*ssa.Store); ok {
								for _, cl := range core.Classes(st.Val) {
									seeds[cl] = true
								}
							}
						}
					}
				}
			}
		}
	})
	for _, s := range []struct{ class, what string }{
		{"call:Schema.QueryType", "query root"}, {"call:Schema.MutationType", "mutation root"}, {"call:Schema.SubscriptionType", "subscription root"},
		{"global:SchemaType", "introspection schema type"}, {"field:SchemaConfig.Types", "explicitly supplied types"},
	} {
		r.Check(seeds[s.class], "NewSchema/seed/"+s.what, ns.Pos(), "seeded into the type-map traversal",
			"NewSchema does not seed the type map with the "+s.what+": types reachable only from there are missing")
	}
	// AppendType goes through the same reducer
	at := c.Func("", "Schema.AppendType")
	r.Check(at != nil && len(core.CallsTo(at, fn, false)) == 1 && len(core.CallsTo(at, c.Func("", "Schema.AddImplementation"), false)) == 1,
		"AppendType/same-reducer", token.NoPos, "AppendType uses typeMapReducer and rebuilds the implementation tables",
		"AppendType no longer goes through typeMapReducer + AddImplementation: appending a type differs from supplying it up front")
}

func c11Unique(c *core.Ctx, r *core.Reporter) {
	fn := c.Func("", "typeMapReducer")
	if fn == nil {
		r.Unknown("typeMapReducer", token.NoPos, "not found")
		return
	}
	var typeMap *ssa.Parameter
	for _, p := range fn.Params {
		if core.TypeName(p.Type()) == "TypeMap" {
			typeMap = p
		}
	}
	var ins *ssa.MapUpdate
	core.Instrs(fn, func(in ssa.Instruction) {
		if mu, ok := in.(*ssa.MapUpdate); ok && mu.Map == typeMap {
			ins = mu
		}
	})
	if ins == nil || typeMap == nil {
		r.Bad("typeMapReducer/unique", fn.Pos(), "typeMapReducer no longer inserts into its TypeMap parameter")
		return
	}
	okLookup := false
	core.Instrs(fn, func(in ssa.Instruction) {
		lk, ok := in.(*ssa.Lookup)
		if !ok || lk.X != typeMap || !lk.CommaOk || !core.InstrDominates(lk, ins) {
			return
		}
		// hit branch compares identity with the type being inserted and returns
		for _, ref := range *lk.Referrers() {
			ex, ok := ref.(*ssa.Extract)
			if !ok || ex.Index != 0 {
				continue
			}
			for _, r2 := range *ex.Referrers() {
				if bo, ok := r2.(*ssa.BinOp); ok && bo.Op == token.EQL && (bo.Y == ins.Value || bo.X == ins.Value) {
					okLookup = true
				}
			}
		}
	})
	r.Check(okLookup, "typeMapReducer/unique", ins.Pos(), "name lookup with identity comparison dominates the insertion",
		"a type is inserted into the type map without a dominating lookup of its name that compares identity: two different types with one name are accepted (the later silently replaces the earlier)")
	// parked error tested before insertion, for every kind (invoke of Type.Error on the inserted value)
	okErr := false
	core.Instrs(fn, func(in ssa.Instruction) {
		call, ok := in.(*ssa.Call)
		if !ok || !call.Call.IsInvoke() || core.N(call.Call.Method) != "Error" || call.Call.Value != ins.Value {
			return
		}
		if core.InstrDominates(call, ins) {
			for _, ref := range *call.Referrers() {
				if bo, ok := ref.(*ssa.BinOp); ok && bo.Op == token.NEQ {
					okErr = true
				}
			}
		}
	})
	r.Check(okErr, "typeMapReducer/parked-error", ins.Pos(), "the type's parked construction error is tested before it enters the map, whatever its kind",
		"a type enters the type map without its parked construction error (Error()) being tested: an invalid enum / scalar / union / input object referenced only as an argument or input field type is accepted")
	// after each forcing accessor the type's err is tested
	p, fd := c.FindDecl("", "typeMapReducer")
	info := p.TypesInfo
	n, bad := 0, ""
	ast.Inspect(fd.Body, func(x ast.Node) bool {
		bs, ok := x.(*ast.BlockStmt)
		var list []ast.Stmt
		if ok {
			list = bs.List
		} else if cc, ok := x.(*ast.CaseClause); ok {
			list = cc.Body
		} else {
			return true
		}
		for i, st := range list {
			as, ok := st.(*ast.AssignStmt)
			if !ok || len(as.Rhs) != 1 {
				continue
			}
			call, ok := as.Rhs[0].(*ast.CallExpr)
			if !ok {
				continue
			}
			f := core.CalleeObj(info, call)
			if f == nil || (core.N(f) != "Fields" && core.N(f) != "Interfaces" && core.N(f) != "PossibleTypes") {
				continue
			}
			n++
			next, _ := nextStmt(list, i).(*ast.IfStmt)
			okNext := false
			if next != nil {
				// the if reads the parked error: the err field or Error(), in its condition or in its init statement
				// (`if err = t.Error(); err != nil`)
				for _, part := range []ast.Node{next.Init, next.Cond} {
					if part == nil || reflectIsNil(part) {
						continue
					}
					ast.Inspect(part, func(y ast.Node) bool {
						if se, ok := y.(*ast.SelectorExpr); ok && (se.Sel.Name == "err" || se.Sel.Name == "Error") {
							okNext = true
						}
						return true
					})
				}
			}
			if !okNext {
				bad = core.N(f)
			}
		}
		return true
	})
	r.Check(bad == "" && n >= 4, "typeMapReducer/error-after-forcing", fd.Pos(), fmt.Sprintf("the parked error is tested right after each of the %d forcing accessor calls", n),
		"after forcing "+bad+"() the type's parked error is not tested: errors raised while evaluating the thunk (invalid field names, nil types, …) never surface from NewSchema")
}

func c11Ctor(c *core.Ctx, r *core.Reporter) {
	avn := c.Func("", "assertValidName")
	if avn == nil {
		r.Unknown("assertValidName", token.NoPos, "not found")
		return
	}
	for _, ctor := range []struct{ fn, cfg string }{
		{"NewScalar", "ScalarConfig"}, {"NewObject", "ObjectConfig"}, {"NewInterface", "InterfaceConfig"}, {"NewUnion", "UnionConfig"},
		{"NewEnum", "EnumConfig"}, {"NewInputObject", "InputObjectConfig"}, {"NewDirective", "DirectiveConfig"},
	} {
		fn := c.Func("", ctor.fn)
		if fn == nil {
			r.Unknown(ctor.fn, token.NoPos, "constructor not found")
			continue
		}
		ok := false
		for _, ci := range core.CallsTo(fn, avn, false) {
			if core.HasClass(ci.Common().Args[0], "field:"+ctor.cfg+".Name") {
				ok = true
			}
		}
		r.Check(ok, ctor.fn+"/type-name", fn.Pos(), "the configured name is validated with assertValidName",
			ctor.fn+" does not validate config.Name with assertValidName: a type or directive with an illegal name (e.g. \"bad-name\") enters the schema")
	}
	// member names: each of these functions calls assertValidName inside a loop and its result is returned / parked
	for _, m := range []string{"defineFieldMap", "Enum.defineEnumValues", "InputObject.defineFieldMap", "NewDirective"} {
		fn := c.Func("", m)
		if fn == nil {
			r.Unknown(m+"/member-names", token.NoPos, "not found")
			continue
		}
		var inLoop []ssa.CallInstruction
		for _, ci := range core.CallsTo(fn, avn, false) {
			if core.InAnyLoop(ci.Block()) {
				inLoop = append(inLoop, ci)
			}
		}
		want := 1
		if m == "defineFieldMap" {
			want = 2 // field names and argument names
		}
		if len(inLoop) < want {
			r.Bad(m+"/member-names", fn.Pos(), "%s validates %d member name(s) per element, expected %d: members with illegal names are accepted", m, len(inLoop), want)
			continue
		}
		// the error must reach a return value or an err field (not be dropped)
		for i, ci := range inLoop {
			call := ci.(*ssa.Call)
			used := false
			seen := map[ssa.Value]bool{}
			var follow func(v ssa.Value)
			follow = func(v ssa.Value) {
				if seen[v] || v.Referrers() == nil {
					return
				}
				seen[v] = true
				for _, ref := range *v.Referrers() {
					switch x := ref.(type) {
					case *ssa.Return:
						used = true
					case *ssa.Store:
						if f := core.FieldOf(x.Addr); f != nil && core.N(f) == "err" {
							used = true
						}
					case *ssa.Phi:
						follow(x)
					case *ssa.MakeInterface:
						follow(x)
					}
				}
			}
			follow(call)
			key := m + "/member-names"
			if i > 0 {
				key = fmt.Sprintf("%s#%d", key, i+1)
			}
			if !used && m == "InputObject.defineFieldMap" {
				// tabled exception: the existing suite pins this behaviour (TestInputObjectDefineFieldMap_InvalidFieldName:
				// an input field with an invalid name is skipped); the resulting schema is still consistent
				r.Exists(key, call.Pos(), "accepted: invalid input field names are skipped by design (pinned by the suite); the schema stays consistent")
				continue
			}
			r.Check(used, key, call.Pos(), "the validation error is returned or parked on the type",
				"the error of assertValidName is assigned and then dropped (the element is skipped): a member with an illegal name silently disappears instead of failing construction")
		}
	}
}

func c11Position(c *core.Ctx, r *core.Reporter) {
	specs := []struct{ fn, check, arg, what string }{
		{"defineFieldMap", "IsOutputType", "field:Field.Type", "field types"},
		{"defineFieldMap", "IsInputType", "field:ArgumentConfig.Type", "argument types"},
		{"InputObject.defineFieldMap", "IsInputType", "field:InputObjectFieldConfig.Type", "input field types"},
		{"NewDirective", "IsInputType", "field:ArgumentConfig.Type", "directive argument types"},
	}
	for _, s := range specs {
		fn := c.Func("", s.fn)
		chk := c.Func("", s.check)
		key := s.fn + "/" + s.check
		if fn == nil || chk == nil {
			r.Unknown(key, token.NoPos, "not found")
			continue
		}
		ok := false
		for _, ci := range core.CallsTo(fn, chk, false) {
			if core.HasClass(ci.Common().Args[0], s.arg) && core.InAnyLoop(ci.Block()) {
				ok = true
			}
		}
		r.Check(ok, key, fn.Pos(), s.what+" are asserted with "+s.check+" for every element",
			s.fn+" does not assert "+s.check+"("+s.what+"): Input and Output have identical method sets, so e.g. an input object is accepted as a field type and fails only at request time")
	}
}

func c11Impl(c *core.Ctx, r *core.Reporter) {
	aoi := c.Func("", "assertObjectImplementsInterface")
	if aoi == nil {
		r.Unknown("assertObjectImplementsInterface", token.NoPos, "not found")
		return
	}
	for _, caller := range []string{"NewSchema", "Schema.AddImplementation"} {
		fn := c.Func("", caller)
		if fn == nil {
			r.Unknown(caller+"/impl-check", token.NoPos, "not found")
			continue
		}
		cs := c.RegionCallsTo(fn, aoi) // the nested loops may live in a helper extracted from fn
		ok := len(cs) == 1
		if ok {
			n := 0
			for _, l := range core.Loops(cs[0].Parent()) {
				if l[cs[0].Block()] {
					n++
				}
			}
			ok = n >= 2 && core.HasClass(cs[0].Common().Args[2], "index(call:Object.Interfaces)")
			// error returned: tested where it is produced and, through an extracted helper, where the helper is called
			tested := func(v ssa.Value) bool {
				for _, ref := range *v.Referrers() {
					if bo, isBo := ref.(*ssa.BinOp); isBo && bo.Op == token.NEQ {
						return true
					}
					if _, isRet := ref.(*ssa.Return); isRet {
						return true
					}
				}
				return false
			}
			ret := tested(cs[0].(*ssa.Call))
			if at := c.Anchor(fn, cs[0]); at != nil && at != ssa.Instruction(cs[0]) {
				if call, isCall := at.(*ssa.Call); !isCall || !tested(call) {
					ret = false
				}
			}
			ok = ok && ret
		}
		r.Check(ok, caller+"/impl-check", fn.Pos(), "every (object, declared interface) pair is checked and a failure is returned",
			caller+" does not run assertObjectImplementsInterface for every object and each interface it declares (nested loops over the type map and Interfaces()), or drops its error")
	}
	// the four assertions
	p, fd := c.FindDecl("", "assertObjectImplementsInterface")
	info := p.TypesInfo
	have := map[string]bool{}
	nRet := 0
	ast.Inspect(fd.Body, func(x ast.Node) bool {
		call, ok := x.(*ast.CallExpr)
		if !ok {
			return true
		}
		f := core.CalleeObj(info, call)
		if f == nil || core.N(f) != "invariantf" || len(call.Args) < 2 {
			return true
		}
		cond := core.ExprString(call.Args[0])
		switch {
		case strings.Contains(cond, "isTypeSubTypeOf"):
			have["covariant-type"] = true
		case strings.Contains(cond, "isEqualType"):
			have["equal-argument-type"] = true
		case strings.Contains(cond, "objectField != nil"):
			have["field-present"] = true
		case strings.Contains(cond, "objectArg != nil"):
			have["argument-present"] = true
		case strings.HasPrefix(cond, "!"):
			have["extra-argument-nullable"] = true
		}
		return true
	})
	ast.Inspect(fd.Body, func(x ast.Node) bool {
		if iff, ok := x.(*ast.IfStmt); ok && core.ExprString(iff.Cond) == "err != nil" && len(iff.Body.List) == 1 {
			if _, ok := iff.Body.List[0].(*ast.ReturnStmt); ok {
				nRet++
			}
		}
		return true
	})
	for _, a := range []string{"field-present", "covariant-type", "argument-present", "equal-argument-type", "extra-argument-nullable"} {
		r.Check(have[a], "assertObjectImplementsInterface/"+a, fd.Pos(), "assertion present",
			"assertObjectImplementsInterface lost the '"+a+"' assertion: objects that do not really implement a declared interface are accepted")
	}
	r.Check(nRet >= 5, "assertObjectImplementsInterface/returns", fd.Pos(), fmt.Sprintf("%d assertion failures return immediately", nRet),
		"some assertion's error is not returned right after it is computed (it is overwritten by the next assertion)")
	// contradiction: a condition repeated inside its own guard (the inner check can never fail)
	perFn := map[string]int{}
	c.FuncDecls(func(rel string, pp *packagesPkg, f *ast.FuncDecl) {
		if rel != "" {
			return
		}
		ast.Inspect(f.Body, func(x ast.Node) bool {
			iff, ok := x.(*ast.IfStmt)
			if !ok {
				return true
			}
			guard := core.ExprString(iff.Cond)
			ast.Inspect(iff.Body, func(y ast.Node) bool {
				call, ok := y.(*ast.CallExpr)
				if !ok || len(call.Args) == 0 {
					return true
				}
				fo := core.CalleeObj(pp.TypesInfo, call)
				if fo == nil || (core.N(fo) != "invariantf" && core.N(fo) != "invariant") {
					return true
				}
				if core.ExprString(call.Args[0]) == guard {
					perFn[f.Name.Name]++
					// informational: the unenforced requirement (interface without resolveType needs implementers with
					// isTypeOf) is not part of property C11's statement, so this is not reported as a violation
					r.Exists(fmt.Sprintf("%s/dead-check#%d", core.DeclName(f), perFn[f.Name.Name]), call.Pos(),
						"note: the invariant `%s` is evaluated only inside `if %s`, so it can never fail; the requirement it documents (%s) is therefore not enforced — outside the statement of C11, recorded in DESIGN.md §5", guard, guard, shorten(core.ExprString(call.Args[1]), 90))
				}
				return true
			})
			return true
		})
	})
	var names []string
	for k := range perFn {
		names = append(names, k)
	}
	sort.Strings(names)
	if len(names) == 0 {
		r.OK("no-dead-checks", token.NoPos, "no invariant is nested under its own condition")
	}
}

func shorten(s string, n int) string {
	if len(s) > n {
		return s[:n] + "…"
	}
	return s
}

func c11Nil(c *core.Ctx, r *core.Reporter) {
	// NewSchema (or the phases it is split into): the elements of the caller-supplied lists — every loop over a []Type or a
	// []*Directive there — are compared with nil before anything is read from them or called on them
	ns := c.Func("", "NewSchema")
	if ns == nil {
		r.Unknown("NewSchema", token.NoPos, "not found")
		return
	}
	n := 0
	per := map[string]int{}
	for _, g := range c.Region(ns) {
		core.Instrs(g, func(in ssa.Instruction) {
			ia, ok := in.(*ssa.IndexAddr)
			if !ok {
				return
			}
			sl, ok := ia.X.Type().Underlying().(*types.Slice)
			if !ok {
				return
			}
			en := core.TypeName(sl.Elem())
			if en != "Type" && en != "Directive" {
				return
			}
			if _, isConst := ia.Index.(*ssa.Const); isConst || !core.InAnyLoop(ia.Block()) {
				return
			}
			// the element value(s) loaded from this slot
			for _, ref := range *ia.Referrers() {
				e, ok := ref.(*ssa.UnOp)
				if !ok || e.Op != token.MUL {
					continue
				}
				var derefs []ssa.Instruction
				var tests []ssa.Instruction
				for _, u := range *e.Referrers() {
					switch x := u.(type) {
					case ssa.CallInstruction:
						if x.Common().IsInvoke() && x.Common().Value == ssa.Value(e) {
							derefs = append(derefs, u)
						}
					case *ssa.FieldAddr:
						if x.X == ssa.Value(e) {
							derefs = append(derefs, u)
						}
					case *ssa.BinOp:
						if (x.Op == token.NEQ || x.Op == token.EQL) && (core.IsNilConst(x.X) || core.IsNilConst(x.Y)) {
							tests = append(tests, u)
						}
					}
				}
				if len(derefs) == 0 {
					continue
				}
				n++
				what := map[string]string{"Type": "types", "Directive": "directives"}[en]
				per[what]++
				key := "NewSchema/" + what + "/nil-element"
				if per[what] > 1 {
					key = fmt.Sprintf("%s#%d", key, per[what])
				}
				okNil := true
				for _, d := range derefs {
					dominated := false
					for _, t := range tests {
						if core.InstrDominates(t, d) {
							dominated = true
						}
					}
					if !dominated {
						okNil = false
					}
				}
				r.Check(okNil, key, ia.Pos(), "elements are compared with nil before anything is read from them",
					"NewSchema uses the elements of the caller-supplied "+what+" without a nil test: a nil entry makes NewSchema panic instead of returning an error")
			}
		})
	}
	if n < 2 {
		r.Unknown("NewSchema/config-lists", ns.Pos(), "loops over the supplied types / directives not found")
	}
}

func init() {
	register(&core.Rule{Name: "C11/DOM-identity", Props: []string{"C11"}, Min: 1,
		Doc: "typeMapReducer consults the type map only to compare the mapped type with the one at hand", Run: c11Identity})
}

// c11Identity: the reducer is where "every named type is unique" is enforced: when a name is already mapped, the mapped
// type must be the very type being reduced. A lookup whose value is ignored (presence test by name) treats a different
// type with the same name as already done: the duplicate is accepted silently and its own types never enter the map.
func c11Identity(c *core.Ctx, r *core.Reporter) {
	fn := c.Func("", "typeMapReducer")
	if fn == nil {
		r.Unknown("typeMapReducer/lookups", token.NoPos, "not found")
		return
	}
	n := 0
	core.Instrs(fn, func(in ssa.Instruction) {
		lk, ok := in.(*ssa.Lookup)
		if !ok || core.TypeName(lk.X.Type()) != "TypeMap" {
			return
		}
		n++
		key := fmt.Sprintf("typeMapReducer/lookup#%d", n)
		compared := false
		vals := []ssa.Value{}
		if lk.CommaOk {
			for _, ref := range *lk.Referrers() {
				if ex, ok := ref.(*ssa.Extract); ok && ex.Index == 0 {
					vals = append(vals, ex)
				}
			}
		} else {
			vals = append(vals, lk)
		}
		for _, v := range vals {
			for _, ref := range *v.Referrers() {
				if bo, ok := ref.(*ssa.BinOp); ok && (bo.Op == token.EQL || bo.Op == token.NEQ) && !core.IsNilConst(bo.X) && !core.IsNilConst(bo.Y) {
					compared = true
				}
			}
		}
		r.Check(compared, key, lk.Pos(), "the mapped type is compared with the type being reduced",
			"typeMapReducer looks a name up in the type map and ignores the mapped type (a presence test by name): a different type that has the same name is taken for already reduced, so the duplicate name is accepted without error and the types only it refers to never enter the type map")
	})
	if n == 0 {
		r.Bad("typeMapReducer/lookups", fn.Pos(), "typeMapReducer never consults the type map: no uniqueness check of named types")
	}
}

// reflectIsNil: an interface holding a nil pointer (ast.Stmt(nil) stored in an ast.Node).
func reflectIsNil(n ast.Node) bool {
	switch x := n.(type) {
	case ast.Stmt:
		return x == nil
	case ast.Expr:
		return x == nil
	}
	return n == nil
}

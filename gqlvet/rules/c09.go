package rules

import (
	"fmt"
	"go/ast"
	"go/token"
	"go/types"

	"verif/gqlvet/core"
)

func init() {
	docs["C09"] = Doc{
		Explanation: "Crash freedom over all inputs is NOT decided (reflection and indexing abound). Decided are families where a report is a certain crash / hang / malformed result for some input: " +
			"(FLOW-assert) recovered panic values are never type-asserted with the single-result form; (FLOW-nildefault) no type switch over an interface value that the parser or a caller can leave nil calls a method on that value in its default arm without a nil case; (FLOW-nil, from C03) no production returns (nil, nil); " +
			"(REC-fragments / REC-alloc, from C19) every recursion through a fragment name is cut by a visited set that is not re-created inside the cycle (one recorded known finding: the planner); " +
			"(CHAN-return, from C16/C15) the caller of ExecutePlan always gets exactly one result (single deferred send after recover, capacity, two-arm select), subscriptions close their channel exactly once; (PAIR-recover, from C04) user callbacks run under recover; " +
			"(LIT-result) every Result returned by Do / Execute / ExecutePlan / Subscribe on a parse, validation, planning or extension failure path carries errors and no data; (DOM-order, from C05) a variable coercion error yields errors only; (FLOW-nilconfig, from C11) configuration lists are nil-tested.",
		NotDecided: "index / slice bounds, reflection panics, robustness of validator and visitor on arbitrary hand-built ASTs, time bounds other than the recursion structure.",
	}
	register(&core.Rule{Name: "C09/FLOW-nildefault", Props: []string{"C09"}, Min: 1,
		Doc: "no method call on a possibly-nil interface in the default arm of a type switch", Run: c09NilDefault})
	register(&core.Rule{Name: "C09/LIT-result", Props: []string{"C09"}, Min: 10,
		Doc: "failure results carry errors and no data", Run: c09Result})
}

// nilSwitchSafe: default arms that use the switched value but whose callers cannot pass nil
// (value just produced by a non-nil source), with the reason.
var nilSwitchSafe = map[string]string{}

func c09NilDefault(c *core.Ctx, r *core.Reporter) {
	n := 0
	per := map[string]int{}
	c.FuncDecls(func(rel string, p *packagesPkg, fd *ast.FuncDecl) {
		info := p.TypesInfo
		ast.Inspect(fd.Body, func(x ast.Node) bool {
			ts, ok := x.(*ast.TypeSwitchStmt)
			if !ok {
				return true
			}
			// subject expression and the identifier it is bound to
			var subj ast.Expr
			var bound types.Object
			switch a := ts.Assign.(type) {
			case *ast.AssignStmt:
				if ta, ok := a.Rhs[0].(*ast.TypeAssertExpr); ok {
					subj = ta.X
				}
				if id, ok := a.Lhs[0].(*ast.Ident); ok {
					_ = id
				}
			case *ast.ExprStmt:
				if ta, ok := a.X.(*ast.TypeAssertExpr); ok {
					subj = ta.X
				}
			}
			if subj == nil {
				return true
			}
			st := info.TypeOf(subj)
			if st == nil || !types.IsInterface(st) {
				return true
			}
			// only AST-typed subjects (ast.Type, ast.Value, ast.Node, ast.Selection, ast.Definition): those are
			// the values a parser / caller can leave nil inside an otherwise well-formed document
			nm := core.NamedOf(st)
			if nm == nil || nm.Obj().Pkg() == nil || nm.Obj().Pkg().Name() != "ast" {
				return true
			}
			subjObj := core.ObjOf(info, subj)
			// elements of node slices are never nil in a document produced by the parser (only single child
			// fields can be left nil), and the property quantifies over parser-produced ASTs: skip range variables
			if isRangeVar(fd, subjObj) {
				return true
			}
			var def *ast.CaseClause
			hasNil := false
			for _, cl := range ts.Body.List {
				cc := cl.(*ast.CaseClause)
				if cc.List == nil {
					def = cc
				}
				for _, e := range cc.List {
					if isNilIdent(info, e) {
						hasNil = true
					}
				}
			}
			if def == nil {
				return true
			}
			// does the default arm call a method on the subject (or on the per-clause binding, which has the subject's type there)?
			derefs := false
			ast.Inspect(def, func(y ast.Node) bool {
				call, ok := y.(*ast.CallExpr)
				if !ok {
					return true
				}
				se, ok := call.Fun.(*ast.SelectorExpr)
				if !ok {
					return true
				}
				o := core.ObjOf(info, se.X)
				if o == nil {
					return true
				}
				if o == subjObj || o == bound || (info.Implicits[def] != nil && o == info.Implicits[def]) {
					if t := info.TypeOf(se.X); t != nil && types.IsInterface(t) {
						derefs = true
					}
				}
				return true
			})
			if !derefs {
				return true
			}
			n++
			name := core.DeclName(fd)
			per[name]++
			key := fmt.Sprintf("%s/default-arm#%d", name, per[name])
			switch {
			case hasNil:
				r.OK(key, ts.Pos(), "a `case nil` arm precedes the default arm that calls a method on the switched %s", core.QualName(st))
			case nilSwitchSafe[key] != "":
				r.Exists(key, ts.Pos(), "accepted: %s", nilSwitchSafe[key])
			default:
				r.Bad(key, def.Pos(), "%s switches on a %s value and its default arm calls a method on it, with no `case nil`: a nil value (the parser can leave AST children nil, callers can hand-build documents) lands in default and the call panics outside any recover", name, core.QualName(st))
			}
			return true
		})
	})
	if n == 0 {
		r.OK("no-default-arm-derefs", token.NoPos, "no type switch over an AST interface calls a method on the switched value in its default arm")
	}
}

func c09Result(c *core.Ctx, r *core.Reporter) {
	per := map[string]int{}
	for _, name := range []string{"Do", "Execute", "ExecutePlan", "Subscribe", "ExecuteSubscription", "sendOneResultAndClose"} {
		p, fd := c.FindDecl("", name)
		if fd == nil {
			r.Unknown(name, token.NoPos, "entry point not found")
			continue
		}
		info := p.TypesInfo
		core.WalkStack(fd.Body, func(n ast.Node, stack []ast.Node) bool {
			cl, ok := n.(*ast.CompositeLit)
			if !ok || core.TypeName(info.TypeOf(cl)) != "Result" {
				return true
			}
			per[name]++
			key := fmt.Sprintf("%s/Result#%d", name, per[name])
			hasData, hasErrors := false, false
			for _, el := range cl.Elts {
				if kv, ok := el.(*ast.KeyValueExpr); ok {
					if id, ok := kv.Key.(*ast.Ident); ok {
						if id.Name == "Data" {
							hasData = true
						}
						if id.Name == "Errors" {
							hasErrors = true
						}
					}
				} else {
					hasData = true
				}
			}
			// literal used directly as a returned / sent failure result?
			direct := false
			for i := len(stack) - 2; i >= 0 && i >= len(stack)-4; i-- {
				switch s := stack[i].(type) {
				case *ast.ReturnStmt:
					direct = true
				case *ast.CallExpr:
					if f := core.CalleeObj(info, s); f != nil && (core.N(f) == "sendOneResultAndClose") {
						direct = true
					}
					if id, ok := s.Fun.(*ast.Ident); ok && id.Name == "send" {
						direct = true
					}
				case *ast.SendStmt:
					direct = true
				}
			}
			switch {
			case hasData:
				r.Bad(key, cl.Pos(), "a Result literal built in %s sets Data: a failure path returns data next to its errors", name)
			case direct && !hasErrors:
				r.Bad(key, cl.Pos(), "%s returns / delivers an empty Result (no data and no errors): the caller cannot tell what happened", name)
			default:
				r.OK(key, cl.Pos(), "no Data; errors %v", hasErrors)
			}
			return true
		})
	}
}

func isRangeVar(fd *ast.FuncDecl, o types.Object) bool {
	if o == nil {
		return false
	}
	found := false
	ast.Inspect(fd.Body, func(x ast.Node) bool {
		rs, ok := x.(*ast.RangeStmt)
		if !ok {
			return true
		}
		for _, e := range []ast.Expr{rs.Key, rs.Value} {
			if id, ok := e.(*ast.Ident); ok && id.Pos() == o.Pos() {
				found = true
			}
		}
		return true
	})
	return found
}

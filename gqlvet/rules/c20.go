package rules

import (
	"fmt"
	"go/token"
	"sort"
	"strings"

	"golang.org/x/tools/go/ssa"

	"verif/gqlvet/core"
)

func init() {
	docs["C20"] = Doc{
		Explanation: "(LIT-info) every ResolveInfo / ResolveParams / IsTypeOfParams / ResolveTypeParams / executionContext built on the execution path sets every field of the struct, and each field's value has the tabled provenance class: per-plan data (field name, occurrence ASTs, declared return type, operation, fragments, schema) comes from the plan / field plan, per-call data (path, source, runtime parent type, root value, coerced variables, context, argument map) comes from the frame's parameters, the execution context or a fresh map — a per-call field fed from the plan, or vice versa, is a violation; " +
			"(FLOW-parent) every call of executePlannedSelection receives the runtime parent type (resolved runtime type for abstract fields, the *Object return type for object fields, the plan's root type at the top) and the value being completed as source; list elements are completed individually with their own index path; " +
			"(DOM-once) exactly one resolvePlannedField call per planned field per loop iteration, exactly one resolver invocation per resolvePlannedField, neither inside an inner loop; " +
			"(FLOW-alias, shared C06/FLOW-percall) plan-owned argument maps are copied before reaching a resolver.",
		NotDecided: "'exactly once unless nulled' as a run-time count; contents of FieldASTs for merged occurrences (C01/FLOW-pred); the shallow copy of static arguments still shares nested maps/slices between executions (recorded as a known finding).",
	}
	register(&core.Rule{Name: "C20/LIT-info", Props: []string{"C20", "C06"}, Min: 30,
		Doc: "parameter structs complete, each field with its tabled per-plan / per-call provenance", Run: c20Lit})
	register(&core.Rule{Name: "C20/FLOW-parent", Props: []string{"C20", "C01", "C18"}, Min: 8,
		Doc: "children receive the runtime parent type and their own element as source", Run: c20Parent})
	register(&core.Rule{Name: "C20/DOM-once", Props: []string{"C20", "C13"}, Min: 3,
		Doc: "one resolvePlannedField per field per iteration; one resolver call per resolvePlannedField", Run: c20Once})
	register(&core.Rule{Name: "C20/FLOW-alias", Props: []string{"C20"}, Min: 1,
		Doc: "the per-call copy of static arguments must not share nested reference values", Run: c20Alias})
}

type litSpec struct {
	fn     string              // function (root name) that builds the literal; "$" suffix selects nested literal functions too
	typ    string              // struct type
	fields map[string][]string // field -> allowed provenance classes
}

var execLits = []litSpec{
	{"resolvePlannedField", "ResolveInfo", map[string][]string{
		"FieldName":      {"field:fieldPlan.fieldName"},
		"FieldASTs":      {"field:fieldPlan.fieldASTs"},
		"Path":           {"param:ResponsePath"},
		"ReturnType":     {"field:fieldPlan.returnType"},
		"ParentType":     {"param:Object"},
		"Schema":         {"field:executionContext.Schema"},
		"Fragments":      {"field:executionContext.Fragments"},
		"RootValue":      {"field:executionContext.Root"},
		"Operation":      {"field:executionContext.Operation"},
		"VariableValues": {"field:executionContext.VariableValues"},
	}},
	{"resolvePlannedField", "ResolveParams", map[string][]string{
		"Source":  {"param:interface{}"},
		"Args":    {"call:getArgumentValues", "make"},
		"Info":    {"local:ResolveInfo"},
		"Context": {"field:executionContext.Context"},
	}},
	{"completePlannedObjectValue", "IsTypeOfParams", map[string][]string{
		"Value":   {"param:interface{}"},
		"Info":    {"param:ResolveInfo"},
		"Context": {"field:executionContext.Context"},
	}},
	{"completePlannedAbstractValue", "ResolveTypeParams", map[string][]string{
		"Value":   {"param:interface{}"},
		"Info":    {"param:ResolveInfo"},
		"Context": {"field:executionContext.Context"},
	}},
	{"defaultResolveTypeFn", "IsTypeOfParams", map[string][]string{
		"Value":   {"field:ResolveTypeParams.Value"},
		"Info":    {"field:ResolveTypeParams.Info"},
		"Context": {"field:ResolveTypeParams.Context"},
	}},
	{"ExecutePlan", "executionContext", map[string][]string{
		"Schema":         {"*field:Plan.schema"},
		"Fragments":      {"field:Plan.fragments"},
		"Root":           {"field:ExecuteParams.Root"},
		"Operation":      {"field:Plan.operation"},
		"VariableValues": {"call:getVariableValues"},
		"Context":        {"field:ExecuteParams.Context", "call:context.Background"},
		"plan":           {"param:Plan"},
		"Errors":         nil, // accumulated during execution; zero at construction
	}},
	{"ExecuteSubscription", "ResolveInfo", nil},
	{"ExecuteSubscription", "ResolveParams", nil},
}

func c20Lit(c *core.Ctx, r *core.Reporter) {
	for _, spec := range execLits {
		root := c.Func("", spec.fn)
		if root == nil {
			r.Unknown(spec.fn+"/"+spec.typ, token.NoPos, "function %s not found", spec.fn)
			continue
		}
		named := c.Named("", spec.typ)
		if named == nil {
			r.Unknown(spec.fn+"/"+spec.typ, token.NoPos, "type %s not found", spec.typ)
			continue
		}
		nlit := 0
		for _, fn := range c.Region(root) {
			lits := core.LiteralStores(fn, spec.typ)
			var allocs []*ssa.Alloc
			for al := range lits {
				allocs = append(allocs, al)
			}
			sort.Slice(allocs, func(i, j int) bool { return allocs[i].Pos() < allocs[j].Pos() })
			for _, al := range allocs {
				// only composite literals (complit) and `new(T)` with field stores; skip copies of whole values
				nlit++
				stores := lits[al]
				for _, f := range core.Fields(named) {
					key := fmt.Sprintf("%s/%s.%s", spec.fn, spec.typ, core.N(f))
					if nlit > 1 {
						key = fmt.Sprintf("%s/%s#%d.%s", spec.fn, spec.typ, nlit, core.N(f))
					}
					allowed, tabled := spec.fields[core.N(f)]
					if spec.fields != nil && tabled && allowed == nil {
						r.Exists(key, al.Pos(), "field deliberately left zero at construction")
						continue
					}
					vals := stores[core.N(f)]
					if len(vals) == 0 {
						r.Bad(key, al.Pos(), "%s literal in %s does not set field %s: the callback receives a zero value there", spec.typ, spec.fn, core.N(f))
						continue
					}
					if spec.fields == nil {
						r.Exists(key, al.Pos(), "field set")
						continue
					}
					if !tabled {
						r.Unknown(key, al.Pos(), "field %s of %s has no tabled provenance (new field: extend the table after reading the code)", core.N(f), spec.typ)
						continue
					}
					var all []string
					okAll := true
					for _, v := range vals {
						ok, bad := core.OnlyClasses(v, allowed...)
						all = append(all, core.Classes(v)...)
						if !ok {
							okAll = false
							_ = bad
						}
					}
					if okAll {
						r.OK(key, al.Pos(), "provenance %v within the tabled class %v", all, allowed)
					} else {
						r.Bad(key, al.Pos(), "%s.%s built in %s has provenance %v, expected only %v: a per-plan value is fed from the call or a per-call value from the plan/another frame", spec.typ, core.N(f), spec.fn, all, allowed)
					}
				}
			}
		}
		if nlit == 0 {
			r.Unknown(spec.fn+"/"+spec.typ, root.Pos(), "no %s literal found in %s", spec.typ, spec.fn)
		}
	}
}

type argSpec struct {
	caller  string
	callee  string
	arg     int
	what    string
	allowed []string
}

func c20Parent(c *core.Ctx, r *core.Reporter) {
	specs := []argSpec{
		{"ExecutePlan", "executePlannedSelection", 1, "plan", []string{"field:Plan.root"}},
		{"ExecutePlan", "executePlannedSelection", 2, "source", []string{"field:ExecuteParams.Root"}},
		{"ExecutePlan", "executePlannedSelection", 3, "parentType", []string{"field:Plan.rootType"}},
		{"ExecutePlan", "executePlannedSelection", 4, "path", []string{"nil"}},
		{"completePlannedObjectValue", "executePlannedSelection", 1, "plan", []string{"field:fieldPlan.sub"}},
		{"completePlannedObjectValue", "executePlannedSelection", 2, "source", []string{"param:interface{}"}},
		{"completePlannedObjectValue", "executePlannedSelection", 3, "parentType", []string{"param:Object"}},
		{"completePlannedObjectValue", "executePlannedSelection", 4, "path", []string{"param:ResponsePath"}},
		{"completePlannedAbstractValue", "executePlannedSelection", 1, "plan", []string{"call:Plan.abstractAlternative"}},
		{"completePlannedAbstractValue", "executePlannedSelection", 2, "source", []string{"param:interface{}"}},
		{"completePlannedAbstractValue", "executePlannedSelection", 3, "parentType", []string{"dyn:ResolveTypeFn", "call:defaultResolveTypeFn"}},
		{"completePlannedAbstractValue", "executePlannedSelection", 4, "path", []string{"param:ResponsePath"}},
		{"completePlannedAbstractValue", "Plan.abstractAlternative", 1, "fieldPlan", []string{"param:fieldPlan"}},
		{"completePlannedAbstractValue", "Plan.abstractAlternative", 2, "runtimeType", []string{"dyn:ResolveTypeFn", "call:defaultResolveTypeFn"}},
		{"completePlannedListValue", "completePlannedValueCatchingError", 1, "itemType", []string{"field:List.OfType"}},
		{"completePlannedListValue", "completePlannedValueCatchingError", 4, "path", []string{"call:ResponsePath.WithKey"}},
		{"completePlannedListValue", "completePlannedValueCatchingError", 5, "element", []string{"call:reflect.Value.Interface"}},
		{"executePlannedSelection", "resolvePlannedField", 1, "parentType", []string{"param:Object"}},
		{"executePlannedSelection", "resolvePlannedField", 2, "source", []string{"param:interface{}", "make"}},
		{"executePlannedSelection", "resolvePlannedField", 3, "fieldPlan", []string{"range", "index(field:selectionPlan.fields)"}},
		{"executePlannedSelection", "resolvePlannedField", 4, "path", []string{"call:ResponsePath.WithKey"}},
	}
	for _, sp := range specs {
		caller := c.Func("", sp.caller)
		callee := c.Func("", sp.callee)
		key := fmt.Sprintf("%s->%s/%s", sp.caller, sp.callee, sp.what)
		if caller == nil || callee == nil {
			r.Unknown(key, token.NoPos, "caller or callee not found")
			continue
		}
		var sites []ssa.CallInstruction
		for _, fn := range c.Region(caller) {
			sites = append(sites, core.CallsTo(fn, callee, false)...)
		}
		if len(sites) != 1 {
			r.Bad(key, caller.Pos(), "expected exactly one call of %s in %s, found %d", sp.callee, sp.caller, len(sites))
			continue
		}
		args := sites[0].Common().Args
		argIdx, found := c.ArgIndex(callee, sp.arg) // follows the parameter when the signature was reordered
		if !found || argIdx >= len(args) {
			r.Unknown(key, sites[0].Pos(), "%s no longer has the parameter this obligation is about (signature changed): re-confirm the instance", sp.callee)
			continue
		}
		sp.arg = argIdx
		allowed := sp.allowed
		if nonNilGuarded(sites[0], args[sp.arg]) {
			allowed = append(append([]string{}, allowed...), "nil") // `var x *T; ...; if x != nil { f(x) }`
		}
		ok, _ := core.OnlyClasses(args[sp.arg], allowed...)
		if ok {
			r.OK(key, sites[0].Pos(), "argument provenance %v", core.Classes(args[sp.arg]))
		} else {
			r.Bad(key, sites[0].Pos(), "%s passes %s with provenance %v to %s, expected only %v", sp.caller, sp.what, core.Classes(args[sp.arg]), sp.callee, sp.allowed)
		}
	}
	// every path extension starts from the path of the frame that makes it: the function's own path parameter (inside a
	// nested list the running path already ends in the outer index; Info.Path is the field's path and lacks it)
	if wkFn := c.Func("", "ResponsePath.WithKey"); wkFn != nil {
		perHost := map[string]int{}
		for _, fn := range c.LibFuncs() {
			for _, site := range core.CallsTo(fn, wkFn, false) {
				host := core.FuncKey(fn)
				perHost[host]++
				key := host + "/path-extends-frame-path"
				if perHost[host] > 1 {
					key += fmt.Sprintf("#%d", perHost[host])
				}
				recv := site.Common().Args[0]
				ok, _ := core.OnlyClasses(recv, "param:ResponsePath")
				if ok {
					r.OK(key, site.Pos(), "the extended path is the frame's own path parameter")
				} else {
					r.Bad(key, site.Pos(), "%s extends a path with provenance %v instead of its own path parameter: below a nested list (or any frame whose running path differs from the field's path) resolvers and errors are told a path that lacks the enclosing indices", host, core.Classes(recv))
				}
			}
		}
	}
	// abstract: the type planned and the type executed under are the same value
	if fn := c.Func("", "completePlannedAbstractValue"); fn != nil {
		a := core.CallsTo(fn, c.Func("", "Plan.abstractAlternative"), false)
		e := core.CallsTo(fn, c.Func("", "executePlannedSelection"), false)
		if len(a) == 1 && len(e) == 1 {
			r.Check(a[0].Common().Args[2] == e[0].Common().Args[3], "completePlannedAbstractValue/same-runtime-type", e[0].Pos(),
				"the sub-plan is planned for and executed under the same resolved runtime type",
				"the runtime type used to pick the sub-plan differs from the parent type handed to the children")
		}
	}
	// list: path index and element index are the same loop variable
	if fn := c.Func("", "completePlannedListValue"); fn != nil {
		wk := core.CallsTo(fn, c.Func("", "ResponsePath.WithKey"), false)
		var idxCall *ssa.Call
		core.Instrs(fn, func(in ssa.Instruction) {
			if call, ok := in.(*ssa.Call); ok {
				if cal := call.Call.StaticCallee(); cal != nil && core.N(cal) == "Index" && cal.Pkg != nil && cal.Pkg.Pkg.Path() == "reflect" {
					idxCall = call
				}
			}
		})
		ok := false
		if len(wk) == 1 && idxCall != nil {
			k := core.Unwrap(wk[0].Common().Args[1])
			i := idxCall.Call.Args[len(idxCall.Call.Args)-1]
			ok = k == i
			if _, isPhi := i.(*ssa.Phi); !isPhi {
				ok = false
			}
		}
		r.Check(ok, "completePlannedListValue/index-path", fn.Pos(),
			"the element completed and the index in its path are the same loop variable",
			"the list element's path index is not the loop variable used to fetch the element")
	}
}

func c20Once(c *core.Ctx, r *core.Reporter) {
	eps := c.Func("", "executePlannedSelection")
	rpf := c.Func("", "resolvePlannedField")
	if eps == nil || rpf == nil {
		r.Unknown("executePlannedSelection", token.NoPos, "not found")
		return
	}
	sites := core.CallsTo(eps, rpf, true)
	if len(sites) != 1 {
		r.Bad("executePlannedSelection/one-resolve-call", eps.Pos(), "expected exactly one resolvePlannedField call site, found %d: a field would be resolved more than once (or never)", len(sites))
	} else {
		n := 0
		var hdr *ssa.BasicBlock
		for h, l := range core.Loops(eps) {
			if l[sites[0].Block()] {
				n++
				hdr = h
			}
		}
		r.Check(n == 1 && sites[0].Parent() == eps, "executePlannedSelection/one-resolve-call", sites[0].Pos(),
			"single call site inside exactly one loop", fmt.Sprintf("the resolvePlannedField call lies in %d loops (or in a nested literal): fields are resolved several times or not per planned field", n))
		// the loop ranges over selectionPlan.fields (a slice): ordered
		if hdr != nil {
			okSlice := false
			core.Instrs(eps, func(in ssa.Instruction) {
				if ia, ok := in.(*ssa.IndexAddr); ok {
					if core.HasClass(ia.X, "field:selectionPlan.fields") {
						okSlice = true
					}
				}
				if idx, ok := in.(*ssa.Index); ok && core.HasClass(idx.X, "field:selectionPlan.fields") {
					okSlice = true
				}
			})
			isMapRange := false
			core.Instrs(eps, func(in ssa.Instruction) {
				if rg, ok := in.(*ssa.Range); ok {
					_ = rg
					isMapRange = true
				}
			})
			r.Check(okSlice && !isMapRange, "executePlannedSelection/ordered-slice", hdr.Instrs[0].Pos(),
				"fields are walked by indexing the plan's field slice (document order), no map iteration",
				"the field loop no longer walks selectionPlan.fields by index (or iterates a map): resolver start order is not document order")
			hasGo := false
			for _, f := range core.WithAnon(eps) {
				core.Instrs(f, func(in ssa.Instruction) {
					if _, ok := in.(*ssa.Go); ok {
						hasGo = true
					}
				})
			}
			r.Check(!hasGo, "executePlannedSelection/no-goroutine", eps.Pos(), "no goroutine is started in the field loop",
				"a goroutine is started while walking the fields: top-level (mutation) fields no longer run one after another")
		}
	}
	// one resolver invocation
	var calls []ssa.CallInstruction
	for _, g := range c.Region(rpf) { // the function or the phases it has been split into
		for _, ci := range core.CallSites(g) {
			if core.UserCallback(ci) == "FieldResolveFn" {
				calls = append(calls, ci)
			}
		}
	}
	if len(calls) != 1 {
		r.Bad("resolvePlannedField/one-resolver-call", rpf.Pos(), "expected exactly one FieldResolveFn invocation, found %d", len(calls))
		return
	}
	r.Check(!core.InAnyLoop(calls[0].Block()), "resolvePlannedField/one-resolver-call", calls[0].Pos(),
		"single resolver invocation, not in a loop", "the resolver is invoked inside a loop")
}

// c20Alias: the per-call copy loop of static args assigns the element values as they are
// (shallow). Values of reference kind pre-coerced at plan time are therefore shared.
func c20Alias(c *core.Ctx, r *core.Reporter) {
	fn := c.Func("", "resolvePlannedField")
	if fn == nil {
		r.Unknown("resolvePlannedField", token.NoPos, "not found")
		return
	}
	found := false
	c.RegionInstrs(fn, func(in ssa.Instruction) {
		mu, ok := in.(*ssa.MapUpdate)
		if !ok {
			return
		}
		if !core.HasClass(mu.Map, "make") {
			return
		}
		// value comes straight from ranging over the plan's static map?
		if ex, ok := mu.Value.(*ssa.Extract); ok {
			if nx, ok := ex.Tuple.(*ssa.Next); ok {
				if rg, ok := nx.Iter.(*ssa.Range); ok && core.HasClass(rg.X, "field:argPlan.static") {
					found = true
					r.Bad("resolvePlannedField/static-args-shallow-copy", in.Pos(),
						"the per-call copy of the plan's static argument map is shallow: argument values of reference kind (input-object maps, lists) coerced once at plan time are shared by every execution, so a resolver that mutates a nested argument value changes the arguments of later requests")
				}
			}
		}
	})
	if !found {
		// either deep-copied or no static path at all
		ok := false
		c.RegionInstrs(fn, func(in ssa.Instruction) {
			if u, isU := in.(*ssa.UnOp); isU {
				if f := core.FieldOf(u.X); f != nil && core.N(f) == "static" {
					ok = true
				}
			}
		})
		if ok {
			r.OK("resolvePlannedField/static-args-shallow-copy", fn.Pos(), "static arguments are not copied element-by-element from the plan's map (deep copy or re-coercion)")
		} else {
			r.Unknown("resolvePlannedField/static-args-shallow-copy", fn.Pos(), "no use of argPlan.static found (anchor moved)")
		}
	}
	_ = strings.Join
}

func init() {
	register(&core.Rule{Name: "C20/PAIR-occurrence", Props: []string{"C20", "C01"}, Min: 1,
		Doc: "every included occurrence of a field is recorded in the planned field's occurrence list", Run: c20Occurrence})
	register(&core.Rule{Name: "C01/FLOW-mergedsub", Props: []string{"C01", "C20"}, Min: 2,
		Doc: "the sub-selection of a merged field is planned from all of its occurrences, never from one picked by a constant index", Run: c01MergedSub})
}

// c20Occurrence: in Plan.collectInto, once a field selection has passed its @skip/@include test, every path back to the
// selection loop stores into some fieldPlan.fieldASTs (append to the merged entry, or a new entry holding it).
// A path that skips the store (only composite repeats kept, say) loses occurrences: ResolveInfo.FieldASTs and the
// locations of field errors no longer list every place the field is selected.
func c20Occurrence(c *core.Ctx, r *core.Reporter) {
	fn := c.Func("", "Plan.collectInto")
	pd := c.Func("", "planDirectives")
	if fn == nil || pd == nil {
		r.Unknown("Plan.collectInto/Field/occurrence-recorded", token.NoPos, "not found")
		return
	}
	// the planDirectives call of the Field arm: its argument is the Directives field of an *ast.Field. The arm may have
	// been extracted into a helper of collectInto: the analysis then runs inside the helper, where going back to the
	// selection loop is a return.
	var start *ssa.BasicBlock
	for _, site := range c.RegionCallsTo(fn, pd) {
		args := site.Common().Args
		if len(args) == 0 || !core.HasClass(args[0], "field:Field.Directives") {
			continue
		}
		call, _ := site.(*ssa.Call)
		if call == nil {
			continue
		}
		for _, ref := range *call.Referrers() {
			ex, ok := ref.(*ssa.Extract)
			if !ok || ex.Index != 1 {
				continue
			}
			for _, u := range *ex.Referrers() {
				if iff, ok := u.(*ssa.If); ok {
					start = iff.Block().Succs[1] // not alwaysSkip
				}
			}
		}
	}
	if start == nil {
		r.Unknown("Plan.collectInto/Field/occurrence-recorded", fn.Pos(), "could not find the alwaysSkip test of the Field arm")
		return
	}
	fn = start.Parent()
	rec := map[*ssa.BasicBlock]bool{}
	core.Instrs(fn, func(in ssa.Instruction) {
		if st, ok := in.(*ssa.Store); ok {
			if f := core.FieldOf(st.Addr); f != nil && core.N(f) == "fieldASTs" {
				rec[st.Block()] = true
			}
		}
	})
	if len(rec) == 0 {
		r.Bad("Plan.collectInto/Field/occurrence-recorded", fn.Pos(), "collectInto never stores into fieldPlan.fieldASTs")
		return
	}
	loops := core.Loops(fn)
	var leak *ssa.BasicBlock
	if !rec[start] {
		for b := range core.ReachableAvoiding(start, rec) {
			if b == start {
				continue
			}
			if _, isHeader := loops[b]; isHeader {
				leak = b
			}
			if len(b.Instrs) > 0 {
				if _, isRet := b.Instrs[len(b.Instrs)-1].(*ssa.Return); isRet {
					leak = b
				}
			}
		}
	}
	r.Check(leak == nil, "Plan.collectInto/Field/occurrence-recorded", start.Instrs[0].Pos(),
		"every path from the include test of a field selection back to the selection loop stores into fieldASTs",
		"collectInto has a path on which an included field selection is not added to any fieldPlan.fieldASTs: a field selected several times under one response key (directly and through fragments) reaches its resolver with only some of its occurrences in ResolveInfo.FieldASTs, and its field errors carry only those locations")
}

// c01MergedSub: wherever the planner plans a sub-selection, the selection set comes either from the operation or from a
// range over all occurrences of the merged field. A selection set taken from fieldASTs[<constant>] plans one
// occurrence's children only: fields selected under the other occurrences (`a { x } ... { a { y } }`) are missing
// from the response.
func c01MergedSub(c *core.Ctx, r *core.Reporter) {
	targets := map[string]bool{"Plan.planSelectionSet": true, "Plan.collectInto": true}
	n := 0
	per := map[string]int{}
	for _, fn := range c.LibFuncs() {
		for _, site := range core.CallSites(fn) {
			callee := site.Common().StaticCallee()
			if callee == nil || !targets[fnKey(callee)] {
				continue
			}
			// the *ast.SelectionSet argument
			for _, a := range site.Common().Args {
				if core.TypeName(a.Type()) != "SelectionSet" {
					continue
				}
				n++
				name := fnKey(fn)
				per[name]++
				key := fmt.Sprintf("%s->%s#%d", name, core.N(callee), per[name])
				if idx := constIndexedOccurrence(a); idx != "" {
					r.Bad(key, site.Pos(), "%s plans a sub-selection from %s, one occurrence picked by a constant index, instead of from all occurrences of the merged field: children selected only under the other occurrences of the same response key are dropped from the response", name, idx)
				} else {
					r.OK(key, site.Pos(), "selection set: %s", core.Join(core.Classes(a)))
				}
			}
		}
	}
	if n == 0 {
		r.Unknown("planner-sub-selections", token.NoPos, "no planSelectionSet / collectInto call found")
	}
}

// constIndexedOccurrence: v is X[<const>].SelectionSet with X a []*ast.Field.
func constIndexedOccurrence(v ssa.Value) string {
	u, ok := v.(*ssa.UnOp)
	if !ok || u.Op != token.MUL {
		return ""
	}
	fa, ok := u.X.(*ssa.FieldAddr)
	if !ok {
		return ""
	}
	if f := core.FieldOf(fa); f == nil || core.N(f) != "SelectionSet" {
		return ""
	}
	base, ok := fa.X.(*ssa.UnOp)
	if !ok || base.Op != token.MUL {
		return ""
	}
	ia, ok := base.X.(*ssa.IndexAddr)
	if !ok {
		return ""
	}
	if i, isConst := core.ConstInt(ia.Index); isConst {
		return fmt.Sprintf("%s[%d].SelectionSet", core.Join(core.Classes(ia.X)), i)
	}
	return ""
}

// nonNilGuarded: the call is dominated by the true branch of `v != nil` (or the false branch of `v == nil`).
func nonNilGuarded(site ssa.CallInstruction, v ssa.Value) bool {
	fn := site.Parent()
	guarded := false
	core.Instrs(fn, func(in ssa.Instruction) {
		iff, ok := in.(*ssa.If)
		if !ok {
			return
		}
		bo, ok := iff.Cond.(*ssa.BinOp)
		if !ok || bo.X != v || !core.IsNilConst(bo.Y) {
			return
		}
		var succ *ssa.BasicBlock
		switch bo.Op {
		case token.NEQ:
			succ = iff.Block().Succs[0]
		case token.EQL:
			succ = iff.Block().Succs[1]
		default:
			return
		}
		if succ.Dominates(site.Block()) {
			guarded = true
		}
	})
	return guarded
}

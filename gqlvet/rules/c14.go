package rules

import (
	"fmt"
	"go/ast"
	"go/constant"
	"go/token"
	"go/types"

	"golang.org/x/tools/go/ssa"
	"sort"
	"strings"

	"verif/gqlvet/core"
)

func init() {
	docs["C14"] = Doc{
		Explanation: "The 240-line iterative loop's stack discipline (exactly-once, nesting, key/parent/path/ancestors values, break immediacy) is behavioural and NOT decided. Decided: " +
			"(TAB-keys) the child table QueryDocumentKeys matches the AST: every key is the name of an ast struct type, every listed child name is a field of that struct (a misspelt name is silently skipped by reflection), every field whose type is a node, a node interface or a slice of those is listed (otherwise a reachable node is never visited), and the listed order is the declaration order of those fields in the struct, which is the order the parser fills them in (document order); " +
			"(PAIR-typeinfo) per node kind, TypeInfo.Enter (switching on Go type) pushes on every path exactly the stacks that TypeInfo.Leave (switching on kind string) pops, and sets exactly the scalars it clears; " +
			"(PAIR-wrap) VisitWithTypeInfo leaves the node for every enter action that makes the main loop omit the node's leave (skip, break, update), VisitInParallel's enter arm handles skip/break/update, its leave arm break/update, and a skip is released only on identity with the skipped node; " +
			"(DOM-noedit) in Visit every write to a node or node slice is inside the isEdited arm and edits are only recorded for ActionUpdate (or while propagating existing edits), so a traversal requesting no edits cannot modify the tree.",
		NotDecided: "exactly-once, nesting, key/parent/path/ancestors values, break immediacy.",
	}
	register(&core.Rule{Name: "C14/TAB-keys", Props: []string{"C14"}, Min: 60,
		Doc: "child-key table matches the ast structs: names, completeness, order", Run: c14Keys})
	register(&core.Rule{Name: "C14/PAIR-typeinfo", Props: []string{"C14", "C02"}, Min: 10,
		Doc: "TypeInfo pushes and pops agree per node kind", Run: c14TypeInfo})
	register(&core.Rule{Name: "C14/PAIR-wrap", Props: []string{"C14"}, Min: 5,
		Doc: "visitor wrappers keep enter/leave balanced under every action", Run: c14Wrap})
	register(&core.Rule{Name: "C14/DOM-noedit", Props: []string{"C14", "C08"}, Min: 4,
		Doc: "all node writes in Visit are dominated by isEdited; edits recorded only on ActionUpdate", Run: c14NoEdit})
}

// keyTable extracts QueryDocumentKeys: kind -> child names, with positions.
func keyTable(c *core.Ctx) (map[string][]string, map[string]token.Pos, token.Pos) {
	p := c.Pkg("language/visitor")
	out := map[string][]string{}
	pos := map[string]token.Pos{}
	var at token.Pos
	for _, f := range p.Syntax {
		for _, d := range f.Decls {
			gd, ok := d.(*ast.GenDecl)
			if !ok {
				continue
			}
			for _, sp := range gd.Specs {
				vs, ok := sp.(*ast.ValueSpec)
				if !ok || len(vs.Names) != 1 || vs.Names[0].Name != "QueryDocumentKeys" || len(vs.Values) != 1 {
					continue
				}
				cl, ok := vs.Values[0].(*ast.CompositeLit)
				if !ok {
					continue
				}
				at = cl.Pos()
				for _, el := range cl.Elts {
					kv, ok := el.(*ast.KeyValueExpr)
					if !ok {
						continue
					}
					k := constString(p.TypesInfo, kv.Key)
					var names []string
					if v, ok := kv.Value.(*ast.CompositeLit); ok {
						for _, e := range v.Elts {
							names = append(names, constString(p.TypesInfo, e))
						}
					}
					out[k] = names
					pos[k] = kv.Pos()
				}
			}
		}
	}
	return out, pos, at
}

func constString(info *types.Info, e ast.Expr) string {
	if tv, ok := info.Types[e]; ok && tv.Value != nil && tv.Value.Kind() == constant.String {
		return constant.StringVal(tv.Value)
	}
	return ""
}

// isNodeish: *ast.X (Node implementer), an ast interface whose declared implementers are nodes, or slices of those.
func isNodeish(c *core.Ctx, t types.Type) bool {
	if sl, ok := t.(*types.Slice); ok {
		t = sl.Elem()
	}
	n := core.NamedOf(t)
	if n == nil || n.Obj().Pkg() == nil || n.Obj().Pkg().Name() != "ast" {
		return false
	}
	if core.N(n.Obj()) == "Location" {
		return false
	}
	nodeIface := c.Named("language/ast", "Node").Underlying().(*types.Interface)
	if types.IsInterface(n) {
		// interface: nodeish if it has GetKind (all node interfaces) or is Selection
		return types.Implements(n, nodeIface) || core.N(n.Obj()) == "Selection"
	}
	return types.Implements(types.NewPointer(n), nodeIface)
}

// keysExceptions: node-typed fields deliberately not in the child table.
var keysExceptions = map[string]string{
	"FragmentDefinition.VariableDefinitions": "never produced by this grammar (experimental fragment variables are not parsed)",
}

func c14Keys(c *core.Ctx, r *core.Reporter) {
	tab, pos, at := keyTable(c)
	if len(tab) < 30 {
		r.Unknown("QueryDocumentKeys", token.NoPos, "child-key table not found (%d entries)", len(tab))
		return
	}
	var kindsSorted []string
	for k := range tab {
		kindsSorted = append(kindsSorted, k)
	}
	sort.Strings(kindsSorted)
	// every declared Node implementer has an entry
	for _, tn := range c.DeclaredImplementers("language/ast", "Node") {
		if _, ok := tab[tn]; !ok {
			r.Bad("kind/"+tn, at, "ast.%s is a node kind without an entry in QueryDocumentKeys: its children are never visited", tn)
		}
	}
	for _, k := range kindsSorted {
		n := c.Named("language/ast", k)
		if n == nil {
			r.Bad("kind/"+k, pos[k], "QueryDocumentKeys has an entry %q that is not an ast struct type", k)
			continue
		}
		fields := core.Fields(n)
		idx := map[string]int{}
		for i, f := range fields {
			idx[core.N(f)] = i
		}
		listed := map[string]bool{}
		last := -1
		okOrder := true
		for _, name := range tab[k] {
			listed[name] = true
			i, ok := idx[name]
			if !ok {
				r.Bad(k+"/"+name, pos[k], "child key %q is not a field of ast.%s: reflection silently skips it, so those children are never visited", name, k)
				continue
			}
			if !isNodeish(c, fields[i].Type()) {
				r.Bad(k+"/"+name, pos[k], "child key %q of %s names a field that holds no node", name, k)
				continue
			}
			if i < last {
				okOrder = false
			}
			last = i
			r.Exists(k+"/"+name, pos[k], "child key names a node-typed field")
		}
		r.Check(okOrder, k+"/order", pos[k], "children are listed in the struct's declaration order (= parse order)",
			"the children of "+k+" are not visited in the order the struct declares (and the parser fills) them: enter/leave events are out of document order")
		for _, f := range fields {
			if core.N(f) == "Kind" || core.N(f) == "Loc" || listed[core.N(f)] || !isNodeish(c, f.Type()) {
				continue
			}
			key := k + "." + core.N(f)
			if why, ok := keysExceptions[key]; ok {
				r.Exists(k+"/unlisted/"+core.N(f), pos[k], "excepted: %s", why)
				continue
			}
			r.Bad(k+"/unlisted/"+core.N(f), pos[k], "ast.%s.%s holds a node but is not in the child table: that node is reachable from the root and is never entered or left", k, core.N(f))
		}
	}
}

// pushPop evaluates, for a statement list, the multiset of TypeInfo stacks appended to (push=true) or
// re-sliced (push=false) on every path; ok=false when two paths disagree.
func pushPop(info *types.Info, list []ast.Stmt, push bool) (map[string]int, map[string]bool, bool) {
	counts := map[string]int{}
	scalars := map[string]bool{}
	ok := true
	add := func(m map[string]int) {
		for k, v := range m {
			counts[k] += v
		}
	}
	for _, st := range list {
		switch x := st.(type) {
		case *ast.AssignStmt:
			for i, lhs := range x.Lhs {
				se, isSel := lhs.(*ast.SelectorExpr)
				if !isSel {
					continue
				}
				s := info.Selections[se]
				if s == nil || core.TypeName(s.Recv()) != "TypeInfo" {
					continue
				}
				fname := core.N(s.Obj())
				var rhs ast.Expr
				if len(x.Rhs) == len(x.Lhs) {
					rhs = x.Rhs[i]
				}
				switch {
				case strings.HasSuffix(fname, "Stack"):
					if call, isCall := rhs.(*ast.CallExpr); isCall && core.IsBuiltinCall(info, call, "append") && push {
						counts[fname]++
					}
					if _, isSlice := rhs.(*ast.SliceExpr); isSlice && !push {
						counts[fname]++
					}
				default:
					scalars[fname] = true
				}
			}
		case *ast.IfStmt:
			tc, ts, tok := pushPop(info, x.Body.List, push)
			var ec map[string]int
			es := map[string]bool{}
			eok := true
			if x.Else != nil {
				switch e := x.Else.(type) {
				case *ast.BlockStmt:
					ec, es, eok = pushPop(info, e.List, push)
				case *ast.IfStmt:
					ec, es, eok = pushPop(info, []ast.Stmt{e}, push)
				}
			}
			if !tok || !eok {
				ok = false
			}
			if !push && x.Else == nil && isLenGuard(x.Cond) {
				// `if len(stack) > 0 { pop }` — defensive guard, counts as the pop
				add(tc)
			} else {
				if fmt.Sprint(tc) != fmt.Sprint(ec) && (len(tc) > 0 || len(ec) > 0) {
					ok = false
				}
				add(tc)
			}
			for k := range ts {
				scalars[k] = true
			}
			for k := range es {
				scalars[k] = true
			}
		case *ast.BlockStmt:
			bc, bs, bok := pushPop(info, x.List, push)
			add(bc)
			for k := range bs {
				scalars[k] = true
			}
			ok = ok && bok
		case *ast.RangeStmt, *ast.ForStmt:
			// loops must not push/pop
			var body *ast.BlockStmt
			if rs, isR := x.(*ast.RangeStmt); isR {
				body = rs.Body
			} else {
				body = x.(*ast.ForStmt).Body
			}
			bc, _, _ := pushPop(info, body.List, push)
			if len(bc) > 0 {
				ok = false
			}
		}
	}
	return counts, scalars, ok
}

func isLenGuard(e ast.Expr) bool {
	be, ok := e.(*ast.BinaryExpr)
	if !ok {
		return false
	}
	call, ok := be.X.(*ast.CallExpr)
	if !ok {
		return false
	}
	id, ok := call.Fun.(*ast.Ident)
	return ok && id.Name == "len"
}

// stackEffects computes, for the code reachable from block `from` up to the function's exits, what it does to the fields
// of the TypeInfo receiver: per stack field (slice-typed) the number of pushes (store of append(field, …)) or pops
// (store of a re-slice of the field), and the set of other fields stored. same reports whether every path has the same
// push/pop counts. Branches on `len(stack) > 0` (the defensive guard around a pop) are taken as true; blocks are visited
// once per path (a loop body contributes once).
var stackEffectsDepth int

func stackEffects(from *ssa.BasicBlock, push bool) (counts map[string]int, scalars map[string]bool, same bool) {
	scalars = map[string]bool{}
	blockEff := func(b *ssa.BasicBlock) map[string]int {
		eff := map[string]int{}
		for _, in := range b.Instrs {
			// a helper method of the TypeInfo called from here (popType, …): its effects are this block's
			if call, ok := in.(*ssa.Call); ok && stackEffectsDepth < 3 {
				if cal := call.Call.StaticCallee(); cal != nil && len(cal.Blocks) > 0 && len(call.Call.Args) > 0 && core.TypeName(call.Call.Args[0].Type()) == "TypeInfo" && cal.Signature.Recv() != nil && cal.Signature.Results().Len() == 0 {
					stackEffectsDepth++
					cs, sc, _ := stackEffects(cal.Blocks[0], push)
					stackEffectsDepth--
					for k, v := range cs {
						eff[k] += v
					}
					for k := range sc {
						scalars[k] = true
					}
				}
				continue
			}
			st, ok := in.(*ssa.Store)
			if !ok {
				continue
			}
			fa, ok := st.Addr.(*ssa.FieldAddr)
			if !ok || core.TypeName(fa.X.Type()) != "TypeInfo" {
				continue
			}
			f := core.FieldOf(fa)
			if f == nil {
				continue
			}
			if _, isSlice := f.Type().Underlying().(*types.Slice); !isSlice {
				scalars[core.N(f)] = true
				continue
			}
			switch v := st.Val.(type) {
			case *ssa.Call:
				if b, ok := v.Call.Value.(*ssa.Builtin); ok && b.Name() == "append" && push {
					eff[core.N(f)]++
				}
			case *ssa.Slice:
				if !push {
					eff[core.N(f)]++
				}
			}
		}
		return eff
	}
	isLenGuard := func(iff *ssa.If) bool {
		bo, ok := iff.Cond.(*ssa.BinOp)
		if !ok || (bo.Op != token.GTR && bo.Op != token.NEQ) {
			return false
		}
		call, ok := bo.X.(*ssa.Call)
		if !ok {
			return false
		}
		b, ok := call.Call.Value.(*ssa.Builtin)
		return ok && b.Name() == "len"
	}
	var results []map[string]int
	onPath := map[*ssa.BasicBlock]bool{}
	var walk func(b *ssa.BasicBlock, acc map[string]int, depth int)
	walk = func(b *ssa.BasicBlock, acc map[string]int, depth int) {
		if onPath[b] || depth > 200 || len(results) > 4096 {
			return
		}
		onPath[b] = true
		defer func() { onPath[b] = false }()
		cur := map[string]int{}
		for k, v := range acc {
			cur[k] = v
		}
		for k, v := range blockEff(b) {
			cur[k] += v
		}
		if len(b.Succs) == 0 {
			results = append(results, cur)
			return
		}
		if iff, ok := b.Instrs[len(b.Instrs)-1].(*ssa.If); ok && !push && isLenGuard(iff) {
			walk(b.Succs[0], cur, depth+1)
			return
		}
		for _, s := range b.Succs {
			walk(s, cur, depth+1)
		}
	}
	walk(from, map[string]int{}, 0)
	same = true
	for _, r := range results {
		if counts == nil {
			counts = r
			continue
		}
		if fmt.Sprint(r) != fmt.Sprint(counts) {
			same = false
		}
	}
	if counts == nil {
		counts = map[string]int{}
	}
	return
}

func c14TypeInfo(c *core.Ctx, r *core.Reporter) {
	enter := c.Func("", "TypeInfo.Enter")
	leave := c.Func("", "TypeInfo.Leave")
	if enter == nil || leave == nil {
		r.Unknown("TypeInfo", token.NoPos, "TypeInfo.Enter / Leave not found")
		return
	}
	type eff struct {
		counts  map[string]int
		scalars map[string]bool
		ok      bool
		pos     token.Pos
	}
	// Enter: one arm per asserted node type (type switch or assertion chain alike: in SSA both are comma-ok assertions
	// followed by a branch on ok)
	ent := map[string]eff{}
	core.Instrs(enter, func(in ssa.Instruction) {
		ta, ok := in.(*ssa.TypeAssert)
		if !ok || !ta.CommaOk {
			return
		}
		n := core.NamedOf(ta.AssertedType)
		if n == nil || n.Obj().Pkg() == nil || n.Obj().Pkg().Name() != "ast" || ta.X.Type().String() != "github.com/graphql-go/graphql/language/ast.Node" {
			return
		}
		for _, ref := range *ta.Referrers() {
			ex, ok := ref.(*ssa.Extract)
			if !ok || ex.Index != 1 {
				continue
			}
			for _, u := range *ex.Referrers() {
				if iff, ok := u.(*ssa.If); ok {
					cs, sc, same := stackEffects(iff.Block().Succs[0], true)
					ent[core.TypeName(ta.AssertedType)] = eff{cs, sc, same, ta.Pos()}
				}
			}
		}
	})
	// Leave: one arm per kind constant compared with the node's kind
	lv := map[string]eff{}
	core.Instrs(leave, func(in ssa.Instruction) {
		iff, ok := in.(*ssa.If)
		if !ok {
			return
		}
		bo, ok := iff.Cond.(*ssa.BinOp)
		if !ok || bo.Op != token.EQL {
			return
		}
		k, isConst := core.ConstString(bo.Y)
		if !isConst {
			k, isConst = core.ConstString(bo.X)
		}
		if !isConst || k == "" {
			return
		}
		cs, sc, same := stackEffects(iff.Block().Succs[0], false)
		lv[k] = eff{cs, sc, same, iff.Pos()}
	})
	if len(lv) < 5 {
		// the other spelling of Leave: a package-level table from kind to a function of the TypeInfo that Leave indexes
		p := c.Pkg("")
		for _, f := range p.Syntax {
			ast.Inspect(f, func(x ast.Node) bool {
				cl, ok := x.(*ast.CompositeLit)
				if !ok {
					return true
				}
				mt, ok := p.TypesInfo.TypeOf(cl).Underlying().(*types.Map)
				if !ok {
					return true
				}
				sig, ok := mt.Elem().Underlying().(*types.Signature)
				if !ok || sig.Params().Len() != 1 || core.TypeName(sig.Params().At(0).Type()) != "TypeInfo" {
					return true
				}
				for _, el := range cl.Elts {
					kv, ok := el.(*ast.KeyValueExpr)
					if !ok {
						continue
					}
					k := constString(p.TypesInfo, kv.Key)
					var fn *ssa.Function
					switch v := ast.Unparen(kv.Value).(type) {
					case *ast.SelectorExpr:
						if fo, ok := p.TypesInfo.Uses[v.Sel].(*types.Func); ok {
							fn = c.Prog.FuncValue(fo)
						}
					case *ast.Ident:
						if fo, ok := p.TypesInfo.Uses[v].(*types.Func); ok {
							fn = c.Prog.FuncValue(fo)
						}
					case *ast.FuncLit:
						for _, lf := range c.LibFuncs() {
							if lf.Pos() == v.Pos() {
								fn = lf
							}
						}
					}
					if k == "" {
						continue
					}
					if fn != nil && len(fn.Blocks) > 0 {
						cs, sc, same := stackEffects(fn.Blocks[0], false)
						lv[k] = eff{cs, sc, same, kv.Pos()}
					}
				}
				return true
			})
		}
	}
	if len(ent) < 5 || len(lv) < 5 {
		r.Unknown("TypeInfo", enter.Pos(), "could not recover the arms of TypeInfo.Enter (%d) / Leave (%d)", len(ent), len(lv))
		return
	}
	all := map[string]bool{}
	for k := range ent {
		all[k] = true
	}
	for k := range lv {
		all[k] = true
	}
	for _, k := range core.SortedKeys(all) {
		e, eok := ent[k]
		l, lok := lv[k]
		pos := e.pos
		if !eok {
			pos = l.pos
		}
		switch {
		case !eok:
			r.Bad(k, pos, "TypeInfo.Leave pops for kind %s but Enter never pushes for it: the stacks underflow into the enclosing node's entries", k)
		case !lok && (len(e.counts) > 0 || len(e.scalars) > 0):
			r.Bad(k, pos, "TypeInfo.Enter pushes %v / sets %v for %s but Leave has no arm for that kind: the entries stay on the stacks for the rest of the traversal (every later Type()/ParentType()/InputType() is wrong)", e.counts, core.SortedKeys(e.scalars), k)
		case !e.ok:
			r.Bad(k, pos, "TypeInfo.Enter does not push the same stacks on every path of the %s arm", k)
		case lok && !l.ok:
			r.Bad(k, pos, "TypeInfo.Leave does not pop the same stacks on every path of the %s arm", k)
		case fmt.Sprint(e.counts) != fmt.Sprint(l.counts):
			r.Bad(k, pos, "for %s TypeInfo.Enter pushes %v but Leave pops %v", k, e.counts, l.counts)
		case fmt.Sprint(core.SortedKeys(e.scalars)) != fmt.Sprint(core.SortedKeys(l.scalars)):
			r.Bad(k, pos, "for %s TypeInfo.Enter sets %v but Leave clears %v", k, core.SortedKeys(e.scalars), core.SortedKeys(l.scalars))
		default:
			r.OK(k, pos, "pushes %v / sets %v on every path; Leave pops / clears the same", e.counts, core.SortedKeys(e.scalars))
		}
	}
}

// evalActionCond evaluates a boolean expression over the identifier `action` and Action* constants.
func evalActionCond(info *types.Info, e ast.Expr, actionObj types.Object, val string) (bool, bool) {
	switch x := ast.Unparen(e).(type) {
	case *ast.BinaryExpr:
		switch x.Op {
		case token.LAND, token.LOR:
			a, ok1 := evalActionCond(info, x.X, actionObj, val)
			b, ok2 := evalActionCond(info, x.Y, actionObj, val)
			if !ok1 || !ok2 {
				// unknown conjunct: for && treat unknown as true (may hold), for || as false
				if x.Op == token.LAND {
					if ok1 {
						return a, true
					}
					if ok2 {
						return b, true
					}
				}
				return false, false
			}
			if x.Op == token.LAND {
				return a && b, true
			}
			return a || b, true
		case token.EQL, token.NEQ:
			var other ast.Expr
			if core.ObjOf(info, x.X) == actionObj {
				other = x.Y
			} else if core.ObjOf(info, x.Y) == actionObj {
				other = x.X
			} else {
				return false, false
			}
			tv, ok := info.Types[other]
			if !ok || tv.Value == nil {
				return false, false
			}
			eq := constant.StringVal(tv.Value) == val
			if x.Op == token.NEQ {
				return !eq, true
			}
			return eq, true
		}
	case *ast.UnaryExpr:
		if x.Op == token.NOT {
			v, ok := evalActionCond(info, x.X, actionObj, val)
			return !v, ok
		}
	}
	return false, false
}

// visitorArms returns the functions stored in the Enter / Leave fields of the VisitorOptions built by fn (function
// literals, or methods used as method values).
func visitorArms(c *core.Ctx, fn *ssa.Function) map[string]*ssa.Function {
	arms := map[string]*ssa.Function{}
	for _, g := range core.WithAnon(fn) {
		for _, fields := range core.LiteralStores(g, "VisitorOptions") {
			for name, vals := range fields {
				if name != "Enter" && name != "Leave" {
					continue
				}
				for _, v := range vals {
					for {
						ct, ok := v.(*ssa.ChangeType) // func literal converted to the named VisitFunc type
						if !ok {
							break
						}
						v = ct.X
					}
					t := core.ClosureFn(v)
					if t == nil {
						if f, ok := v.(*ssa.Function); ok {
							t = f
						}
					}
					if t != nil && t.Synthetic != "" && t.Object() != nil { // bound method value
						if m := c.Prog.FuncValue(t.Object().(*types.Func)); m != nil {
							t = m
						}
					}
					if t != nil {
						arms[name] = t
					}
				}
			}
		}
	}
	return arms
}

// reachWithAction: the blocks of fn reachable from `from` when the action value `action` is the string val: branches on
// `action == K` / `action != K` (K constant) are decided, every other branch is followed both ways.
func reachWithAction(from *ssa.BasicBlock, action ssa.Value, val string) map[*ssa.BasicBlock]bool {
	seen := map[*ssa.BasicBlock]bool{}
	var walk func(b *ssa.BasicBlock)
	walk = func(b *ssa.BasicBlock) {
		if seen[b] {
			return
		}
		seen[b] = true
		if len(b.Instrs) == 0 {
			return
		}
		if iff, ok := b.Instrs[len(b.Instrs)-1].(*ssa.If); ok {
			if bo, ok := iff.Cond.(*ssa.BinOp); ok && (bo.Op == token.EQL || bo.Op == token.NEQ) {
				var k string
				known := false
				if bo.X == action {
					k, known = core.ConstString(bo.Y)
				} else if bo.Y == action {
					k, known = core.ConstString(bo.X)
				}
				if known {
					truth := (k == val) == (bo.Op == token.EQL)
					if truth {
						walk(b.Succs[0])
					} else {
						walk(b.Succs[1])
					}
					return
				}
			}
		}
		for _, s := range b.Succs {
			walk(s)
		}
	}
	walk(from)
	return seen
}

func c14Wrap(c *core.Ctx, r *core.Reporter) {
	wti := c.Func("language/visitor", "VisitWithTypeInfo")
	if wti == nil {
		r.Unknown("VisitWithTypeInfo", token.NoPos, "not found")
		return
	}
	enter := visitorArms(c, wti)["Enter"]
	if enter == nil {
		r.Unknown("VisitWithTypeInfo.Enter", wti.Pos(), "Enter function not found")
		return
	}
	// the wrapped visitor's verdict: first result of the dynamic call of a VisitFunc
	var action ssa.Value
	var dyn *ssa.Call
	core.Instrs(enter, func(in ssa.Instruction) {
		call, ok := in.(*ssa.Call)
		if !ok || call.Call.IsInvoke() || call.Call.StaticCallee() != nil {
			return
		}
		if _, isB := call.Call.Value.(*ssa.Builtin); isB {
			return
		}
		for _, ref := range *call.Referrers() {
			if ex, ok := ref.(*ssa.Extract); ok && ex.Index == 0 {
				action, dyn = ex, call
			}
		}
	})
	if action == nil {
		r.Unknown("VisitWithTypeInfo.Enter", enter.Pos(), "call of the wrapped visit function not found")
		return
	}
	// TypeInfo.Leave calls after that call
	var leaves []ssa.Instruction
	core.Instrs(enter, func(in ssa.Instruction) {
		if ci, ok := in.(ssa.CallInstruction); ok && ci.Common().IsInvoke() && ci.Common().Method.Name() == "Leave" {
			leaves = append(leaves, in)
		}
	})
	leavesFor := func(val string) bool {
		reach := reachWithAction(dyn.Block(), action, val)
		for _, l := range leaves {
			if l.Block() == dyn.Block() && core.InstrIndex(l) < core.InstrIndex(dyn) {
				continue
			}
			if reach[l.Block()] {
				return true
			}
		}
		return false
	}
	for _, a := range []struct{ name, val string }{{"skip", "SKIP"}, {"update", "UPDATE"}, {"break", "BREAK"}} {
		r.Check(leavesFor(a.val), "VisitWithTypeInfo.Enter/leave-on-"+a.name, enter.Pos(),
			"TypeInfo.Leave is called when the wrapped visitor returns "+a.name+" on enter",
			"when the wrapped visitor returns "+a.name+" on enter the main loop never calls leave for that node, and VisitWithTypeInfo does not call TypeInfo.Leave either: the entries pushed by Enter stay on the type stacks")
	}
	r.Check(!leavesFor(""), "VisitWithTypeInfo.Enter/no-leave-on-continue", enter.Pos(),
		"no premature Leave when the traversal continues into the node",
		"TypeInfo.Leave is called on enter even when the traversal continues: the node's children see the parent's types")

	// VisitInParallel: which action constants each arm compares against
	vip := c.Func("language/visitor", "VisitInParallel")
	if vip == nil {
		r.Unknown("VisitInParallel", token.NoPos, "not found")
		return
	}
	arms := visitorArms(c, vip)
	if arms["Enter"] == nil || arms["Leave"] == nil {
		r.Unknown("VisitInParallel", vip.Pos(), "Enter/Leave functions not found")
		return
	}
	compared := func(fn *ssa.Function) map[string]bool {
		out := map[string]bool{}
		c.RegionInstrs(fn, func(in ssa.Instruction) {
			bo, ok := in.(*ssa.BinOp)
			if !ok || (bo.Op != token.EQL && bo.Op != token.NEQ) {
				return
			}
			for _, e := range []ssa.Value{bo.X, bo.Y} {
				if k, ok := core.ConstString(e); ok && (k == "SKIP" || k == "BREAK" || k == "UPDATE") {
					out[k] = true
				}
			}
		})
		return out
	}
	ce, cl := compared(arms["Enter"]), compared(arms["Leave"])
	r.Check(ce["SKIP"] && ce["BREAK"] && ce["UPDATE"], "VisitInParallel.Enter/actions", arms["Enter"].Pos(),
		"enter arm handles skip, break and update", fmt.Sprintf("VisitInParallel's enter arm handles only %v of {SKIP, BREAK, UPDATE}: a sub-visitor's skip/break is ignored, so it observes events it would not observe alone", core.SortedKeys(ce)))
	r.Check(cl["BREAK"] && cl["UPDATE"], "VisitInParallel.Leave/actions", arms["Leave"].Pos(),
		"leave arm handles break and update", fmt.Sprintf("VisitInParallel's leave arm handles only %v of {BREAK, UPDATE}", core.SortedKeys(cl)))
	// skip released only on identity with the skipped node: the single delete of the skip table is dominated by the true
	// branch of a comparison with the node being left (a load of VisitFuncParams.Node)
	released, ndel := false, 0
	for _, g := range c.Region(vip) {
		core.Instrs(g, func(in ssa.Instruction) {
			call, ok := in.(*ssa.Call)
			if !ok {
				return
			}
			if b, ok := call.Call.Value.(*ssa.Builtin); !ok || b.Name() != "delete" {
				return
			}
			ndel++
			core.Instrs(g, func(x ssa.Instruction) {
				iff, ok := x.(*ssa.If)
				if !ok {
					return
				}
				bo, ok := iff.Cond.(*ssa.BinOp)
				if !ok || bo.Op != token.EQL {
					return
				}
				isNode := core.HasClass(bo.X, "field:VisitFuncParams.Node") || core.HasClass(bo.Y, "field:VisitFuncParams.Node")
				if isNode && iff.Block().Succs[0].Dominates(call.Block()) {
					released = true
				}
			})
		})
	}
	r.Check(released && ndel == 1, "VisitInParallel.Leave/skip-release", arms["Leave"].Pos(),
		"a skipping sub-visitor resumes exactly when the skipped node itself is left",
		"the skip mark of a sub-visitor is not released (only) on identity with the skipped node: it resumes too early, too late or never")
}

func c14NoEdit(c *core.Ctx, r *core.Reporter) {
	visit := c.Func("language/visitor", "Visit")
	editT := c.Named("language/visitor", "edit")
	if visit == nil || editT == nil {
		r.Unknown("Visit", token.NoPos, "Visit or its edit record type not found")
		return
	}
	isEdits := func(t types.Type) bool { // []*edit / []edit
		sl, ok := t.Underlying().(*types.Slice)
		if !ok {
			return false
		}
		return core.NamedOf(sl.Elem()) == editT
	}
	// pending(v): v is true only if edits are pending: `len(edits) != 0`, `len(edits) > 0`, or an `&&` with such a term
	var pending func(v ssa.Value, depth int) bool
	pending = func(v ssa.Value, depth int) bool {
		if depth > 5 {
			return false
		}
		switch x := v.(type) {
		case *ssa.BinOp:
			isLen := func(a ssa.Value) bool {
				call, ok := a.(*ssa.Call)
				if !ok {
					return false
				}
				b, ok := call.Call.Value.(*ssa.Builtin)
				return ok && b.Name() == "len" && len(call.Call.Args) == 1 && isEdits(call.Call.Args[0].Type())
			}
			zero := func(a ssa.Value) bool { n, ok := core.ConstInt(a); return ok && n == 0 }
			switch x.Op {
			case token.NEQ, token.GTR:
				return isLen(x.X) && zero(x.Y)
			case token.LSS:
				return zero(x.X) && isLen(x.Y)
			}
		case *ssa.Phi:
			// short-circuit `a && b`: every edge is the constant false or a pending term
			some := false
			for _, e := range x.Edges {
				if k, ok := e.(*ssa.Const); ok && k.Value != nil && k.Value.String() == "false" {
					continue
				}
				if pending(e, depth+1) {
					some = true
					continue
				}
				// `isLeaving && len(edits) != 0` evaluates the first operand in a predecessor: the edge for "first operand
				// false" is the constant false; any other non-pending edge breaks the implication
				return false
			}
			return some
		}
		return false
	}
	var gates []*ssa.If
	core.Instrs(visit, func(in ssa.Instruction) {
		if iff, ok := in.(*ssa.If); ok && pending(iff.Cond, 0) {
			gates = append(gates, iff)
		}
	})
	if len(gates) == 0 {
		r.Bad("Visit/isEdited", visit.Pos(), "Visit has no branch that requires pending edits (len(edits) != 0) any more: node writes are not conditional on an edit having been requested")
		return
	}
	r.OK("Visit/isEdited", gates[0].Pos(), "the write arm requires pending edits (len(edits) != 0)")
	underGate := func(in ssa.Instruction) bool {
		at := c.Anchor(visit, in) // through helpers extracted from Visit
		if at == nil {
			return false
		}
		for _, g := range gates {
			if g.Block().Succs[0].Dominates(at.Block()) {
				return true
			}
		}
		return false
	}
	// node-writing operations: the three writer helpers and element stores into a []ast.Node
	writers := map[*ssa.Function]bool{}
	for _, n := range []string{"updateNodeField", "removeNodeByIndex", "convertMap"} {
		if f := c.Func("language/visitor", n); f != nil {
			writers[f] = true
		}
	}
	nodeT := c.Named("language/ast", "Node")
	bad := ""
	nw := 0
	c.RegionInstrs(visit, func(in ssa.Instruction) {
		what := ""
		switch x := in.(type) {
		case ssa.CallInstruction:
			if cal := x.Common().StaticCallee(); cal != nil && writers[cal] {
				what = core.N(cal)
			}
		case *ssa.Store:
			if ia, ok := x.Addr.(*ssa.IndexAddr); ok {
				if sl, ok := ia.X.Type().Underlying().(*types.Slice); ok && nodeT != nil && core.NamedOf(sl.Elem()) == nodeT {
					what = "an element store into a node slice"
				}
			}
		}
		if what == "" {
			return
		}
		nw++
		if !underGate(in) && bad == "" {
			bad = what + " at " + c.Pos(in.Pos())
		}
	})
	r.Check(bad == "" && nw >= 1, "Visit/writes-under-isEdited", visit.Pos(),
		fmt.Sprintf("all %d node-writing operations are inside the arm that requires pending edits", nw),
		"Visit performs "+bad+" outside the arm that requires pending edits: a traversal whose callbacks request no edits can modify the tree")
	// edits appended only for ActionUpdate or while propagating pending edits
	okAppend, na := true, 0
	c.RegionInstrs(visit, func(in ssa.Instruction) {
		call, ok := in.(*ssa.Call)
		if !ok {
			return
		}
		b, ok := call.Call.Value.(*ssa.Builtin)
		if !ok || b.Name() != "append" || len(call.Call.Args) == 0 || !isEdits(call.Call.Args[0].Type()) {
			return
		}
		na++
		if underGate(in) {
			return
		}
		at := c.Anchor(visit, in)
		allowed := false
		if at != nil {
			core.Instrs(visit, func(x ssa.Instruction) {
				iff, ok := x.(*ssa.If)
				if !ok {
					return
				}
				bo, ok := iff.Cond.(*ssa.BinOp)
				if !ok || bo.Op != token.EQL {
					return
				}
				for _, side := range []ssa.Value{bo.X, bo.Y} {
					if s, ok := core.ConstString(side); ok && s == "UPDATE" && iff.Block().Succs[0].Dominates(at.Block()) {
						allowed = true
					}
				}
			})
		}
		if !allowed {
			okAppend = false
		}
	})
	r.Check(okAppend && na >= 2, "Visit/edits-only-on-update", visit.Pos(),
		"edits are recorded only for ActionUpdate results or while propagating pending edits",
		"an edit is recorded although no callback returned ActionUpdate")
	// updateNodeField writes through reflection only there
	// (updateNodeField or the phases it has been split into)
	allowed := map[*ssa.Function]bool{}
	for _, g := range c.Region(c.Func("language/visitor", "updateNodeField")) {
		allowed[g] = true
	}
	sets, other := 0, 0
	for _, fn := range c.LibFuncs() {
		if !c.IsLibPkgFn(fn, "language/visitor") {
			continue
		}
		for _, ci := range core.CallSites(fn) {
			cal := ci.Common().StaticCallee()
			if cal == nil || cal.Pkg == nil || cal.Pkg.Pkg.Path() != "reflect" || !strings.HasPrefix(cal.Name(), "Set") {
				continue
			}
			if allowed[fn] {
				sets++
			} else {
				other++
			}
		}
	}
	r.Check(sets >= 1 && other == 0, "visitor/reflect-set-only-in-updateNodeField", token.NoPos,
		"reflect.Value.Set is confined to updateNodeField (which is only called under isEdited)",
		"reflection writes to nodes exist outside updateNodeField")
}

package rules

import (
	"fmt"
	"go/token"
	"go/types"
	"sort"
	"strings"

	"golang.org/x/tools/go/ssa"

	"verif/gqlvet/core"
)

func init() {
	docs["C17"] = Doc{
		Explanation: "(PAIR-isolate) every dynamic call of a phase hook of the Extension interface (Init, ParseDidStart, ValidationDidStart, ExecutionDidStart, ResolveFieldDidStart, HasResult, GetResult) and of every returned finish function lies in a function literal that is run once per loop iteration and whose first action is to defer a recover() handler that records an error; " +
			"(FLOW-assert) a recovered panic value is never type-asserted without the comma-ok form, so a hook panicking with a string or any value cannot crash the request; " +
			"(PAIR-finish) on every path from a handleExtensions*DidStart call to an exit of the calling function the returned finish handler is invoked (or its invocation is deferred), and if a user callback runs between start and finish the invocation is deferred; " +
			"(DOM-pipeline) the call sites in Do/ExecutePlan are ordered by dominance: inits < parse start < Parse < parse finish < validation start < ValidateDocument < validation finish < Execute; execution start < worker; execution finish < result collection; " +
			"(MAPORD) finish tables must not be keyed by a user-chosen name nor iterated in map order.",
		NotDecided: "the payload each finish function receives; ext.Name() panicking inside a handler; properly nested phases of different extensions at run time beyond iteration order.",
	}
	register(&core.Rule{Name: "C17/PAIR-isolate", Props: []string{"C17"}, Min: 11,
		Doc: "every extension hook / finish-function call is individually recovered inside a per-iteration literal", Run: c17Isolate})
	register(&core.Rule{Name: "C09/FLOW-assert", Props: []string{"C17", "C09"}, Min: 10,
		Doc: "recover() results are never asserted unchecked", Run: c09Assert})
	register(&core.Rule{Name: "C17/PAIR-finish", Props: []string{"C17"}, Min: 4,
		Doc: "a started extension phase is finished on every exit; deferred when user code runs in between", Run: c17Finish})
	register(&core.Rule{Name: "C17/DOM-pipeline", Props: []string{"C17"}, Min: 8,
		Doc: "pipeline call sites ordered by dominance", Run: c17Pipeline})
}

var phaseHooks = map[string]bool{
	"Init": true, "ParseDidStart": true, "ValidationDidStart": true, "ExecutionDidStart": true,
	"ResolveFieldDidStart": true, "HasResult": true, "GetResult": true,
}
var finishTypes = map[string]bool{
	"ParseFinishFunc": true, "ValidationFinishFunc": true, "ExecutionFinishFunc": true, "ResolveFieldFinishFunc": true,
}

// rootName returns the name of the outermost named function enclosing fn.
func rootName(fn *ssa.Function) string {
	return core.FuncKey(fn)
}

func c17Isolate(c *core.Ctx, r *core.Reporter) {
	for _, fn := range c.LibFuncs() {
		for _, ci := range core.CallSites(fn) {
			cb := core.UserCallback(ci)
			if cb == "" {
				continue
			}
			var what string
			if strings.HasPrefix(cb, "Extension.") {
				m := strings.TrimPrefix(cb, "Extension.")
				if !phaseHooks[m] {
					continue
				}
				what = m
			} else if finishTypes[cb] {
				what = cb
			} else {
				continue
			}
			key := rootName(fn) + "/" + what
			named := fn.Parent() == nil
			if named {
				// the per-extension literal turned into a named function: same obligations (recover deferred at entry,
				// error recorded, run once per iteration of its callers' loops); reported under the function that owns it
				key = core.FuncKey(fn) + "/" + what
				hasGuard := false
				for _, d := range core.Defers(fn) {
					if d.Block() == fn.Blocks[0] && core.InstrDominates(d, ci) {
						if g := core.ClosureFn(d.Call.Value); g != nil && core.CallsRecover(g) {
							hasGuard = true
						}
					}
				}
				if !hasGuard {
					r.Bad(key, ci.Pos(), "hook %s is called directly in %s, not inside a recovering function literal: a panic in the hook takes down the request", what, core.N(fn))
					continue
				}
			}
			// fn's entry block must defer a recovering handler before the hook call
			var guard *ssa.Defer
			for _, d := range core.Defers(fn) {
				if d.Block() == fn.Blocks[0] && core.InstrDominates(d, ci) {
					if g := core.ClosureFn(d.Call.Value); g != nil && core.CallsRecover(g) {
						guard = d
						break
					}
				}
			}
			if guard == nil {
				r.Bad(key, ci.Pos(), "hook %s: the enclosing literal does not defer a recover() handler before calling it", what)
				continue
			}
			g := core.ClosureFn(guard.Call.Value)
			records := len(core.BuiltinCalls(g, "append")) > 0
			if !records {
				r.Bad(key, ci.Pos(), "hook %s: the recover handler does not record an error (no append to an error list)", what)
				continue
			}
			// the literal must be created and called inside a loop of its parent (one literal per extension per iteration)
			perIter := false
			for _, pin := range closureUses(fn) {
				if core.InAnyLoop(pin.Block()) {
					perIter = true
				}
			}
			if named {
				perIter = true
				nCalls := 0
				for _, caller := range c.LibFuncs() {
					for _, site := range core.CallsTo(caller, fn, false) {
						nCalls++
						if !core.InAnyLoop(site.Block()) {
							perIter = false
						}
					}
				}
				if nCalls == 0 {
					perIter = false
				}
			}
			if !perIter {
				r.Bad(key, ci.Pos(), "hook %s: the recovering literal is not run once per loop iteration, so one failing extension stops the others", what)
				continue
			}
			r.OK(key, ci.Pos(), "hook %s runs in a per-iteration literal under defer/recover that appends to the error list", what)
		}
	}
}

// closureUses returns the instructions in fn.Parent() that call the closure fn.
func closureUses(fn *ssa.Function) []ssa.Instruction {
	var out []ssa.Instruction
	p := fn.Parent()
	if p == nil {
		return nil
	}
	core.Instrs(p, func(in ssa.Instruction) {
		if ci, ok := in.(ssa.CallInstruction); ok {
			if core.ClosureFn(ci.Common().Value) == fn {
				out = append(out, in)
			}
		}
	})
	return out
}

// c09Assert: sources = recover() results; sink = single-result TypeAssert.
func c09Assert(c *core.Ctx, r *core.Reporter) {
	perRoot := map[string]int{}
	for _, fn := range c.LibFuncs() {
		for _, rc := range core.BuiltinCalls(fn, "recover") {
			v, ok := rc.(*ssa.Call)
			if !ok {
				continue
			}
			root := rootName(fn)
			perRoot[root]++
			key := fmt.Sprintf("%s/recover#%d", root, perRoot[root])
			bad := uncheckedAssert(v, map[ssa.Value]bool{})
			if bad != nil {
				r.Bad(key, bad.Pos(), "the recovered panic value is asserted with the single-result form %s: a panic(value) of any other type (e.g. a string) re-panics inside the handler and escapes the entry point", bad.String())
			} else {
				r.OK(key, v.Pos(), "recovered value only compared, formatted or asserted with comma-ok")
			}
		}
	}
}

func uncheckedAssert(v ssa.Value, seen map[ssa.Value]bool) *ssa.TypeAssert {
	if seen[v] {
		return nil
	}
	seen[v] = true
	refs := v.Referrers()
	if refs == nil {
		return nil
	}
	for _, in := range *refs {
		switch x := in.(type) {
		case *ssa.TypeAssert:
			if !x.CommaOk {
				return x
			}
		case *ssa.Phi:
			if b := uncheckedAssert(x, seen); b != nil {
				return b
			}
		case *ssa.ChangeInterface:
			if b := uncheckedAssert(x, seen); b != nil {
				return b
			}
		case *ssa.Store:
			// stored into a local: follow loads of that local
			if al, ok := x.Addr.(*ssa.Alloc); ok && x.Val == v {
				for _, lr := range *al.Referrers() {
					if u, ok := lr.(*ssa.UnOp); ok && u.Op == token.MUL {
						if b := uncheckedAssert(u, seen); b != nil {
							return b
						}
					}
				}
			}
		}
	}
	return nil
}

// handlerUses finds where the finish handler returned by a start call is
// invoked (directly) or has its invocation deferred.
type handlerUse struct {
	in       ssa.Instruction
	deferred bool
}

func handlerUses(fn *ssa.Function, start *ssa.Call) []handlerUse {
	// the finish handler: second result of the start call, or — when the results are bundled in a struct — the value of
	// its function-typed field (read from the call's value or from the local it is kept in)
	var h ssa.Value
	isFunc := func(t types.Type) bool { _, ok := t.Underlying().(*types.Signature); return ok }
	for _, ref := range *start.Referrers() {
		switch x := ref.(type) {
		case *ssa.Extract:
			if x.Index == 1 {
				h = x
			}
		case *ssa.Field:
			if isFunc(x.Type()) {
				h = x
			}
		case *ssa.Store:
			al, ok := x.Addr.(*ssa.Alloc)
			if !ok || x.Val != ssa.Value(start) {
				continue
			}
			for _, ar := range *al.Referrers() {
				fa, ok := ar.(*ssa.FieldAddr)
				if !ok || fa.Referrers() == nil || !isFunc(fa.Type().(*types.Pointer).Elem()) {
					continue
				}
				for _, ld := range *fa.Referrers() {
					if u, ok := ld.(*ssa.UnOp); ok && u.Op == token.MUL && h == nil {
						h = u
					}
				}
			}
		}
	}
	if h == nil && isFunc(start.Type()) {
		h = start // a helper that starts the phase and hands back the finish handler as its only result
	}
	if h == nil {
		return nil
	}
	var uses []handlerUse
	// direct uses: call/defer whose callee value originates in h, or which hands h to a library function that invokes
	// the corresponding parameter
	core.Instrs(fn, func(in ssa.Instruction) {
		ci, ok := in.(ssa.CallInstruction)
		if !ok || ci.Common().IsInvoke() {
			return
		}
		for _, o := range core.Origins(ci.Common().Value) {
			if o == h {
				_, isDefer := in.(*ssa.Defer)
				uses = append(uses, handlerUse{in, isDefer})
			}
		}
		if cal := ci.Common().StaticCallee(); cal != nil && len(cal.Blocks) > 0 {
			for i, a := range ci.Common().Args {
				for _, o := range core.Origins(a) {
					if o == h && invokesParam(cal, i) {
						_, isDefer := in.(*ssa.Defer)
						uses = append(uses, handlerUse{in, isDefer})
					}
				}
			}
		}
	})
	// via a captured local: *alloc = h; closure binds alloc; closure calls *freevar
	for _, ref := range *h.Referrers() {
		st, ok := ref.(*ssa.Store)
		if !ok || st.Val != h {
			continue
		}
		al, ok := st.Addr.(*ssa.Alloc)
		if !ok {
			continue
		}
		for _, ar := range *al.Referrers() {
			mc, ok := ar.(*ssa.MakeClosure)
			if !ok {
				// direct load + call in fn
				if u, ok := ar.(*ssa.UnOp); ok && u.Op == token.MUL {
					for _, ur := range *u.Referrers() {
						if ci, ok := ur.(ssa.CallInstruction); ok && ci.Common().Value == u {
							_, isDefer := ur.(*ssa.Defer)
							uses = append(uses, handlerUse{ur, isDefer})
						} else if ok {
							if cal := ci.Common().StaticCallee(); cal != nil && len(cal.Blocks) > 0 {
								for i, a := range ci.Common().Args {
									if a == ssa.Value(u) && invokesParam(cal, i) {
										_, isDefer := ur.(*ssa.Defer)
										uses = append(uses, handlerUse{ur, isDefer})
									}
								}
							}
						}
					}
				}
				continue
			}
			g := mc.Fn.(*ssa.Function)
			idx := -1
			for i, b := range mc.Bindings {
				if b == al {
					idx = i
				}
			}
			if idx < 0 || !closureCallsFreeVar(g, g.FreeVars[idx]) {
				continue
			}
			for _, mr := range *mc.Referrers() {
				if ci, ok := mr.(ssa.CallInstruction); ok && ci.Common().Value == mc {
					_, isDefer := mr.(*ssa.Defer)
					uses = append(uses, handlerUse{mr, isDefer})
				}
			}
		}
	}
	return uses
}

// invokesParam: the library function cal calls (or defers a call of) its i-th parameter.
func invokesParam(cal *ssa.Function, i int) bool {
	if cal == nil || i >= len(cal.Params) {
		return false
	}
	p := cal.Params[i]
	found := false
	core.Instrs(cal, func(in ssa.Instruction) {
		ci, ok := in.(ssa.CallInstruction)
		if !ok || ci.Common().IsInvoke() {
			return
		}
		for _, o := range core.Origins(ci.Common().Value) {
			if o == ssa.Value(p) {
				found = true
			}
		}
	})
	return found
}

// startWrappers: library functions unknown to the pinned inventory that call the start handler and hand its finish handler
// back as their only result without invoking it (the start of the phase extracted into a helper).
func startWrappers(c *core.Ctx, sfn *ssa.Function) []*ssa.Function {
	var out []*ssa.Function
	for _, fn := range c.LibFuncs() {
		if fn.Parent() != nil || !c.IsFresh(fn) || fn.Signature.Results().Len() != 1 {
			continue
		}
		if _, isFn := fn.Signature.Results().At(0).Type().Underlying().(*types.Signature); !isFn {
			continue
		}
		sites := core.CallsTo(fn, sfn, false)
		if len(sites) != 1 {
			continue
		}
		start, ok := sites[0].(*ssa.Call)
		if !ok {
			continue
		}
		forwards := false
		for _, ret := range core.Returns(fn) {
			for _, o := range core.Origins(core.RetVal(ret, 0)) {
				if ex, ok := o.(*ssa.Extract); ok && ex.Tuple == ssa.Value(start) {
					forwards = true
				}
			}
		}
		if forwards {
			out = append(out, fn)
		}
	}
	return out
}

func closureCallsFreeVar(g *ssa.Function, fv *ssa.FreeVar) bool {
	found := false
	core.Instrs(g, func(in ssa.Instruction) {
		ci, ok := in.(ssa.CallInstruction)
		if !ok || ci.Common().IsInvoke() {
			return
		}
		if u, ok := ci.Common().Value.(*ssa.UnOp); ok && u.Op == token.MUL && u.X == fv {
			found = true
		}
		if cal := ci.Common().StaticCallee(); cal != nil && len(cal.Blocks) > 0 {
			for i, a := range ci.Common().Args {
				if u, ok := a.(*ssa.UnOp); ok && u.Op == token.MUL && u.X == ssa.Value(fv) && invokesParam(cal, i) {
					found = true
				}
			}
		}
	})
	return found
}

var startFns = []string{
	"handleExtensionsParseDidStart", "handleExtensionsValidationDidStart",
	"handleExtensionsExecutionDidStart", "handleExtensionsResolveFieldDidStart",
}

func c17Finish(c *core.Ctx, r *core.Reporter) {
	for _, sname := range startFns {
		sfn := c.Func("", sname)
		if sfn == nil {
			r.Unknown(sname, token.NoPos, "start handler %s not found", sname)
			continue
		}
		nsites := 0
		wrappers := startWrappers(c, sfn)
		isWrapper := map[*ssa.Function]bool{}
		for _, w := range wrappers {
			isWrapper[w] = true
		}
		for _, fn := range c.LibFuncs() {
			if isWrapper[fn] {
				continue // judged at the wrapper's call sites
			}
			var sites []ssa.CallInstruction
			sites = append(sites, core.CallsTo(fn, sfn, false)...)
			for _, w := range wrappers {
				sites = append(sites, core.CallsTo(fn, w, false)...)
			}
			for _, ci := range sites {
				start, ok := ci.(*ssa.Call)
				if !ok {
					continue
				}
				nsites++
				base := rootName(fn) + "/" + strings.TrimPrefix(sname, "handleExtensions")
				uses := handlerUses(fn, start)
				if len(uses) == 0 {
					r.Bad(base+"/finish", start.Pos(), "the finish handler returned by %s is never invoked in %s", sname, core.N(fn))
					continue
				}
				// exits reachable from the start without passing an invocation / defer registration
				cut := map[*ssa.BasicBlock]bool{}
				for _, u := range uses {
					cut[u.in.Block()] = true
					// idiom `if h != nil { h(…) }`: the nil arm is infeasible once the phase was started,
					// so the guarding block counts as the invocation point
					if g := nilGuardOf(u.in, start); g != nil {
						cut[g] = true
					}
				}
				reach := core.ReachableAvoiding(start.Block(), cutMinus(cut, start.Block()))
				// an invocation later in the start's own block lies on every path out of it
				for _, u := range uses {
					if u.in.Block() == start.Block() && core.InstrIndex(u.in) > core.InstrIndex(start) {
						reach = map[*ssa.BasicBlock]bool{}
					}
				}
				var exits []ssa.Instruction
				for b := range reach {
					if cut[b] && b != start.Block() {
						continue
					}
					if b == start.Block() && cut[b] {
						// invocation in the same block as the start: it follows the start
						continue
					}
					if len(b.Instrs) == 0 {
						continue
					}
					last := b.Instrs[len(b.Instrs)-1]
					switch last.(type) {
					case *ssa.Return, *ssa.Panic:
						exits = append(exits, last)
					}
				}
				sort.Slice(exits, func(i, j int) bool { return exits[i].Pos() < exits[j].Pos() })
				if len(exits) == 0 {
					r.OK(base+"/all-exits", start.Pos(), "every exit of %s reachable from the start passes an invocation (or deferred invocation) of the finish handler", core.N(fn))
				}
				for i, e := range exits {
					r.Bad(fmt.Sprintf("%s/unfinished-exit#%d", base, i+1), e.Pos(),
						"%s can leave through this exit after %s started the phase without invoking the returned finish handler: extensions whose start succeeded never see the phase finished", core.N(fn), sname)
				}
				// user callback between start and a non-deferred invocation
				for _, u := range uses {
					if u.deferred {
						continue
					}
					var between []string
					core.Instrs(fn, func(in ssa.Instruction) {
						ci, ok := in.(ssa.CallInstruction)
						if !ok {
							return
						}
						cb := core.UserCallback(ci)
						if cb == "" {
							return
						}
						if reaches(start, in) && in != u.in && reaches(in, u.in) {
							between = append(between, cb)
						}
					})
					if len(between) > 0 {
						r.Bad(base+"/not-deferred", u.in.Pos(),
							"user code (%s) runs between the phase start and this non-deferred finish invocation: if it panics the started phase is never finished", strings.Join(between, ", "))
					}
				}
			}
		}
		if nsites == 0 {
			r.Unknown(sname+"/callers", sfn.Pos(), "no call site of %s found", sname)
		}
	}
}

// nilGuardOf returns the block that guards use with `if h != nil` where h originates in the
// handler returned by start, or nil.
func nilGuardOf(use ssa.Instruction, start *ssa.Call) *ssa.BasicBlock {
	b := use.Block()
	if len(b.Preds) != 1 {
		return nil
	}
	p := b.Preds[0]
	iff, ok := p.Instrs[len(p.Instrs)-1].(*ssa.If)
	if !ok || p.Succs[0] != b {
		return nil
	}
	bo, ok := iff.Cond.(*ssa.BinOp)
	if !ok || bo.Op != token.NEQ || !core.IsNilConst(bo.Y) {
		return nil
	}
	for _, o := range core.Origins(bo.X) {
		if ex, ok := o.(*ssa.Extract); ok && ex.Tuple == start {
			return p
		}
	}
	return nil
}

func cutMinus(cut map[*ssa.BasicBlock]bool, b *ssa.BasicBlock) map[*ssa.BasicBlock]bool {
	out := map[*ssa.BasicBlock]bool{}
	for k := range cut {
		if k != b {
			out[k] = true
		}
	}
	return out
}

// reaches: a is executed before b on some path.
func reaches(a, b ssa.Instruction) bool {
	if a.Block() == b.Block() {
		return core.InstrIndex(a) < core.InstrIndex(b)
	}
	return core.Reachable(a.Block())[b.Block()]
}

// c17Pipeline checks the dominance order of pipeline call sites.
func c17Pipeline(c *core.Ctx, r *core.Reporter) {
	do := c.Func("", "Do")
	if do == nil {
		r.Unknown("Do", token.NoPos, "Do not found")
		return
	}
	parse := c.Func("language/parser", "Parse")
	chain := []struct {
		name string
		fn   *ssa.Function
	}{
		{"handleExtensionsInits", c.Func("", "handleExtensionsInits")},
		{"handleExtensionsParseDidStart", c.Func("", "handleExtensionsParseDidStart")},
		{"parser.Parse", parse},
		{"handleExtensionsValidationDidStart", c.Func("", "handleExtensionsValidationDidStart")},
		{"ValidateDocument", c.Func("", "ValidateDocument")},
		{"Execute", c.Func("", "Execute")},
	}
	var prev ssa.Instruction
	prevName := ""
	sites := map[string]ssa.Instruction{}
	for _, st := range chain {
		if st.fn == nil {
			r.Unknown("Do/"+st.name, do.Pos(), "%s not found", st.name)
			return
		}
		cs := core.CallsTo(do, st.fn, false)
		if len(cs) != 1 {
			r.Bad("Do/"+st.name, do.Pos(), "expected exactly one call of %s in Do, found %d", st.name, len(cs))
			return
		}
		in := cs[0].(ssa.Instruction)
		sites[st.name] = in
		if prev != nil {
			r.Check(core.InstrDominates(prev, in), "Do/"+prevName+"<"+st.name, in.Pos(),
				prevName+" dominates "+st.name, prevName+" does not precede "+st.name+" on every path of Do: the pipeline order init < parse < validate < execute is broken")
		}
		prev, prevName = in, st.name
	}
	// finish handlers: parse finish dominated by Parse and every path to ValidationDidStart passes one;
	// validation finish dominated by ValidateDocument and every path to Execute passes one.
	for _, pr := range []struct{ start, work, next string }{
		{"handleExtensionsParseDidStart", "parser.Parse", "handleExtensionsValidationDidStart"},
		{"handleExtensionsValidationDidStart", "ValidateDocument", "Execute"},
	} {
		start := sites[pr.start].(*ssa.Call)
		uses := handlerUses(do, start)
		okDom := len(uses) > 0
		cut := map[*ssa.BasicBlock]bool{}
		for _, u := range uses {
			if !core.InstrDominates(sites[pr.work], u.in) {
				okDom = false
			}
			cut[u.in.Block()] = true
		}
		r.Check(okDom, "Do/"+pr.work+"<finish", start.Pos(),
			"every invocation of the finish handler is dominated by "+pr.work,
			"a finish handler of "+pr.start+" is invoked on a path that has not run "+pr.work+" (phase finished before its work)")
		// next phase not reachable from work without a finish
		reach := core.ReachableAvoiding(sites[pr.work].Block(), cutMinus(cut, sites[pr.work].Block()))
		nb := sites[pr.next].Block()
		skipped := reach[nb] && !cut[nb]
		if cut[sites[pr.work].Block()] {
			skipped = false
		}
		r.Check(!skipped, "Do/finish<"+pr.next, sites[pr.next].Pos(),
			"every path from "+pr.work+" to "+pr.next+" passes the finish handler",
			pr.next+" is reachable from "+pr.work+" without finishing the previous phase: phases are not properly nested")
	}
	// ExecutePlan: ExecutionDidStart < go; deferred finish registered < go; inside the deferred literal finish < addExtensionResults
	ep := c.Func("", "ExecutePlan")
	es := c.Func("", "handleExtensionsExecutionDidStart")
	if ep == nil || es == nil {
		r.Unknown("ExecutePlan", token.NoPos, "ExecutePlan/handleExtensionsExecutionDidStart not found")
		return
	}
	cs := core.CallsTo(ep, es, false)
	var goIn ssa.Instruction
	core.Instrs(ep, func(in ssa.Instruction) {
		if g, ok := in.(*ssa.Go); ok {
			goIn = g
		}
	})
	if len(cs) != 1 || goIn == nil {
		r.Bad("ExecutePlan/start<worker", ep.Pos(), "expected one ExecutionDidStart call and one go statement in ExecutePlan")
		return
	}
	start := cs[0].(*ssa.Call)
	r.Check(core.InstrDominates(start, goIn), "ExecutePlan/start<worker", goIn.Pos(),
		"execution start dominates the worker launch", "the worker is launched before ExecutionDidStart on some path")
	uses := handlerUses(ep, start)
	okDef := false
	var deferLit *ssa.Function
	for _, u := range uses {
		if u.deferred && core.InstrDominates(u.in, goIn) {
			okDef = true
			deferLit = core.ClosureFn(u.in.(*ssa.Defer).Call.Value)
		}
	}
	r.Check(okDef, "ExecutePlan/finish-deferred<worker", goIn.Pos(),
		"the execution finish handler is deferred before the worker starts, so it runs on the returned result on every exit",
		"the execution finish handler is not deferred before the worker is launched")
	if deferLit != nil {
		aer := c.Func("", "addExtensionResults")
		acs := core.CallsTo(deferLit, aer, false)
		if len(acs) == 0 {
			// the deferred block's body extracted into a helper: look there
			for _, ci := range core.CallSites(deferLit) {
				if cal := ci.Common().StaticCallee(); cal != nil && c.IsLib(cal) && c.IsFresh(cal) && len(core.CallsTo(cal, aer, false)) == 1 {
					deferLit = cal
					acs = core.CallsTo(cal, aer, false)
				}
			}
		}
		var fin ssa.Instruction
		core.Instrs(deferLit, func(in ssa.Instruction) {
			if ci, ok := in.(ssa.CallInstruction); ok && !ci.Common().IsInvoke() && ci.Common().StaticCallee() == nil {
				if _, isB := ci.Common().Value.(*ssa.Builtin); !isB && fin == nil {
					fin = in
				}
			}
		})
		r.Check(len(acs) == 1 && fin != nil && core.InstrDominates(fin, acs[0].(ssa.Instruction)), "ExecutePlan/finish<addExtensionResults", deferLit.Pos(),
			"execution finish precedes result collection", "result collection (addExtensionResults) is not preceded by the execution finish handler")
	}
	_ = types.Typ
}

func init() {
	register(&core.Rule{Name: "C17/FLOW-recovered", Props: []string{"C17"}, Min: 10,
		Doc: "the value recovered from a panicking extension hook is only formatted, never made the receiver of a method call", Run: c17Recovered})
}

// c17Recovered: the recover blocks run outside any further recover. The recovered value is whatever the hook panicked
// with; calling one of its methods (Error() after asserting it to error, String(), ...) runs user code again, and if
// that panics the request is taken down and the remaining finish functions never run. Handing the value to fmt is
// safe: fmt recovers panics of Error / String methods itself.
func c17Recovered(c *core.Ctx, r *core.Reporter) {
	per := map[string]int{}
	for _, top := range c.LibFuncs() {
		if top.Parent() != nil || !(strings.HasPrefix(core.N(top), "handleExtensions") || core.N(top) == "addExtensionResults") {
			continue
		}
		for _, fn := range c.Region(top) { // literals, and finish handlers turned into methods / helpers
			core.Instrs(fn, func(in ssa.Instruction) {
				call, ok := in.(*ssa.Call)
				if !ok {
					return
				}
				if b, ok := call.Call.Value.(*ssa.Builtin); !ok || core.N(b) != "recover" {
					return
				}
				per[core.N(top)]++
				key := fmt.Sprintf("%s/recover#%d", core.N(top), per[core.N(top)])
				if site, via := invokedOn(c, call, map[ssa.Value]bool{}, 0); site != nil {
					r.Bad(key, site.Pos(), "the value recovered from a panicking hook in %s becomes the receiver of a method call (%s): that is the hook's own code running outside any recover — a panic value whose method panics (a typed-nil error, a wrapper around a nil error) escapes Do and the other extensions' finish functions are never called", core.N(top), via)
				} else {
					r.OK(key, call.Pos(), "the recovered value is only passed to fmt")
				}
			})
		}
	}
}

// invokedOn follows v through assertions, conversions, phis and arguments of library functions (three levels) and
// returns the first interface method call that has it as receiver.
func invokedOn(c *core.Ctx, v ssa.Value, seen map[ssa.Value]bool, depth int) (ssa.Instruction, string) {
	if v == nil || seen[v] || depth > 3 || v.Referrers() == nil {
		return nil, ""
	}
	seen[v] = true
	for _, ref := range *v.Referrers() {
		switch x := ref.(type) {
		case *ssa.TypeAssert, *ssa.MakeInterface, *ssa.ChangeInterface, *ssa.ChangeType, *ssa.Phi, *ssa.Extract:
			if site, via := invokedOn(c, x.(ssa.Value), seen, depth); site != nil {
				return site, via
			}
		case ssa.CallInstruction:
			cc := x.Common()
			if cc.IsInvoke() && cc.Value == v {
				return x, "." + core.N(cc.Method) + "()"
			}
			callee := cc.StaticCallee()
			if callee == nil || !c.IsLib(callee) || callee.Blocks == nil {
				continue
			}
			for i, a := range cc.Args {
				if a == v && i < len(callee.Params) {
					if site, via := invokedOn(c, callee.Params[i], seen, depth+1); site != nil {
						return site, via + " in " + core.N(callee)
					}
				}
			}
		}
	}
	return nil, ""
}

package rules

import (
	"fmt"
	"go/ast"
	"go/constant"
	"go/token"
	"go/types"
	"strings"

	"golang.org/x/tools/go/ssa"

	"verif/gqlvet/core"
)

func init() {
	docs["C05"] = Doc{
		Explanation: "(EXH-input) the five recursive functions over input types — isValidInputValue, coerceValue (variables), valueFromAST, isValidLiteralValue (literals) and astFromValue (introspection) — each have an arm for every declared Input kind (Scalar, Enum, InputObject, List, NonNull) and the arms agree structurally: the NonNull arm recurses on OfType; the List arm has both the element-wise branch and the list-of-one recursion; the InputObject arm walks the defined fields recursively, the two validity functions also walk the provided fields reporting unknown ones, the two coercion functions fall back to the field's DefaultValue; the leaf arms call ParseValue / ParseLiteral and the validity functions test the result with isNullish; " +
			"(DOM-int32) every producer of an Int value is range-guarded: each arm of coerceInt for a Go type wider than 32 bits compares with the 32-bit bounds, and Int's ParseLiteral returns only coerceInt(...) or nil; " +
			"(DOM-order) in the execution goroutine variable coercion dominates the first resolver and its error exit neither executes anything nor sets data; " +
			"(FLOW-default) argument coercion falls back to the argument's DefaultValue exactly when the coerced value is nullish, variable coercion to the variable definition's default when the input is nullish, and both the plan-time and the per-request argument paths call the same function (C01/FLOW-args).",
		NotDecided: "numeric edge semantics inside strconv; custom scalars; that the literal and the variable path yield equal maps value by value (only that they have the same case structure and guards).",
	}
	register(&core.Rule{Name: "C05/EXH-input", Props: []string{"C05", "C02", "C10"}, Min: 24,
		Doc: "the five input-type recursions are closed over the input kinds and agree arm by arm", Run: c05Input})
	register(&core.Rule{Name: "C05/DOM-int32", Props: []string{"C05"}, Min: 8,
		Doc: "every Int producer is guarded by the 32-bit bounds", Run: c05Int32})
	register(&core.Rule{Name: "C05/DOM-order", Props: []string{"C05", "C09"}, Min: 2,
		Doc: "variable coercion precedes resolution; its failure yields errors only", Run: c05Order})
	register(&core.Rule{Name: "C05/FLOW-default", Props: []string{"C05"}, Min: 3,
		Doc: "argument / variable / input-field defaults applied exactly when the value is nullish", Run: c05Default})
}

type inputFn struct {
	name     string
	validity bool // reports messages
	coercion bool // produces values
	literal  bool // consumes AST (ParseLiteral) vs runtime values (ParseValue)
	chain    bool // assertion chain instead of a type switch
}

var inputFns = []inputFn{
	{"isValidInputValue", true, false, false, false},
	{"coerceValue", false, true, false, false},
	{"valueFromAST", false, true, true, false},
	{"isValidLiteralValue", true, false, true, false},
	{"astFromValue", false, false, false, true},
}

func c05Input(c *core.Ctx, r *core.Reporter) {
	want := c.DeclaredImplementers("", "Input")
	if len(want) != 5 {
		r.Unknown("Input", token.NoPos, "closed set of Input kinds not found (got %v)", want)
		return
	}
	for _, f := range inputFns {
		p, fd := c.FindDecl("", f.name)
		if fd == nil {
			r.Unknown(f.name, token.NoPos, "function not found")
			continue
		}
		info := p.TypesInfo
		self := info.Defs[fd.Name]
		arms := map[string]ast.Node{}
		if f.chain {
			// if ttype, ok := ttype.(*K); ok { … }
			ast.Inspect(fd.Body, func(x ast.Node) bool {
				iff, ok := x.(*ast.IfStmt)
				if !ok || iff.Init == nil {
					return true
				}
				as, ok := iff.Init.(*ast.AssignStmt)
				if !ok || len(as.Rhs) != 1 {
					return true
				}
				ta, ok := as.Rhs[0].(*ast.TypeAssertExpr)
				if !ok || ta.Type == nil {
					return true
				}
				if st := info.TypeOf(ta.X); st != nil && (core.TypeName(st) == "Type" || core.TypeName(st) == "Input") {
					if k := core.TypeName(info.TypeOf(ta.Type)); arms[k] == nil {
						arms[k] = iff.Body
					}
				}
				return true
			})
			// the guard spelling: `t, ok := ttype.(*K); if !ok { leave }` — the arm is what follows in the block
			ast.Inspect(fd.Body, func(x ast.Node) bool {
				blk, ok := x.(*ast.BlockStmt)
				if !ok {
					return true
				}
				for i, st := range blk.List {
					as, ok := st.(*ast.AssignStmt)
					if !ok || len(as.Lhs) != 2 || len(as.Rhs) != 1 || i+1 >= len(blk.List) {
						continue
					}
					ta, ok := as.Rhs[0].(*ast.TypeAssertExpr)
					if !ok || ta.Type == nil {
						continue
					}
					guard, ok := blk.List[i+1].(*ast.IfStmt)
					if !ok {
						continue
					}
					if ue, ok := guard.Cond.(*ast.UnaryExpr); !ok || ue.Op != token.NOT || core.ObjOf(info, ue.X) != core.ObjOf(info, as.Lhs[1]) {
						continue
					}
					if st := info.TypeOf(ta.X); st != nil && (core.TypeName(st) == "Type" || core.TypeName(st) == "Input") {
						if k := core.TypeName(info.TypeOf(ta.Type)); arms[k] == nil {
							arms[k] = &ast.BlockStmt{Lbrace: as.Pos(), List: blk.List[i+1:], Rbrace: blk.Rbrace}
						}
					}
				}
				return true
			})
		} else {
			for _, sw := range core.TypeSwitches(info, fd.Body, false) {
				if sw.Subject != nil && (core.TypeName(sw.Subject) == "Input" || core.TypeName(sw.Subject) == "Type") {
					for k, cl := range sw.Clauses {
						if arms[k] == nil {
							arms[k] = cl
						}
					}
				}
			}
			// isValidInputValue handles NonNull partly in a leading assertion
			ast.Inspect(fd.Body, func(x ast.Node) bool {
				if ta, ok := x.(*ast.TypeAssertExpr); ok && ta.Type != nil {
					if t := info.TypeOf(ta.Type); t != nil && core.TypeName(t) == "NonNull" && arms["NonNull"] == nil {
						arms["NonNull"] = fd.Body
					}
				}
				return true
			})
		}
		need := want
		if f.chain {
			need = []string{"Enum", "InputObject", "List", "NonNull"} // scalars are printed by Go value kind
		}
		for _, k := range need {
			arm := arms[k]
			key := f.name + "/" + k
			if arm == nil {
				r.Bad(key, fd.Pos(), "%s has no arm for input kind %s: values of that kind fall through (unchecked, uncoerced or printed with Go formatting), so the literal and the variable path no longer agree", f.name, k)
				continue
			}
			selfCalls := 0
			calls := map[string]bool{}
			strs := []string{}
			// a tail call written as a loop: the type parameter is re-assigned and the function's loop continued
			var typeParam types.Object
			for _, fl := range fd.Type.Params.List {
				for _, nm := range fl.Names {
					if tn := core.TypeName(info.TypeOf(fl.Type)); tn == "Type" || tn == "Input" {
						typeParam = info.Defs[nm]
					}
				}
			}
			hasContinue := false
			tailAssigns := 0
			ast.Inspect(arm, func(x ast.Node) bool {
				switch y := x.(type) {
				case *ast.BranchStmt:
					if y.Tok == token.CONTINUE {
						hasContinue = true
					}
				case *ast.AssignStmt:
					if y.Tok == token.ASSIGN {
						for _, l := range y.Lhs {
							if id, ok := l.(*ast.Ident); ok && typeParam != nil && info.Uses[id] == typeParam {
								tailAssigns++
							}
						}
					}
				}
				return true
			})
			bareLoop := false
			ast.Inspect(fd.Body, func(x ast.Node) bool {
				if fs, ok := x.(*ast.ForStmt); ok && fs.Cond == nil && fs.Init == nil && fs.Post == nil && fs.Pos() <= arm.Pos() && arm.End() <= fs.End() {
					bareLoop = true
				}
				return true
			})
			if hasContinue || bareLoop {
				selfCalls += tailAssigns
			}
			ast.Inspect(arm, func(x ast.Node) bool {
				switch y := x.(type) {
				case *ast.CallExpr:
					if fo := core.CalleeObj(info, y); fo != nil {
						if fo == self {
							selfCalls++
						}
						calls[core.N(fo)] = true
					}
				case *ast.BasicLit:
					if y.Kind == token.STRING {
						strs = append(strs, y.Value)
					}
				}
				return true
			})
			reads := core.FieldsRead(info, []ast.Node{arm})
			problem := ""
			switch k {
			case "NonNull":
				if selfCalls < 1 || !reads["graphql.NonNull"]["OfType"] {
					problem = "the NonNull arm does not recurse on OfType"
				}
			case "List":
				if selfCalls < 2 || !reads["graphql.List"]["OfType"] {
					problem = fmt.Sprintf("the List arm has %d recursive call(s) on OfType; it needs the element-wise branch and the list-of-one branch", selfCalls)
				}
			case "InputObject":
				if selfCalls < 1 || !calls["Fields"] {
					problem = "the InputObject arm does not walk the defined fields recursively"
				}
				if f.validity {
					unknown := false
					for _, s := range strs {
						if strings.Contains(s, "Unknown field") {
							unknown = true
						}
					}
					if !unknown {
						problem = "the InputObject arm does not report provided fields that are not defined (Unknown field)"
					}
				}
				if f.coercion && !reads["graphql.InputObjectField"]["DefaultValue"] {
					problem = "the InputObject arm does not fall back to the input field's DefaultValue"
				}
			case "Scalar", "Enum":
				parse := "ParseValue"
				if f.literal {
					parse = "ParseLiteral"
				}
				if f.chain {
					if k == "Enum" && !calls["Serialize"] {
						problem = "the Enum arm does not map the internal value to its name through Serialize"
					}
				} else if !calls[parse] {
					problem = "the " + k + " arm does not call " + parse
				} else if f.validity && !calls["isNullish"] {
					problem = "the " + k + " arm does not test the parse result with isNullish"
				}
			}
			r.Check(problem == "", key, arm.Pos(), "arm present with the structure its siblings have", f.name+": "+problem)
		}
	}
}

func c05Int32(c *core.Ctx, r *core.Reporter) {
	p, fd := c.FindDecl("", "coerceInt")
	if fd == nil {
		r.Unknown("coerceInt", token.NoPos, "not found")
		return
	}
	info := p.TypesInfo
	wide := map[string]bool{"int": true, "int64": true, "uint": true, "uint32": true, "uint64": true, "float32": true, "float64": true}
	signed := map[string]bool{"int": true, "int64": true, "float32": true, "float64": true}
	sws := core.TypeSwitches(info, fd.Body, false)
	if len(sws) != 1 {
		r.Unknown("coerceInt", fd.Pos(), "expected one type switch")
		return
	}
	self := info.Defs[fd.Name]
	for tn, cl := range sws[0].Clauses {
		if !wide[tn] {
			continue
		}
		hasMax, hasMin := false, false
		ast.Inspect(cl, func(x ast.Node) bool {
			be, ok := x.(*ast.BinaryExpr)
			if !ok {
				return true
			}
			for _, e := range []ast.Expr{be.X, be.Y} {
				tv, ok := info.Types[e]
				if !ok || tv.Value == nil {
					continue
				}
				v := constant.ToFloat(tv.Value)
				if v.Kind() != constant.Float && v.Kind() != constant.Int {
					continue
				}
				f, _ := constant.Float64Val(v)
				if f == 2147483647 {
					hasMax = true
				}
				if f == -2147483648 {
					hasMin = true
				}
			}
			return true
		})
		ok := hasMax && (hasMin || !signed[tn])
		r.Check(ok, "coerceInt/"+tn, cl.Pos(), "arm compares with the 32-bit bounds before converting",
			"coerceInt's arm for "+tn+" does not compare the value with the 32-bit bounds: out-of-range integers are accepted as Int")
	}
	// pointer / string arms must funnel into coerceInt (or a narrow conversion)
	for tn, cl := range sws[0].Clauses {
		if tn != "string" {
			continue
		}
		calls := false
		ast.Inspect(cl, func(x ast.Node) bool {
			if call, ok := x.(*ast.CallExpr); ok && core.CalleeObj(info, call) == self {
				calls = true
			}
			return true
		})
		r.Check(calls, "coerceInt/string", cl.Pos(), "parsed strings go through coerceInt's range check", "numeric strings are converted without the 32-bit range check")
	}
	// Int's ScalarConfig: ParseLiteral returns only coerceInt(…) or nil; Serialize/ParseValue are coerceInt
	pkg := c.Pkg("")
	found := false
	for _, f := range pkg.Syntax {
		for _, d := range f.Decls {
			gd, ok := d.(*ast.GenDecl)
			if !ok {
				continue
			}
			for _, sp := range gd.Specs {
				vs, ok := sp.(*ast.ValueSpec)
				if !ok || len(vs.Names) != 1 || vs.Names[0].Name != "Int" || len(vs.Values) != 1 {
					continue
				}
				ast.Inspect(vs.Values[0], func(x ast.Node) bool {
					kv, ok := x.(*ast.KeyValueExpr)
					if !ok {
						return true
					}
					id, ok := kv.Key.(*ast.Ident)
					if !ok {
						return true
					}
					switch id.Name {
					case "Serialize", "ParseValue":
						r.Check(core.ObjOf(info, kv.Value) == self, "Int/"+id.Name, kv.Pos(), "is coerceInt", "Int."+id.Name+" is no longer coerceInt (the range-guarded conversion)")
					case "ParseLiteral":
						found = true
						var body *ast.BlockStmt
						if fl, ok := kv.Value.(*ast.FuncLit); ok {
							body = fl.Body
						} else if fo, ok := core.ObjOf(info, kv.Value).(*types.Func); ok && types.Object(fo) != self {
							// a named function of the package in place of the literal
							if fd := c.DeclOfObj(fo); fd != nil {
								body = fd.Body
							}
						}
						if body == nil {
							r.Check(core.ObjOf(info, kv.Value) == self, "Int/ParseLiteral", kv.Pos(), "is coerceInt", "Int.ParseLiteral is neither a function of this package nor coerceInt")
							return true
						}
						bad := ""
						ast.Inspect(body, func(y ast.Node) bool {
							ret, ok := y.(*ast.ReturnStmt)
							if !ok || len(ret.Results) != 1 {
								return true
							}
							e := ret.Results[0]
							if isNilIdent(info, e) {
								return true
							}
							if call, ok := e.(*ast.CallExpr); ok && core.CalleeObj(info, call) == self {
								return true
							}
							bad = core.ExprString(e)
							return true
						})
						r.Check(bad == "", "Int/ParseLiteral", kv.Pos(), "returns only coerceInt(…) or nil",
							"Int.ParseLiteral returns "+bad+" without the 32-bit range check: an Int literal such as 3000000000 is accepted while the same value as a variable is rejected")
					}
					return true
				})
			}
		}
	}
	if !found {
		r.Unknown("Int/ParseLiteral", token.NoPos, "Int scalar configuration not found")
	}
}

func c05Order(c *core.Ctx, r *core.Reporter) {
	ep := c.Func("", "ExecutePlan")
	if ep == nil {
		r.Unknown("ExecutePlan", token.NoPos, "not found")
		return
	}
	var worker *ssa.Function
	core.Instrs(ep, func(in ssa.Instruction) {
		if g, ok := in.(*ssa.Go); ok {
			worker = core.GoTarget(g)
		}
	})
	gvv := c.Func("", "getVariableValues")
	eps := c.Func("", "executePlannedSelection")
	if worker == nil || gvv == nil || eps == nil {
		r.Unknown("ExecutePlan.worker", ep.Pos(), "worker / getVariableValues / executePlannedSelection not found")
		return
	}
	cv := core.CallsTo(worker, gvv, false)
	ce := core.CallsTo(worker, eps, false)
	if len(cv) != 1 || len(ce) != 1 {
		r.Bad("ExecutePlan.worker/coercion-first", worker.Pos(), "expected one getVariableValues and one executePlannedSelection call in the worker")
		return
	}
	r.Check(core.InstrDominates(cv[0], ce[0]), "ExecutePlan.worker/coercion-first", cv[0].Pos(),
		"variable coercion dominates the first resolver", "resolvers can start before the variables were coerced")
	// error branch: err != nil -> block that returns without reaching the execute call and without storing Data
	call := cv[0].(*ssa.Call)
	okErr := false
	for _, ref := range *call.Referrers() {
		ex, ok := ref.(*ssa.Extract)
		if !ok || ex.Index != 1 {
			continue
		}
		for _, r2 := range *ex.Referrers() {
			bo, ok := r2.(*ssa.BinOp)
			if !ok || bo.Op != token.NEQ {
				continue
			}
			for _, r3 := range *bo.Referrers() {
				iff, ok := r3.(*ssa.If)
				if !ok {
					continue
				}
				errB := iff.Block().Succs[0]
				reach := core.Reachable(errB)
				storesData := false
				for b := range reach {
					for _, in := range b.Instrs {
						if st, ok := in.(*ssa.Store); ok {
							if f := core.FieldOf(st.Addr); f != nil && core.N(f) == "Data" {
								storesData = true
							}
						}
					}
				}
				if !reach[ce[0].Block()] && !storesData && !iff.Block().Succs[0].Dominates(ce[0].Block()) {
					okErr = true
				}
			}
		}
	}
	r.Check(okErr, "ExecutePlan.worker/coercion-error-exit", cv[0].Pos(),
		"a coercion error leaves without executing anything and without data",
		"after a variable coercion error the worker can still execute the selection or set Data")
	// the variables handed to the execution context are the coerced ones (C20/LIT-info executionContext.VariableValues)
}

func c05Default(c *core.Ctx, r *core.Reporter) {
	gav := c.Func("", "getArgumentValues")
	if gav == nil {
		r.Unknown("getArgumentValues", token.NoPos, "not found")
		return
	}
	okVal, okKey, n := false, false, 0
	core.Instrs(gav, func(in ssa.Instruction) {
		mu, ok := in.(*ssa.MapUpdate)
		if !ok || !core.HasClass(mu.Map, "make") {
			return
		}
		if !core.HasClass(mu.Key, "field:Argument.PrivateName") {
			return
		}
		n++
		okKey = true
		cl := core.Classes(mu.Value)
		has := map[string]bool{}
		for _, x := range cl {
			has[x] = true
		}
		okVal = has["call:valueFromAST"] && has["field:Argument.DefaultValue"] && len(cl) == 2
	})
	r.Check(n == 1 && okKey && okVal, "getArgumentValues/value-or-default", gav.Pos(),
		"each argument receives the coerced literal/variable value or, failing that, the argument's DefaultValue, under its own name",
		"getArgumentValues no longer stores exactly {coerced value, argument default} under the argument's name")
	// the default is taken only when the coerced value is nullish, and nullish results are not stored
	nullish := core.CallsTo(gav, c.Func("", "isNullish"), false)
	r.Check(len(nullish) == 2, "getArgumentValues/nullish-guards", gav.Pos(),
		"nullish test before defaulting and before storing", fmt.Sprintf("expected two isNullish guards (default when nullish; store unless nullish), found %d", len(nullish)))
	// variable defaults
	gv := c.Func("", "getVariableValue")
	if gv == nil {
		r.Unknown("getVariableValue", token.NoPos, "not found")
		return
	}
	// before(a, b): a is executed before b on every path to b — in one function by dominance, across the phases a
	// function has been split into by dominance of the calls that enter them
	before := func(a, b ssa.Instruction) bool {
		if a.Parent() == b.Parent() {
			return core.InstrDominates(a, b)
		}
		aa, ab := c.Anchor(gv, a), c.Anchor(gv, b)
		return aa != nil && ab != nil && aa != ab && core.InstrDominates(aa, ab)
	}
	okDef := false
	for _, ci := range c.RegionCallsTo(gv, c.Func("", "valueFromAST")) {
		if core.HasClass(ci.Common().Args[0], "field:VariableDefinition.DefaultValue") {
			// dominated by an isNullish(input) test; the input is the function's parameter or, when the function is inlined
			// into the loop over the definitions, the entry of the inputs map
			for _, nc := range c.RegionCallsTo(gv, c.Func("", "isNullish")) {
				inputArg := core.HasClass(nc.Common().Args[0], "param:interface{}") || core.HasClass(nc.Common().Args[0], "index(param:map[string]interface{})")
				if before(nc, ci) && inputArg {
					okDef = true
				}
			}
		}
	}
	r.Check(okDef, "getVariableValue/default-when-nullish", gv.Pos(),
		"the variable definition's default is used only when the provided value is nullish",
		"getVariableValue does not apply the variable's default value under an isNullish(input) test")
	// validation precedes coercion
	valid := c.RegionCallsTo(gv, c.Func("", "isValidInputValue"))
	coerce := c.RegionCallsTo(gv, c.Func("", "coerceValue"))
	r.Check(len(valid) == 1 && len(coerce) == 1 && before(valid[0], coerce[0]), "getVariableValue/validate-before-coerce", gv.Pos(),
		"isValidInputValue dominates coerceValue", "variable values are coerced without (or before) being validated")
	_ = types.Typ
}

func init() {
	register(&core.Rule{Name: "C05/PAIR-fieldloop", Props: []string{"C05"}, Min: 2,
		Doc: "an input object is never produced without going through the loop over the type's fields (where defaults are filled in)", Run: c05FieldLoop})
}

// c05FieldLoop: coerceValue and valueFromAST build an input object in a loop over the type's declared fields; that loop
// is where omitted fields get their defaults. An exit of the *InputObject arm that hands back a non-nil value before
// the loop (an "empty input, nothing to do" shortcut) yields an object without its defaults, and only on one of the
// two paths (variables vs. literals), so the same value gives different arguments depending on how it was supplied.
func c05FieldLoop(c *core.Ctx, r *core.Reporter) {
	for _, name := range []string{"coerceValue", "valueFromAST"} {
		p, fd := c.FindDecl("", name)
		if fd == nil {
			r.Unknown(name+"/InputObject", token.NoPos, "not found")
			continue
		}
		info := p.TypesInfo
		var cl *ast.CaseClause
		for _, sw := range core.TypeSwitches(info, fd.Body, false) {
			if sw.Clauses["InputObject"] != nil {
				cl = sw.Clauses["InputObject"]
			}
		}
		if cl == nil {
			r.Unknown(name+"/InputObject", fd.Pos(), "no *InputObject arm")
			continue
		}
		loop := -1
		for i, st := range cl.Body {
			rs, ok := st.(*ast.RangeStmt)
			if !ok {
				continue
			}
			if call, ok := rs.X.(*ast.CallExpr); ok {
				if f := core.CalleeObj(info, call); f != nil && core.N(f) == "Fields" {
					loop = i
					break
				}
			}
		}
		if loop < 0 {
			r.Bad(name+"/InputObject", cl.Pos(), "the *InputObject arm of %s has no loop over the type's Fields(): declared defaults of omitted input fields are not applied", name)
			continue
		}
		var early ast.Node
		for _, st := range cl.Body[:loop] {
			ast.Inspect(st, func(n ast.Node) bool {
				if _, ok := n.(*ast.FuncLit); ok {
					return false
				}
				ret, ok := n.(*ast.ReturnStmt)
				if !ok || len(ret.Results) != 1 {
					return true
				}
				if id, ok := ret.Results[0].(*ast.Ident); ok && id.Name == "nil" && info.Uses[id] == types.Universe.Lookup("nil") {
					return true
				}
				if early == nil {
					early = ret
				}
				return true
			})
		}
		if early != nil {
			r.Bad(name+"/InputObject", early.Pos(), "the *InputObject arm of %s returns a non-nil value before the loop over the type's fields: that result has none of the declared input-field defaults, while the sibling path (literal vs. variable) still fills them in — the same input gives different arguments depending on how it is supplied", name)
		} else {
			r.OK(name+"/InputObject", cl.Pos(), "the only exits before the field loop return nil")
		}
	}
}

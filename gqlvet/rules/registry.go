// Package rules holds the repository-specific rules, one file per property
// (shared families in their own files).
package rules

import (
	"sort"

	"verif/gqlvet/core"
)

var registry []*core.Rule

func register(r *core.Rule) { registry = append(registry, r) }

// All returns every rule sorted by name.
func All() []*core.Rule {
	out := append([]*core.Rule(nil), registry...)
	sort.SliceStable(out, func(i, j int) bool { return out[i].Name < out[j].Name })
	return out
}

// ForProp returns the rules that decide clauses of a property.
func ForProp(prop string) []*core.Rule {
	var out []*core.Rule
	for _, r := range All() {
		for _, p := range r.Props {
			if p == prop {
				out = append(out, r)
				break
			}
		}
	}
	return out
}

// Doc is the per-property statement of what is and is not decided.
type Doc struct {
	Explanation string
	NotDecided  string
	Assumptions []string
}

var docs = map[string]Doc{}

var commonAssumptions = []string{
	"go/packages, go/types and go/ssa (golang.org/x/tools v0.29.0) model the Go program faithfully; the analysed build is the default build of /repo plus, in the thorough tier, GOARCH=386 and -tags verif",
	"user callbacks (resolvers, type resolvers, scalar functions, extensions, thunks) are opaque: they may return any value, panic with any value, block or re-enter the library",
	"repository-specific tables frozen in the checker (anchors, correspondences, accepted idioms) were confirmed by reading the pinned tree; an unresolved anchor or unrecognised idiom fails the check rather than passing",
	"only the structural clauses named in coverage.explanation are decided; the behavioural headline of the property is not",
}

// PropDoc returns the documentation of a property's check.
func PropDoc(prop string) Doc {
	d := docs[prop]
	d.Assumptions = append(append([]string(nil), commonAssumptions...), d.Assumptions...)
	if d.Explanation == "" {
		d.Explanation = "rules: "
		for _, r := range ForProp(prop) {
			d.Explanation += r.Name + " (" + r.Doc + "); "
		}
	}
	return d
}

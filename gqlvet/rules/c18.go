package rules

import (
	"fmt"
	"go/ast"
	"go/constant"
	"go/token"
	"go/types"
	"sort"
	"strings"

	"golang.org/x/tools/go/ssa"

	"verif/gqlvet/core"
)

func init() {
	docs["C18"] = Doc{
		Explanation: "Position values are arithmetic over inputs and are NOT decided. Decided: " +
			"(FLOW-offset) byte offsets and rune counts never mix in the lexer: an integer that is incremented by 1 in a block where a sibling integer is advanced by the byte width returned by runeAt is a rune counter (it drifts from the byte offset on multi-byte input); it and everything derived from it (phi, +const, arguments, results — interprocedural within package lexer) must not reach a byte-domain sink: the position of gqlerrors.NewSyntaxError (turned into line/column by comparing with byte indices of line terminators) or the start/end of makeToken (fed back to the lexer as a byte reset position and stored in every ast.Location); " +
			"(FLOW-nodepos) validation and field errors take their positions from node.GetLoc().Start, and every reporting site passes the offending node (C02/LIT-located); " +
			"(FLOW-path) response paths are built from the response key (alias-aware), list paths from the index of the element being completed, and every handleFieldError / located-error call passes the path of its own frame (C04/PAIR-recover handler-path, C20/FLOW-parent); " +
			"(DOM-nullpath) the frame that records an error for a path is the frame whose return value becomes the data at that path (C04).",
		NotDecided: "line/column arithmetic for CR / LF / CRLF in location.GetLocation; 'first offending token' for syntax errors.",
	}
	register(&core.Rule{Name: "C18/FLOW-offset", Props: []string{"C18", "C03"}, Min: 8,
		Doc: "rune counters never reach byte-offset sinks in the lexer", Run: c18Offset})
	register(&core.Rule{Name: "C18/FLOW-nodepos", Props: []string{"C18"}, Min: 2,
		Doc: "node positions come from Loc.Start", Run: c18NodePos})
	register(&core.Rule{Name: "C18/FLOW-path", Props: []string{"C18", "C20"}, Min: 4,
		Doc: "paths are built from response keys and element indices of the own frame", Run: c18Path})
}

func c18Offset(c *core.Ctx, r *core.Reporter) {
	sp := c.SSA["language/lexer"]
	runeAt := c.Func("language/lexer", "runeAt")
	makeTok := c.Func("language/lexer", "makeToken")
	synErr := c.Func("gqlerrors", "NewSyntaxError")
	if runeAt == nil || synErr == nil {
		r.Unknown("lexer", token.NoPos, "runeAt / NewSyntaxError not found")
		return
	}
	// makeTok may be nil: the constructor written in place as Token{Start: …, End: …} literals (handled with the sinks)
	var fns []*ssa.Function
	for _, m := range sp.Members {
		if fn, ok := m.(*ssa.Function); ok && fn.Blocks != nil {
			fns = append(fns, core.WithAnon(fn)...)
		}
	}
	sort.Slice(fns, func(i, j int) bool { return fns[i].Pos() < fns[j].Pos() })
	// width values: second result of runeAt, and parameters fed with one
	width := map[ssa.Value]bool{}
	for _, fn := range fns {
		core.Instrs(fn, func(in ssa.Instruction) {
			if ex, ok := in.(*ssa.Extract); ok && ex.Index == 1 {
				if call, ok := ex.Tuple.(*ssa.Call); ok && call.Call.StaticCallee() == runeAt {
					width[ex] = true
				}
			}
		})
	}
	for pass := 0; pass < 3; pass++ {
		for _, fn := range fns {
			for _, ci := range core.CallSites(fn) {
				cal := ci.Common().StaticCallee()
				if cal == nil || cal.Pkg != sp {
					continue
				}
				for i, a := range ci.Common().Args {
					if widthLike(a, width) && i < len(cal.Params) {
						width[cal.Params[i]] = true
					}
				}
			}
			core.Instrs(fn, func(in ssa.Instruction) {
				if phi, ok := in.(*ssa.Phi); ok {
					all := true
					for _, e := range phi.Edges {
						if !width[e] {
							all = false
						}
					}
					if all && len(phi.Edges) > 0 {
						width[phi] = true
					}
				}
			})
		}
	}
	// taint roots: y+1 in a block that also advances another integer by a width
	tainted := map[ssa.Value]bool{}
	for _, fn := range fns {
		for _, b := range fn.Blocks {
			var byteAdv, unit []*ssa.BinOp
			for _, in := range b.Instrs {
				bo, ok := in.(*ssa.BinOp)
				if !ok || bo.Op != token.ADD {
					continue
				}
				if widthLike(bo.Y, width) || widthLike(bo.X, width) {
					byteAdv = append(byteAdv, bo)
				} else if v, ok := core.ConstInt(bo.Y); ok && v == 1 {
					unit = append(unit, bo)
				}
			}
			if len(byteAdv) > 0 {
				for _, u := range unit {
					tainted[u] = true
				}
			}
		}
	}
	nroots := len(tainted)
	// propagate
	retTaint := map[*ssa.Function]map[int]bool{}
	changed := true
	for iter := 0; changed && iter < 20; iter++ {
		changed = false
		mark := func(v ssa.Value) {
			if v != nil && !tainted[v] {
				tainted[v] = true
				changed = true
			}
		}
		for _, fn := range fns {
			core.Instrs(fn, func(in ssa.Instruction) {
				switch x := in.(type) {
				case *ssa.Phi:
					for _, e := range x.Edges {
						if tainted[e] {
							mark(x)
						}
					}
				case *ssa.BinOp:
					if x.Op == token.ADD || x.Op == token.SUB {
						if tainted[x.X] {
							if _, ok := core.ConstInt(x.Y); ok {
								mark(x)
							}
						}
					}
				case *ssa.Return:
					for i, res := range x.Results {
						if tainted[res] {
							if retTaint[fn] == nil {
								retTaint[fn] = map[int]bool{}
							}
							if !retTaint[fn][i] {
								retTaint[fn][i] = true
								changed = true
							}
						}
					}
				case *ssa.Extract:
					if call, ok := x.Tuple.(*ssa.Call); ok {
						if cal := call.Call.StaticCallee(); cal != nil && retTaint[cal][x.Index] {
							mark(x)
						}
					}
				case *ssa.Call:
					if cal := x.Call.StaticCallee(); cal != nil {
						if cal.Signature.Results().Len() == 1 && retTaint[cal][0] {
							mark(x)
						}
						if cal.Pkg == sp {
							for i, a := range x.Call.Args {
								if tainted[a] && i < len(cal.Params) {
									mark(cal.Params[i])
								}
							}
						}
					}
				}
			})
		}
	}
	if nroots == 0 {
		r.OK("lexer/no-rune-counters", runeAt.Pos(), "no integer is incremented by 1 alongside a byte-width advance: only byte offsets exist")
	}
	// sinks. A sink inside a helper extracted from a pinned function is counted with that function (after the function's
	// own sinks), so that moving code into a helper does not turn recorded findings into new ones.
	type sinkSite struct {
		host  string
		own   bool
		pos   token.Pos
		vals  []ssa.Value // the byte-domain operands
		what  string
		where string
	}
	var all []sinkSite
	for _, fn := range fns {
		host, own := fnKey(fn), true
		if c.IsFresh(fn) {
			callers := map[string]bool{}
			for _, g := range fns {
				if g == fn || c.IsFresh(g) {
					continue
				}
				for _, rg := range c.Region(g) {
					if rg == fn {
						callers[fnKey(g)] = true
					}
				}
			}
			if len(callers) == 1 {
				for k := range callers {
					host, own = k, false
				}
			}
		}
		for _, ci := range core.CallSites(fn) {
			cal := ci.Common().StaticCallee()
			args := ci.Common().Args
			switch {
			case cal == synErr && len(args) > 1:
				all = append(all, sinkSite{host, own, ci.Pos(), []ssa.Value{args[1]}, "NewSyntaxError.position", fnKey(fn)})
			case makeTok != nil && cal == makeTok && len(args) > 2:
				all = append(all, sinkSite{host, own, ci.Pos(), []ssa.Value{args[1], args[2]}, "makeToken.start/end", fnKey(fn)})
			}
		}
		// Token literals (makeToken written in place): the values stored into Start / End of each literal
		if fn != makeTok {
			lits := core.LiteralStores(fn, "Token")
			var allocs []*ssa.Alloc
			for al := range lits {
				allocs = append(allocs, al)
			}
			sort.Slice(allocs, func(i, j int) bool { return allocs[i].Pos() < allocs[j].Pos() })
			for _, al := range allocs {
				var vals []ssa.Value
				vals = append(vals, lits[al]["Start"]...)
				vals = append(vals, lits[al]["End"]...)
				if len(vals) > 0 {
					all = append(all, sinkSite{host, own, al.Pos(), vals, "makeToken.start/end", fnKey(fn)})
				}
			}
		}
	}
	sort.SliceStable(all, func(i, j int) bool {
		if all[i].host != all[j].host {
			return all[i].host < all[j].host
		}
		if all[i].own != all[j].own {
			return all[i].own
		}
		return all[i].pos < all[j].pos
	})
	per := map[string]int{}
	for _, sk := range all {
		per[sk.host+"/"+sk.what]++
		key := fmt.Sprintf("%s/%s#%d", sk.host, sk.what, per[sk.host+"/"+sk.what])
		bad := false
		for _, v := range sk.vals {
			if tainted[v] {
				bad = true
			}
		}
		if bad {
			r.Bad(key, sk.pos, "%s passes a rune count (an integer advanced by 1 per character while the byte offset advances by the character's width) to %s, which is interpreted as a byte offset: after a multi-byte character the reported line/column and the token bounds are wrong", sk.where, sk.what)
		} else {
			r.OK(key, sk.pos, "byte-domain argument")
		}
	}
}

func widthLike(v ssa.Value, width map[ssa.Value]bool) bool { return width[v] }

func c18NodePos(c *core.Ctx, r *core.Reporter) {
	// The constructor of located errors: found by what it does (it turns positions into locations with
	// location.GetLocation inside a loop), not by its name — newError today, but the body may be inlined into the exported
	// constructors or split into helpers.
	p := c.Pkg("gqlerrors")
	gl := c.Func("language/location", "GetLocation")
	if p == nil || gl == nil {
		r.Unknown("gqlerrors.newError", token.NoPos, "package gqlerrors / location.GetLocation not found")
		return
	}
	var loopCall ssa.CallInstruction
	for _, fn := range c.LibFuncs() {
		if fn.Pkg == nil || fn.Pkg != c.SSA["gqlerrors"] {
			continue
		}
		for _, ci := range core.CallsTo(fn, gl, false) {
			if core.InAnyLoop(ci.Block()) {
				loopCall = ci
			}
		}
	}
	pos := token.NoPos
	if loopCall != nil {
		pos = loopCall.Pos()
	}
	r.Check(loopCall != nil, "gqlerrors.newError/locations-per-position", pos, "one location computed per position",
		"package gqlerrors no longer computes a location for each position of an error")
	// node positions are Loc.Start, nowhere Loc.End, in the whole package
	var decls []ast.Node
	for _, f := range p.Syntax {
		for _, d := range f.Decls {
			if fd, ok := d.(*ast.FuncDecl); ok && fd.Body != nil {
				decls = append(decls, fd)
			}
		}
	}
	reads := core.FieldsRead(p.TypesInfo, decls)["ast.Location"]
	r.Check(reads["Start"] && !reads["End"], "gqlerrors.newError/position-from-Loc.Start", pos,
		"error positions are the nodes' Loc.Start", "package gqlerrors does not take node positions from Loc.Start (or reads Loc.End): validation and field errors point at the wrong place")
}

func c18Path(c *core.Ctx, r *core.Reporter) {
	eps := c.Func("", "executePlannedSelection")
	wk := c.Func("", "ResponsePath.WithKey")
	if eps == nil || wk == nil {
		r.Unknown("executePlannedSelection", token.NoPos, "not found")
		return
	}
	calls := core.CallsTo(eps, wk, false)
	ok := len(calls) == 1
	if ok {
		ok, _ = core.OnlyClasses(calls[0].Common().Args[1], "field:fieldPlan.responseKey")
	}
	pos := eps.Pos()
	if len(calls) > 0 {
		pos = calls[0].Pos()
	}
	r.Check(ok, "executePlannedSelection/child-path-key", pos, "a field's path element is its response key (alias-aware)",
		"the path element of a field is not fieldPlan.responseKey (e.g. the field name): errors under aliased fields carry a path that does not address the response")
	// the result map is keyed by the same response key
	okKey := false
	core.Instrs(eps, func(in ssa.Instruction) {
		if mu, isMU := in.(*ssa.MapUpdate); isMU && core.HasClass(mu.Map, "make") {
			okKey, _ = core.OnlyClasses(mu.Key, "field:fieldPlan.responseKey")
		}
	})
	r.Check(okKey, "executePlannedSelection/result-key", pos, "results are stored under the response key", "results are not stored under fieldPlan.responseKey")
	// the path handed to the resolver frame is the one just built (checked in C20/FLOW-parent); the root passes nil
	// WithKey builds a new node (no sharing/mutation of the parent's path)
	if wk != nil {
		fresh := false
		for _, ret := range core.Returns(wk) {
			for _, cl := range core.Classes(core.RetVal(ret, 0)) {
				if cl == "alloc:ResponsePath" {
					fresh = true
				}
			}
		}
		mut := false
		for _, w := range core.WritesIn(wk) {
			if !w.Fresh {
				mut = true
			}
		}
		r.Check(fresh && !mut, "ResponsePath.WithKey/fresh-node", wk.Pos(), "WithKey allocates a new path node and never writes its receiver",
			"WithKey mutates or reuses an existing path node: sibling fields and list elements share and overwrite each other's paths")
	}
	// NewLocatedErrorWithPath in the non-null arm uses the frame's own path
	if cpv := c.Func("", "completePlannedValue"); cpv != nil {
		okP := false
		for _, ci := range core.CallsTo(cpv, c.Func("", "NewLocatedErrorWithPath"), false) {
			okP = core.HasClass(ci.Common().Args[2], "call:ResponsePath.AsArray")
		}
		r.Check(okP, "completePlannedValue/nonnull-error-path", cpv.Pos(), "the non-null violation is located at the frame's own path",
			"the 'Cannot return null for non-nullable field' error is not given the frame's own path")
	}
}

func init() {
	register(&core.Rule{Name: "C18/EXH-lineterm", Props: []string{"C18", "C09"}, Min: 1,
		Doc: "every place that splits the source into lines uses the same line-terminator pattern", Run: c18LineTerm})
}

// c18LineTerm: location.GetLocation (line/column), gqlerrors.highlightSourceAtLocation (the
// quoted source lines) and the lexer's block-string line splitting must agree on what a line
// terminator is (LF, CR, CRLF as one): a disagreement shifts reported lines after a CR or CRLF.
func c18LineTerm(c *core.Ctx, r *core.Reporter) {
	pats := map[string][]string{}
	var pos token.Pos
	for _, rel := range []string{"language/location", "gqlerrors", "language/lexer"} {
		p := c.Pkg(rel)
		for _, f := range p.Syntax {
			ast.Inspect(f, func(x ast.Node) bool {
				call, ok := x.(*ast.CallExpr)
				if !ok || len(call.Args) != 1 {
					return true
				}
				fo := core.CalleeObj(p.TypesInfo, call)
				if fo == nil || fo.Pkg() == nil || fo.Pkg().Path() != "regexp" || core.N(fo) != "MustCompile" {
					return true
				}
				s := constString(p.TypesInfo, call.Args[0])
				if s != "" && (containsAny(s, `\n`, "\n") || containsAny(s, `\r`, "\r")) {
					pats[s] = append(pats[s], rel)
					pos = call.Pos()
				}
				return true
			})
		}
	}
	n := 0
	for _, v := range pats {
		n += len(v)
	}
	if n < 1 {
		r.Unknown("line-terminator-pattern", pos, "expected line-splitting patterns in location, gqlerrors and lexer; found %d", n)
		return
	}
	var desc []string
	for k, v := range pats {
		desc = append(desc, fmt.Sprintf("%q in %v", k, v))
	}
	sort.Strings(desc)
	r.Check(len(pats) == 1, "line-terminator-pattern", pos, "one line-terminator pattern shared by all "+fmt.Sprint(n)+" line-splitting sites: "+desc[0],
		"the line-splitting sites disagree on the line-terminator pattern ("+fmt.Sprint(desc)+"): line numbers, columns and the quoted source lines no longer agree for CR / CRLF input")
}

func containsAny(s string, subs ...string) bool {
	for _, x := range subs {
		if len(x) > 0 && len(s) >= len(x) {
			for i := 0; i+len(x) <= len(s); i++ {
				if s[i:i+len(x)] == x {
					return true
				}
			}
		}
	}
	return false
}

func init() {
	register(&core.Rule{Name: "C03/EXH-lineterm-scan", Props: []string{"C03", "C18"}, Min: 4,
		Doc: "every scanner condition or search that looks for one of LF / CR looks for the other too", Run: c03LineTermScan})
}

// c03LineTermScan: the grammar's LineTerminator is LF, CR or CRLF. In the packages that scan request text, a condition
// that compares a character with LF must compare it with CR as well (and the other way round), and no search / split
// call may look for "\n" alone: text whose lines end in a bare CR would be scanned as one line.
func c03LineTermScan(c *core.Ctx, r *core.Reporter) {
	per := map[string]int{}
	for _, rel := range []string{"language/lexer", "language/location", "gqlerrors"} {
		p := c.Pkg(rel)
		if p == nil {
			r.Unknown(rel, token.NoPos, "package not loaded")
			continue
		}
		info := p.TypesInfo
		constInt := func(e ast.Expr) (int64, bool) {
			tv, ok := info.Types[e]
			if !ok || tv.Value == nil || tv.Value.Kind() != constant.Int {
				return 0, false
			}
			return constant.Int64Val(tv.Value)
		}
		for _, f := range p.Syntax {
			done := map[ast.Node]bool{}
			core.WalkStack(f, func(n ast.Node, stack []ast.Node) bool {
				switch x := n.(type) {
				case *ast.BinaryExpr:
					if x.Op != token.EQL && x.Op != token.NEQ {
						return true
					}
					v, ok := constInt(x.Y)
					if !ok {
						v, ok = constInt(x.X)
					}
					if !ok || (v != 10 && v != 13) {
						return true
					}
					// the whole condition this comparison is part of
					root := ast.Node(x)
					for i := len(stack) - 2; i >= 0; i-- {
						switch pe := stack[i].(type) {
						case *ast.BinaryExpr:
							if pe.Op == token.LAND || pe.Op == token.LOR {
								root = pe
								continue
							}
						case *ast.ParenExpr, *ast.UnaryExpr:
							root = pe
							continue
						}
						break
					}
					if done[root] {
						return true
					}
					done[root] = true
					have := map[int64]bool{}
					ast.Inspect(root, func(m ast.Node) bool {
						if be, ok := m.(*ast.BinaryExpr); ok && (be.Op == token.EQL || be.Op == token.NEQ) {
							if w, ok := constInt(be.Y); ok {
								have[w] = true
							}
							if w, ok := constInt(be.X); ok {
								have[w] = true
							}
						}
						return true
					})
					fn := enclosingFuncName(stack)
					per[fn]++
					key := fmt.Sprintf("%s/condition#%d", fn, per[fn])
					r.Check(have[10] && have[13], key, x.Pos(), "the condition looks at both LF and CR",
						"a scanner condition in "+fn+" compares a character with only one of LF / CR: the other line terminator is treated as ordinary text there")
				case *ast.CallExpr:
					fo := core.CalleeObj(info, x)
					if fo == nil || fo.Pkg() == nil || (fo.Pkg().Path() != "strings" && fo.Pkg().Path() != "bytes") {
						return true
					}
					search := false
					for _, pre := range []string{"Index", "LastIndex", "Split", "Contains", "Count", "Cut", "Trim", "Fields", "HasSuffix", "HasPrefix"} {
						if strings.HasPrefix(core.N(fo), pre) {
							search = true
						}
					}
					if !search {
						return true
					}
					for _, a := range x.Args[1:] {
						tv, ok := info.Types[a]
						if !ok || tv.Value == nil {
							continue
						}
						var s string
						switch tv.Value.Kind() {
						case constant.String:
							s = constant.StringVal(tv.Value)
						case constant.Int:
							v, _ := constant.Int64Val(tv.Value)
							s = string(rune(v))
						}
						lf, cr := strings.Contains(s, "\n"), strings.Contains(s, "\r")
						if lf != cr {
							fn := enclosingFuncName(stack)
							per[fn]++
							r.Bad(fmt.Sprintf("%s/search#%d", fn, per[fn]), x.Pos(), "%s searches request text with %s.%s for only one of LF / CR: a line (a comment, a quoted source line) that ends in the other terminator is not seen to end — text after a bare CR is swallowed or wrongly rejected", fn, fo.Pkg().Name(), core.N(fo))
						}
					}
				}
				return true
			})
		}
	}
}

func enclosingFuncName(stack []ast.Node) string {
	for i := len(stack) - 1; i >= 0; i-- {
		if fd, ok := stack[i].(*ast.FuncDecl); ok {
			return core.DeclName(fd)
		}
	}
	return "package-level"
}

func init() {
	register(&core.Rule{Name: "C18/FLOW-column", Props: []string{"C18"}, Min: 1,
		Doc: "the column depends on where the preceding line terminator ends, not only on where it starts", Run: c18Column})
}

// c18Column: "\r\nX" and "\rXX" have their first line terminator at the same offset, yet offset 2 is column 1 of line 2
// in the first and column 2 of line 2 in the second. Whatever computes the column from the terminator matches must
// therefore read the end of the match (or the bytes of the text); a column computed from match starts and the
// position alone is wrong for one of CR / CRLF.
func c18Column(c *core.Ctx, r *core.Reporter) {
	fn := c.Func("language/location", "GetLocation")
	if fn == nil {
		r.Unknown("GetLocation/column", token.NoPos, "not found")
		return
	}
	var colVals []ssa.Value
	core.Instrs(fn, func(in ssa.Instruction) {
		if st, ok := in.(*ssa.Store); ok {
			if fa, ok := st.Addr.(*ssa.FieldAddr); ok {
				if f := core.FieldOf(fa); f != nil && core.N(f) == "Column" {
					colVals = append(colVals, st.Val)
				}
			}
		}
	})
	if len(colVals) == 0 {
		r.Unknown("GetLocation/column", fn.Pos(), "no store to SourceLocation.Column found")
		return
	}
	seen := map[ssa.Value]bool{}
	readsEnd := false
	var walk func(v ssa.Value)
	walk = func(v ssa.Value) {
		if v == nil || seen[v] {
			return
		}
		seen[v] = true
		switch x := v.(type) {
		case *ssa.IndexAddr:
			if sl, ok := x.X.Type().Underlying().(*types.Slice); ok {
				if b, ok := sl.Elem().Underlying().(*types.Basic); ok {
					if i, isConst := core.ConstInt(x.Index); b.Kind() == types.Int && !(isConst && i == 0) {
						readsEnd = true
					}
					if b.Kind() == types.Uint8 {
						readsEnd = true
					}
				}
			}
		case *ssa.Index, *ssa.Lookup:
			readsEnd = true
		}
		in, ok := v.(ssa.Instruction)
		if !ok {
			return
		}
		for _, op := range in.Operands(nil) {
			if *op != nil {
				walk(*op)
			}
		}
		// values kept in a local cell: follow the stores
		if u, ok := v.(*ssa.UnOp); ok && u.Op == token.MUL {
			if al, ok := u.X.(*ssa.Alloc); ok {
				for _, st := range core.StoresTo(al) {
					walk(st.Val)
				}
			}
		}
	}
	for _, v := range colVals {
		walk(v)
	}
	r.Check(readsEnd, "GetLocation/column", fn.Pos(), "the column is computed from the end of the preceding line-terminator match",
		"the column reported by GetLocation depends only on where the preceding line terminator starts (and on the position): a two-byte CRLF and a one-byte CR / LF then give the same column, so every location on a line that follows a CRLF is one column off")
}

func init() {
	register(&core.Rule{Name: "C18/OWN-path", Props: []string{"C18", "C07", "C04"}, Min: 1,
		Doc: "response path nodes are immutable once built: the only writes to a ResponsePath go to a node allocated by the writing function", Run: c18PathOwn})
}

// c18PathOwn: a ResponsePath node is shared by every field below it (siblings resolve concurrently) and its key
// sequence is handed to errors without a copy. Anything that stores into an existing node (a cached key slice, for
// one) makes the paths of different errors share memory: a later sibling's key overwrites the path already recorded
// for an earlier error, and concurrent siblings race on the node.
func c18PathOwn(c *core.Ctx, r *core.Reporter) {
	n := 0
	per := map[string]int{}
	for _, fn := range c.LibFuncs() {
		for _, w := range core.WritesIn(fn) {
			if w.Owner == nil || core.N(w.Owner.Obj()) != "ResponsePath" {
				continue
			}
			n++
			name := fnKey(fn)
			per[name]++
			key := fmt.Sprintf("%s/ResponsePath.%s#%d", name, core.N(w.Field), per[name])
			if w.Fresh {
				r.OK(key, w.In.Pos(), "store into a node allocated by %s itself", name)
			} else {
				r.Bad(key, w.In.Pos(), "%s stores into field %s of an existing ResponsePath node: path nodes are shared by all fields below them, so path slices handed to errors alias each other (a later sibling's key overwrites the last element of an already recorded error path) and concurrent siblings race on the node", name, core.N(w.Field))
			}
		}
	}
	if n == 0 {
		r.OK("ResponsePath/no-writes", token.NoPos, "no store to a ResponsePath field outside composite literals")
	}
	// AsArray must hand out a slice that nothing else holds: its result may not be loaded from a field
	if fn := c.Func("", "ResponsePath.AsArray"); fn != nil {
		bad := false
		for _, ret := range core.Returns(fn) {
			if len(ret.Results) == 1 {
				for _, k := range core.Classes(core.RetVal(ret, 0)) {
					if strings.HasPrefix(k, "field:") {
						bad = true
					}
				}
			}
		}
		r.Check(!bad, "ResponsePath.AsArray/fresh-result", fn.Pos(), "AsArray returns a slice it has just built", "AsArray returns a slice stored in the path node: every caller appends to / keeps the same backing array")
	}
}

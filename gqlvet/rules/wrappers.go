package rules

import (
	"fmt"
	"go/ast"
	"go/token"
	"go/types"

	"golang.org/x/tools/go/ssa"

	"verif/gqlvet/core"
)

// Rules about the two type wrappers (List, NonNull), added after the seeded-change campaign (DESIGN.md section 8).

func init() {
	register(&core.Rule{Name: "C14/FLOW-unwrap", Props: []string{"C14", "C02", "C05"}, Min: 8,
		Doc: "a schema type is asserted to be a list (or a named kind) only where NonNull has been stripped or is handled by the same function", Run: flowUnwrap})
	register(&core.Rule{Name: "C05/REC-oftype", Props: []string{"C05", "C10"}, Min: 8,
		Doc: "a recursion over the type wrappers continues with the wrapper's own OfType", Run: recOfType})
}

var wrapperIfaces = map[string]bool{"Type": true, "Input": true, "Output": true, "Nullable": true}

// flowUnwrap: `x.(*List)` (or a `case *List` arm) on a value whose static type is one of the schema type interfaces
// answers "is this a list type" only if x cannot be NonNull-wrapped: x comes out of GetNullable / GetNamed, or the same
// function also asks for *NonNull. Otherwise every `[T]!` position is taken for a non-list.
func flowUnwrap(c *core.Ctx, r *core.Reporter) {
	per := map[string]int{}
	c.FuncDecls(func(rel string, p *packagesPkg, fd *ast.FuncDecl) {
		if rel != "" {
			return
		}
		info := p.TypesInfo
		name := core.DeclName(fd)
		handlesNonNull := false
		type site struct {
			pos     token.Pos
			operand ast.Expr
			target  string
		}
		var sites []site
		note := func(operand ast.Expr, t types.Type, pos token.Pos) {
			st := info.TypeOf(operand)
			if st == nil || !types.IsInterface(st) {
				return
			}
			nm := core.NamedOf(st)
			if nm == nil || nm.Obj().Pkg() == nil || nm.Obj().Pkg().Path() != core.ModPath || !wrapperIfaces[core.N(nm.Obj())] {
				return
			}
			switch core.TypeName(t) {
			case "NonNull":
				handlesNonNull = true
			case "List":
				sites = append(sites, site{pos, operand, "List"})
			}
		}
		ast.Inspect(fd.Body, func(n ast.Node) bool {
			switch x := n.(type) {
			case *ast.TypeAssertExpr:
				if x.Type != nil {
					note(x.X, info.TypeOf(x.Type), x.Pos())
				}
			case *ast.TypeSwitchStmt:
				var subj ast.Expr
				switch a := x.Assign.(type) {
				case *ast.AssignStmt:
					if ta, ok := a.Rhs[0].(*ast.TypeAssertExpr); ok {
						subj = ta.X
					}
				case *ast.ExprStmt:
					if ta, ok := a.X.(*ast.TypeAssertExpr); ok {
						subj = ta.X
					}
				}
				if subj == nil {
					return true
				}
				for _, cl := range x.Body.List {
					for _, e := range cl.(*ast.CaseClause).List {
						if t := info.TypeOf(e); t != nil {
							note(subj, t, e.Pos())
						}
					}
				}
			}
			return true
		})
		for _, s := range sites {
			per[name]++
			key := fmt.Sprintf("%s/%s#%d", name, s.target, per[name])
			switch {
			case handlesNonNull:
				r.OK(key, s.pos, "the function also asks for *NonNull")
			case stripped(info, fd, s.operand):
				r.OK(key, s.pos, "the operand comes out of GetNullable / GetNamed")
			default:
				r.Bad(key, s.pos, "%s asks whether a schema type is a *List without having stripped NonNull (no GetNullable / GetNamed on the operand, no *NonNull test in the function): a `[T]!` position is taken for a non-list, so the types tracked inside list literals there are lost and the checks that rely on them are skipped", name)
			}
		}
	})
}

// stripped: e is a call of GetNullable / GetNamed, or an identifier every assignment of which in fd is such a call.
func stripped(info *types.Info, fd *ast.FuncDecl, e ast.Expr) bool {
	isStrip := func(x ast.Expr) bool {
		call, ok := ast.Unparen(x).(*ast.CallExpr)
		if !ok {
			return false
		}
		f := core.CalleeObj(info, call)
		return f != nil && (core.N(f) == "GetNullable" || core.N(f) == "GetNamed")
	}
	if isStrip(e) {
		return true
	}
	id, ok := ast.Unparen(e).(*ast.Ident)
	if !ok {
		return false
	}
	obj := info.Uses[id]
	if obj == nil {
		return false
	}
	defs, ok2 := 0, true
	ast.Inspect(fd.Body, func(n ast.Node) bool {
		as, isAs := n.(*ast.AssignStmt)
		if !isAs {
			return true
		}
		for i, l := range as.Lhs {
			lid, isId := l.(*ast.Ident)
			if !isId {
				continue
			}
			if info.Defs[lid] != obj && info.Uses[lid] != obj {
				continue
			}
			defs++
			if len(as.Rhs) != len(as.Lhs) || !isStrip(as.Rhs[i]) {
				ok2 = false
			}
		}
		return true
	})
	return defs > 0 && ok2
}

// recOfType: in a library function that takes a schema type and calls itself, the type argument of the recursive call
// is the OfType field of the wrapper the function is looking at, unchanged. Passing it through another function
// (GetNamed, an unwrap helper) strips inner wrappers, so `[[T]]` and `[T!]` are handled as `[T]`.
func recOfType(c *core.Ctx, r *core.Reporter) {
	per := map[string]int{}
	for _, fn := range c.LibFuncs() {
		if fn.Parent() != nil || fn.Signature == nil {
			continue
		}
		// index of the schema-type parameter
		pi := -1
		for i, p := range fn.Params {
			if nm := core.NamedOf(p.Type()); nm != nil && types.IsInterface(p.Type()) && nm.Obj().Pkg() != nil &&
				nm.Obj().Pkg().Path() == core.ModPath && wrapperIfaces[core.N(nm.Obj())] {
				pi = i
			}
		}
		if pi < 0 {
			continue
		}
		for _, site := range core.CallsTo(fn, fn, false) {
			args := site.Common().Args
			if pi >= len(args) {
				continue
			}
			cls := core.Classes(args[pi])
			fromWrapper, other := false, []string{}
			for _, k := range cls {
				switch k {
				case "field:List.OfType", "field:NonNull.OfType":
					fromWrapper = true
				default:
					other = append(other, k)
				}
			}
			if !fromWrapper && len(other) > 0 && !mentionsOfType(args[pi], 0) {
				continue // recursion on something else than a wrapper's element type (a field type, a possible type, ...)
			}
			per[core.N(fn)]++
			key := fmt.Sprintf("%s/recursion#%d", core.N(fn), per[core.N(fn)])
			if len(other) == 0 {
				r.OK(key, site.Pos(), "continues with the wrapper's own OfType")
			} else {
				r.Bad(key, site.Pos(), "%s continues its recursion over List / NonNull with a type that went through %s instead of the wrapper's own OfType: inner wrappers are stripped, so nested lists (`[[T]]`) and non-null items are converted against the wrong type", core.N(fn), core.Join(other))
			}
		}
	}
}

// mentionsOfType: the value is computed from a load of List.OfType / NonNull.OfType through calls.
func mentionsOfType(v ssa.Value, depth int) bool {
	if depth > 6 {
		return false
	}
	for _, k := range core.Classes(v) {
		if k == "field:List.OfType" || k == "field:NonNull.OfType" {
			return true
		}
	}
	if call, ok := v.(*ssa.Call); ok {
		for _, a := range call.Call.Args {
			if mentionsOfType(a, depth+1) {
				return true
			}
		}
	}
	if ex, ok := v.(*ssa.Extract); ok {
		return mentionsOfType(ex.Tuple, depth+1)
	}
	if mi, ok := v.(*ssa.MakeInterface); ok {
		return mentionsOfType(mi.X, depth+1)
	}
	if ci, ok := v.(*ssa.ChangeInterface); ok {
		return mentionsOfType(ci.X, depth+1)
	}
	return false
}

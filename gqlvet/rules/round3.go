package rules

import (
	"fmt"
	"go/ast"
	"go/constant"
	"go/token"
	"go/types"
	"sort"
	"strings"

	"golang.org/x/tools/go/ssa"

	"verif/gqlvet/core"
)

// Rules added after the third round of independently seeded changes (DESIGN.md section 8.3). As before each rule states a
// structural necessary condition of a clause of a property and quantifies over every site of its kind in the library.

func init() {
	register(&core.Rule{Name: "C17/FLOW-hookerrs", Props: []string{"C17"}, Min: 7,
		Doc: "the errors an extension handler hands back (recovered hook panics among them) reach the result on every path on which they can be non-empty", Run: r3HookErrs})
	register(&core.Rule{Name: "C16/FLOW-walkerctx", Props: []string{"C16", "C20", "C04"}, Min: 6,
		Doc: "the execution walk never cuts itself short on the state of the request context: only ExecutePlan's select decides between the complete response and the context error", Run: r3WalkerCtx})
	register(&core.Rule{Name: "C13/EXH-walkall", Props: []string{"C13", "C04", "C01"}, Min: 4,
		Doc: "a forcing walk over a result container is never skipped on a sample of its contents: every exit passes the element loop (or the container is empty)", Run: r3WalkAll})
	register(&core.Rule{Name: "C14/DOM-kindfirst", Props: []string{"C14"}, Min: 1,
		Doc: "a kind-specific visitor entry is exclusive: once KindFuncMap has an entry for the kind, the generic and per-phase maps are not consulted", Run: r3KindFirst})
	register(&core.Rule{Name: "C12/FLOW-memokey", Props: []string{"C12", "C14", "C07"}, Min: 1,
		Doc: "a process-wide memo (package-level map or sync.Map) is keyed by everything the stored value was computed from", Run: r3MemoKey})
	register(&core.Rule{Name: "C11/DOM-tablefresh", Props: []string{"C11", "C10"}, Min: 2,
		Doc: "where the possible-type table is rebuilt, the rebuild precedes everything in that function that consults the table", Run: r3TableFresh})
	register(&core.Rule{Name: "C06/FLOW-plainkey", Props: []string{"C06"}, Min: 1,
		Doc: "the plain cache key is one concatenation of operation name, a constant separator and the query on every path", Run: r3PlainKey})
	register(&core.Rule{Name: "C06/DOM-fporder", Props: []string{"C06", "C13"}, Min: 1,
		Doc: "the fingerprint reads selections in document order: nothing reachable from it sorts or reorders", Run: r3FingerprintOrder})
	register(&core.Rule{Name: "C10/DOM-metafirst", Props: []string{"C10", "C01", "C02"}, Min: 2,
		Doc: "executor and validator resolve a field name the same way: the three meta fields are looked for before the type's own fields", Run: r3MetaFirst})
	register(&core.Rule{Name: "C10/FLOW-typeslist", Props: []string{"C10", "C11"}, Min: 1,
		Doc: "the __schema.types resolver derives its list from the live type map, not from a copy kept beside it", Run: r3TypesList})
	register(&core.Rule{Name: "C07/OWN-escape", Props: []string{"C07", "C06"}, Min: 3,
		Doc: "no method of the plan cache hands out the address of state it guards with its mutex", Run: r3Escape})
	register(&core.Rule{Name: "C09/DOM-ctxnil", Props: []string{"C09", "C02"}, Min: 6,
		Doc: "what the validation context reports for the current position (possibly nothing) is nil-tested before it is dereferenced", Run: r3CtxNil})
	register(&core.Rule{Name: "C03/PAIR-prevend", Props: []string{"C03", "C18"}, Min: 1,
		Doc: "wherever the parser replaces its current token it first records where the previous one ended (node locations end there)", Run: r3PrevEnd})
	register(&core.Rule{Name: "C02/TAB-dirlocation", Props: []string{"C02"}, Min: 12,
		Doc: "the node kind -> directive location table agrees with the naming of the two constant sets", Run: r3DirLocation})
}

// ---------------------------------------------------------------------------------------------------------------------

// isFormattedErrSlice: t's underlying type is []gqlerrors.FormattedError.
func isFormattedErrSlice(t types.Type) bool {
	sl, ok := t.Underlying().(*types.Slice)
	if !ok {
		return false
	}
	return core.IsNamed(sl.Elem(), "github.com/graphql-go/graphql/gqlerrors", "FormattedError")
}

// callsExtensionMethod: some function of fn's closure tree invokes a method of the Extension interface.
func callsExtensionMethod(fn *ssa.Function, seen map[*ssa.Function]bool) bool {
	if fn == nil || seen[fn] {
		return false
	}
	seen[fn] = true
	for _, g := range core.WithAnon(fn) {
		for _, ci := range core.CallSites(g) {
			cc := ci.Common()
			if cc.IsInvoke() && core.IsNamed(cc.Value.Type(), "github.com/graphql-go/graphql", "Extension") {
				return true
			}
		}
	}
	return false
}

// errAliases: the values that stand for v further down: phis it flows into, conversions, re-slices.
func errAliases(v ssa.Value) map[ssa.Value]bool {
	set := map[ssa.Value]bool{v: true}
	work := []ssa.Value{v}
	for len(work) > 0 {
		x := work[0]
		work = work[1:]
		if x.Referrers() == nil {
			continue
		}
		for _, ref := range *x.Referrers() {
			switch r := ref.(type) {
			case *ssa.Phi, *ssa.ChangeType, *ssa.Convert, *ssa.Slice:
				rv := r.(ssa.Value)
				if !set[rv] {
					set[rv] = true
					work = append(work, rv)
				}
			}
		}
	}
	return set
}

// emptySideOf: if cond tests the emptiness of one of the aliases (len(x) ==/!=/> 0, x ==/!= nil), returns the index of
// the successor (0 = true branch, 1 = false branch) on which the slice is known to be empty; -1 otherwise.
func emptySideOf(cond ssa.Value, al map[ssa.Value]bool) int {
	b, ok := cond.(*ssa.BinOp)
	if !ok {
		return -1
	}
	isLen := func(v ssa.Value) bool {
		c, ok := v.(*ssa.Call)
		if !ok {
			return false
		}
		bi, ok := c.Call.Value.(*ssa.Builtin)
		return ok && bi.Name() == "len" && len(c.Call.Args) == 1 && al[c.Call.Args[0]]
	}
	zero := func(v ssa.Value) bool { n, ok := core.ConstInt(v); return ok && n == 0 }
	switch {
	case isLen(b.X) && zero(b.Y):
		switch b.Op {
		case token.EQL, token.LEQ:
			return 0
		case token.NEQ, token.GTR:
			return 1
		}
	case zero(b.X) && isLen(b.Y):
		switch b.Op {
		case token.EQL, token.GEQ:
			return 0
		case token.NEQ, token.LSS:
			return 1
		}
	case al[b.X] && core.IsNilConst(b.Y), core.IsNilConst(b.X) && al[b.Y]:
		switch b.Op {
		case token.EQL:
			return 0
		case token.NEQ:
			return 1
		}
	}
	return -1
}

// r3HookErrs: every extension phase hands its caller a list of errors: the hook errors recovered from panicking
// DidStart / Finish functions. C17 requires each of them to be reported in the result. Necessary condition decided here: at
// every call of an extension handler (a library function that invokes Extension methods, or one of the finish handlers it
// returned), no path leads from the call to an exit of the calling function on which the returned list is neither
// consumed (appended, stored, returned, passed on) nor known to be empty. A path that drops it loses a hook's panic.
func r3HookErrs(c *core.Ctx, r *core.Reporter) {
	perFn := map[string]int{}
	for _, fn := range c.LibFuncs() {
		if !c.IsLibPkgFn(fn, "") {
			continue
		}
		for _, ci := range core.CallSites(fn) {
			call, ok := ci.(*ssa.Call)
			if !ok {
				continue
			}
			cc := call.Common()
			if cc.IsInvoke() {
				continue
			}
			sig, ok := cc.Value.Type().Underlying().(*types.Signature)
			if !ok {
				continue
			}
			idx := -1
			for i := 0; i < sig.Results().Len(); i++ {
				if isFormattedErrSlice(sig.Results().At(i).Type()) {
					idx = i
				}
			}
			// the same two results packaged in a struct: { errs, finish }
			fieldIdx := -1
			if idx < 0 && sig.Results().Len() == 1 && cc.StaticCallee() != nil {
				if st, ok := derefT(sig.Results().At(0).Type()).Underlying().(*types.Struct); ok {
					for i := 0; i < st.NumFields(); i++ {
						if isFormattedErrSlice(st.Field(i).Type()) {
							fieldIdx = i
						}
					}
				}
			}
			if idx < 0 && fieldIdx < 0 {
				continue
			}
			callee := cc.StaticCallee()
			what := ""
			if callee != nil {
				if !c.IsLib(callee) || !callsExtensionMethod(callee, map[*ssa.Function]bool{}) {
					continue
				}
				what = core.N(callee)
			} else {
				// a dynamic call of a handler value: a func type of this package that returns the hook errors
				if _, isBuiltin := cc.Value.(*ssa.Builtin); isBuiltin {
					continue
				}
				what = "handler:" + core.TypeName(cc.Value.Type())
			}
			var roots []ssa.Value
			switch {
			case fieldIdx >= 0:
				// reads of the error field of the returned struct (directly, or through the local it is stored in)
				var holders []ssa.Value
				for _, ref := range *call.Referrers() {
					switch x := ref.(type) {
					case *ssa.Field:
						if x.Field == fieldIdx {
							roots = append(roots, x)
						}
					case *ssa.Store:
						if x.Val == ssa.Value(call) {
							holders = append(holders, x.Addr)
						}
					case *ssa.FieldAddr:
						holders = append(holders, call)
					}
				}
				if _, isPtr := sig.Results().At(0).Type().Underlying().(*types.Pointer); isPtr {
					holders = append(holders, call)
				}
				for _, h := range holders {
					if h.Referrers() == nil {
						continue
					}
					for _, ref := range *h.Referrers() {
						if fa, ok := ref.(*ssa.FieldAddr); ok && fa.Field == fieldIdx && fa.Referrers() != nil {
							for _, u := range *fa.Referrers() {
								if ld, ok := u.(*ssa.UnOp); ok && ld.Op == token.MUL {
									roots = append(roots, ld)
								}
							}
						}
					}
				}
			case sig.Results().Len() > 1:
				for _, ref := range *call.Referrers() {
					if ex, ok := ref.(*ssa.Extract); ok && ex.Index == idx {
						roots = append(roots, ex)
					}
				}
			default:
				roots = append(roots, call)
			}
			host := core.FuncKey(fn)
			perFn[host+"->"+what]++
			key := host + "->" + what
			if n := perFn[key]; n > 1 {
				key += "#" + itoa(n)
			}
			if len(roots) == 0 {
				r.Bad(key, call.Pos(), "the errors %s hands back are discarded at the call: a panicking hook of this phase is reported nowhere", what)
				continue
			}
			al := map[ssa.Value]bool{}
			for _, v := range roots {
				for a := range errAliases(v) {
					al[a] = true
				}
			}
			consumes := map[*ssa.BasicBlock]bool{}
			for a := range al {
				if a.Referrers() == nil {
					continue
				}
				for _, ref := range *a.Referrers() {
					switch x := ref.(type) {
					case *ssa.Phi, *ssa.ChangeType, *ssa.Convert, *ssa.Slice, *ssa.DebugRef, *ssa.Extract:
						continue
					case *ssa.Call:
						if bi, ok := x.Call.Value.(*ssa.Builtin); ok && bi.Name() == "len" {
							continue
						}
						consumes[x.Block()] = true
					case *ssa.BinOp:
						continue // comparison with nil
					default:
						consumes[ref.Block()] = true
					}
				}
			}
			// walk forward from the call
			start := call.Block()
			var lost *ssa.BasicBlock
			if !consumes[start] {
				seen := map[*ssa.BasicBlock]bool{}
				var walk func(b *ssa.BasicBlock)
				walk = func(b *ssa.BasicBlock) {
					if lost != nil || seen[b] {
						return
					}
					seen[b] = true
					if b != start && consumes[b] {
						return
					}
					if len(b.Instrs) > 0 {
						switch last := b.Instrs[len(b.Instrs)-1].(type) {
						case *ssa.Return:
							lost = b
							return
						case *ssa.If:
							empty := emptySideOf(last.Cond, al)
							for i, s := range b.Succs {
								if i == empty {
									continue
								}
								walk(s)
							}
							return
						}
					}
					for _, s := range b.Succs {
						walk(s)
					}
				}
				walk(start)
			}
			if lost != nil {
				pos := call.Pos()
				if len(lost.Instrs) > 0 {
					pos = lost.Instrs[len(lost.Instrs)-1].Pos()
				}
				r.Bad(key, call.Pos(), "the errors %s hands back can be non-empty on a path that leaves %s at %s without appending, storing or returning them: the error recovered from a panicking hook of this phase is dropped from the result",
					what, host, c.Pos(pos))
			} else {
				r.OK(key, call.Pos(), "on every path from the call to an exit the returned hook errors are consumed or known to be empty")
			}
		}
	}
}

func itoa(n int) string {
	if n == 0 {
		return "0"
	}
	s := ""
	for n > 0 {
		s = string(rune('0'+n%10)) + s
		n /= 10
	}
	return s
}

// r3WalkerCtx: C16 allows two outcomes: the complete response or the context's error with no data. The worker goroutine
// of ExecutePlan publishes whatever its walk produced, and the caller's select may pick that result even when the context
// has ended meanwhile (both arms ready). So a walk that looks at ctx.Err() / ctx.Done() and silently stops — leaves a
// loop, returns what it has — publishes a partially filled data tree without an error, and fields that were selected are
// never resolved (C20). Necessary condition: in the library functions reachable from the worker, the request context is
// only handed on (to resolvers and type callbacks); where its state is consulted, the ended side leaves by panicking
// (which the field / worker recover turns into an error), never by a normal exit.
func r3WalkerCtx(c *core.Ctx, r *core.Reporter) {
	ep := c.Func("", "ExecutePlan")
	if ep == nil {
		r.Unknown("ExecutePlan.worker", token.NoPos, "ExecutePlan not found")
		return
	}
	var worker *ssa.Function
	for _, g := range c.Region(ep) {
		core.Instrs(g, func(in ssa.Instruction) {
			if gs, ok := in.(*ssa.Go); ok && worker == nil {
				worker = core.GoTarget(gs)
			}
		})
	}
	if worker == nil {
		r.Unknown("ExecutePlan.worker", ep.Pos(), "no goroutine started by ExecutePlan (anchor moved)")
		return
	}
	reach := c.Reach(&core.ReachCfg{Roots: []*ssa.Function{worker}, OnlyLib: c.IsLib})
	var fns []*ssa.Function
	for fn := range reach {
		if c.IsLibPkgFn(fn, "") {
			fns = append(fns, fn)
		}
	}
	sortFns(fns)
	isCtx := func(t types.Type) bool { return core.IsNamed(t, "context", "Context") }
	perHost := map[string]bool{}
	for _, fn := range fns {
		// only the frames of the walk itself: functions that are handed the execution context
		takes := false
		for _, p := range fn.Params {
			if core.IsNamed(derefT(p.Type()), "github.com/graphql-go/graphql", "executionContext") {
				takes = true
			}
		}
		for _, fv := range fn.FreeVars {
			if core.IsNamed(derefT(derefT(fv.Type())), "github.com/graphql-go/graphql", "executionContext") {
				takes = true
			}
		}
		if !takes && fn != worker {
			continue
		}
		host := core.FuncKey(fn)
		bad := ""
		var pos token.Pos
		for _, ci := range core.CallSites(fn) {
			cc := ci.Common()
			if !cc.IsInvoke() || !isCtx(cc.Value.Type()) {
				continue
			}
			switch cc.Method.Name() {
			case "Err":
				call, ok := ci.(*ssa.Call)
				if !ok {
					continue
				}
				if !endedSidePanics(call) {
					bad = "consults ctx.Err() and leaves normally when the context has ended"
					pos = ci.Pos()
				}
			case "Done":
				bad = "waits on / polls ctx.Done()"
				pos = ci.Pos()
			}
		}
		key := host + "/context-only-handed-on"
		if perHost[key] {
			continue
		}
		perHost[key] = true
		if bad == "" {
			r.OK(key, fn.Pos(), "the request context is only passed on to user code; its state is not consulted (or the ended side panics)")
		} else {
			r.Bad(key, pos, "%s %s: the walk stops without an error, so the worker publishes a partially filled data tree (which ExecutePlan's select may still hand to the caller) and selected fields are never resolved", host, bad)
		}
	}
}

func derefT(t types.Type) types.Type {
	if p, ok := t.Underlying().(*types.Pointer); ok {
		return p.Elem()
	}
	return t
}

func sortFns(fns []*ssa.Function) {
	for i := 1; i < len(fns); i++ {
		for j := i; j > 0 && fns[j].String() < fns[j-1].String(); j-- {
			fns[j], fns[j-1] = fns[j-1], fns[j]
		}
	}
}

// endedSidePanics: every use of the ctx.Err() result is a comparison with nil whose "non-nil" side can only end in a panic.
func endedSidePanics(call *ssa.Call) bool {
	if call.Referrers() == nil {
		return true
	}
	for _, ref := range *call.Referrers() {
		switch x := ref.(type) {
		case *ssa.DebugRef:
		case *ssa.BinOp:
			if !(core.IsNilConst(x.X) || core.IsNilConst(x.Y)) || x.Referrers() == nil {
				return false
			}
			for _, u := range *x.Referrers() {
				iff, ok := u.(*ssa.If)
				if !ok {
					return false
				}
				side := 0 // != nil: true branch is the ended side
				if x.Op == token.EQL {
					side = 1
				}
				ended := iff.Block().Succs[side]
				for b := range core.Reachable(ended) {
					if len(b.Instrs) > 0 {
						if _, isRet := b.Instrs[len(b.Instrs)-1].(*ssa.Return); isRet {
							return false
						}
					}
				}
				if len(ended.Instrs) > 0 {
					if _, isRet := ended.Instrs[len(ended.Instrs)-1].(*ssa.Return); isRet {
						return false
					}
				}
			}
		case *ssa.MakeInterface, *ssa.Panic:
			// panic(ctx.Err())
		default:
			return false
		}
	}
	return true
}

// ---------------------------------------------------------------------------------------------------------------------

// r3WalkAll: the four walks that force deferred values (breadth-first and depth-first, over maps and lists) must look at
// every element: a lazily resolved field can sit behind any element, whatever the first one looks like (null items come
// first as easily as last). Necessary condition: no path from the walk's entry to an exit avoids the element loop, other
// than through a test that the container is empty.
func r3WalkAll(c *core.Ctx, r *core.Reporter) {
	for _, name := range []string{"dethunkMapBreadthFirst", "dethunkListBreadthFirst", "dethunkMapDepthFirst", "dethunkListDepthFirst"} {
		fn := c.Func("", name)
		key := name + "/every-exit-passes-the-element-loop"
		if fn == nil || len(fn.Blocks) == 0 {
			r.Unknown(key, token.NoPos, "%s not found", name)
			continue
		}
		loopHdr := map[*ssa.BasicBlock]bool{}
		for h := range core.Loops(fn) {
			loopHdr[h] = true
		}
		// a call of a fresh helper that itself loops stands for the loop
		for _, ci := range core.CallSites(fn) {
			if cal := ci.Common().StaticCallee(); cal != nil && c.IsLib(cal) && c.IsFresh(cal) && len(core.Loops(cal)) > 0 && takesContainerOf(fn, ci) {
				loopHdr[ci.Block()] = true
			}
		}
		if len(loopHdr) == 0 {
			r.Bad(key, fn.Pos(), "%s has no loop over its container any more: nothing below it is forced", name)
			continue
		}
		al := map[ssa.Value]bool{}
		for _, p := range fn.Params {
			al[p] = true
		}
		var lost *ssa.BasicBlock
		seen := map[*ssa.BasicBlock]bool{}
		var walk func(b *ssa.BasicBlock)
		walk = func(b *ssa.BasicBlock) {
			if lost != nil || seen[b] || loopHdr[b] {
				return
			}
			seen[b] = true
			if len(b.Instrs) > 0 {
				switch last := b.Instrs[len(b.Instrs)-1].(type) {
				case *ssa.Return:
					lost = b
					return
				case *ssa.If:
					empty := emptySideOf(last.Cond, al)
					for i, s := range b.Succs {
						if i != empty {
							walk(s)
						}
					}
					return
				}
			}
			for _, s := range b.Succs {
				walk(s)
			}
		}
		walk(fn.Blocks[0])
		if lost != nil {
			r.Bad(key, lost.Instrs[len(lost.Instrs)-1].Pos(), "%s can return without entering its element loop although the container is not empty (the walk is skipped on a test of some of its contents): deferred values behind the skipped elements are never forced — raw functions stay in the response and their errors are never recorded", name)
		} else {
			r.OK(key, fn.Pos(), "every exit passes the element loop or the empty-container test")
		}
	}
}

func takesContainerOf(fn *ssa.Function, ci ssa.CallInstruction) bool {
	for _, a := range ci.Common().Args {
		for _, p := range fn.Params {
			if a == ssa.Value(p) {
				return true
			}
		}
	}
	return false
}

// ---------------------------------------------------------------------------------------------------------------------

// r3KindFirst: visit-function selection. A visitor that has a KindFuncMap entry for a kind handles that kind through the
// entry alone (enter/leave/kind function, possibly nil = not interested). If a missing phase function falls through to the
// generic Enter/Leave or the per-phase kind maps, the visitor gets a leave for a node whose enter went elsewhere: not
// properly nested. Decided on the SSA form of GetVisitFn: from the found-side of the KindFuncMap lookup no read of the
// other four selector fields is reachable.
func r3KindFirst(c *core.Ctx, r *core.Reporter) {
	fn := c.Func("language/visitor", "GetVisitFn")
	key := "GetVisitFn/kind-entry-exclusive"
	if fn == nil {
		r.Unknown(key, token.NoPos, "GetVisitFn not found")
		return
	}
	fieldName := func(v ssa.Value) string {
		if u, ok := v.(*ssa.UnOp); ok && u.Op == token.MUL {
			v = u.X
		}
		if f := core.FieldOf(v); f != nil {
			return core.N(f)
		}
		return ""
	}
	n := 0
	for _, g := range c.Region(fn) {
		core.Instrs(g, func(in ssa.Instruction) {
			lk, ok := in.(*ssa.Lookup)
			if !ok || !lk.CommaOk || fieldName(lk.X) != "KindFuncMap" {
				return
			}
			n++
			// the If on the ok component
			var found *ssa.BasicBlock
			for _, ref := range *lk.Referrers() {
				ex, ok := ref.(*ssa.Extract)
				if !ok || ex.Index != 1 || ex.Referrers() == nil {
					continue
				}
				for _, u := range *ex.Referrers() {
					if iff, ok := u.(*ssa.If); ok {
						found = iff.Block().Succs[0]
					}
				}
			}
			if found == nil {
				r.Unknown(key, lk.Pos(), "the presence test of the KindFuncMap lookup was not found (unrecognised idiom)")
				return
			}
			blocks := core.Reachable(found)
			blocks[found] = true
			bad := ""
			for b := range blocks {
				for _, in2 := range b.Instrs {
					if fa, ok := in2.(*ssa.FieldAddr); ok {
						if f := core.FieldOf(fa); f != nil {
							switch core.N(f) {
							case "EnterKindMap", "LeaveKindMap":
								bad = core.N(f)
							case "Enter", "Leave":
								if core.TypeName(derefT(fa.X.Type())) == "VisitorOptions" {
									bad = "VisitorOptions." + core.N(f)
								}
							}
						}
					}
				}
			}
			r.Check(bad == "", key, lk.Pos(), "with a KindFuncMap entry present the function returns from that entry alone",
				"with a KindFuncMap entry present for the kind, GetVisitFn can still go on to read "+bad+": a visitor mixing a one-phase kind entry with generic functions is called for the other phase of nodes it never entered (leave without enter)")
		})
	}
	if n == 0 {
		r.Unknown(key, fn.Pos(), "no lookup in VisitorOptions.KindFuncMap found (anchor moved)")
	}
}

// ---------------------------------------------------------------------------------------------------------------------

// paramDeps: the parameters (and free variables) of fn that v is computed from — a backward slice through operands,
// including what is stored into the slices / maps / structs v is made of.
func paramDeps(v ssa.Value, out map[ssa.Value]bool, seen map[ssa.Value]bool, depth int) {
	if v == nil || seen[v] || depth > 40 {
		return
	}
	seen[v] = true
	switch v.(type) {
	case *ssa.Parameter, *ssa.FreeVar:
		out[v] = true
		return
	case *ssa.Const, *ssa.Global, *ssa.Function, *ssa.Builtin:
		return
	}
	if in, ok := v.(ssa.Instruction); ok {
		for _, op := range in.Operands(nil) {
			if op != nil && *op != nil {
				paramDeps(*op, out, seen, depth+1)
			}
		}
	}
	// contents written into an allocation / slice / map made here
	switch v.(type) {
	case *ssa.Alloc, *ssa.MakeSlice, *ssa.MakeMap, *ssa.Slice:
		if refs := v.Referrers(); refs != nil {
			for _, ref := range *refs {
				switch u := ref.(type) {
				case *ssa.Store:
					if u.Addr == v {
						paramDeps(u.Val, out, seen, depth+1)
					}
				case *ssa.IndexAddr:
					if u.Referrers() != nil {
						for _, w := range *u.Referrers() {
							if st, ok := w.(*ssa.Store); ok && st.Addr == ssa.Value(u) {
								paramDeps(st.Val, out, seen, depth+1)
							}
						}
					}
				case *ssa.FieldAddr:
					if u.Referrers() != nil {
						for _, w := range *u.Referrers() {
							if st, ok := w.(*ssa.Store); ok && st.Addr == ssa.Value(u) {
								paramDeps(st.Val, out, seen, depth+1)
							}
						}
					}
				case *ssa.MapUpdate:
					if u.Map == v {
						paramDeps(u.Key, out, seen, depth+1)
						paramDeps(u.Value, out, seen, depth+1)
					}
				}
			}
		}
	}
}

// r3MemoKey: a memo that outlives a request (a package-level map or sync.Map) answers later calls with what an earlier
// call computed. That is only transparent when the key determines the value: every parameter the stored value was
// computed from must also be part of the key. (The per-request and per-schema memos are decided by C19/REC-memo and
// C06/DOM-schema; this rule is about process-wide state, which today's tree does not have at request time.)
func r3MemoKey(c *core.Ctx, r *core.Reporter) {
	isSyncMap := func(t types.Type) bool { return core.IsNamed(derefT(t), "sync", "Map") }
	globalOf := func(v ssa.Value) *ssa.Global {
		for i := 0; i < 6 && v != nil; i++ {
			switch x := v.(type) {
			case *ssa.Global:
				return x
			case *ssa.UnOp:
				v = x.X
			case *ssa.FieldAddr:
				v = x.X
			case *ssa.ChangeType:
				v = x.X
			default:
				return nil
			}
		}
		return nil
	}
	nGlobals, nStores := 0, 0
	for _, p := range c.LibPkgs() {
		for _, m := range p.Members {
			if g, ok := m.(*ssa.Global); ok {
				t := derefT(g.Type())
				if _, isMap := t.Underlying().(*types.Map); isMap || isSyncMap(t) {
					nGlobals++
				}
			}
		}
	}
	for _, fn := range c.LibFuncs() {
		if core.IsPkgInit(fn) {
			continue
		}
		for _, in := range allInstrs(fn) {
			var g *ssa.Global
			var key, val ssa.Value
			switch x := in.(type) {
			case *ssa.MapUpdate:
				g, key, val = globalOf(x.Map), x.Key, x.Value
			case *ssa.Call:
				cal := x.Call.StaticCallee()
				if cal == nil || cal.Signature.Recv() == nil || !isSyncMap(cal.Signature.Recv().Type()) || len(x.Call.Args) < 3 {
					continue
				}
				switch cal.Name() {
				case "Store", "LoadOrStore", "Swap":
					g, key, val = globalOf(x.Call.Args[0]), x.Call.Args[1], x.Call.Args[2]
				}
			}
			if g == nil || !c.IsLibGlobal(g) {
				continue
			}
			nStores++
			kd, vd := map[ssa.Value]bool{}, map[ssa.Value]bool{}
			paramDeps(key, kd, map[ssa.Value]bool{}, 0)
			paramDeps(val, vd, map[ssa.Value]bool{}, 0)
			var missing []string
			for d := range vd {
				if !kd[d] {
					missing = append(missing, d.Name())
				}
			}
			sort.Strings(missing)
			k := fmt.Sprintf("%s/%s/key-determines-value", core.FuncKey(fn), g.Name())
			if len(missing) == 0 {
				r.OK(k, in.Pos(), "everything the stored value is computed from is part of the key")
			} else {
				r.Bad(k, in.Pos(), "%s stores into the process-wide memo %s a value computed from %s under a key that does not contain it: a later call with a different %s is answered with the earlier call's value (the result depends on what ran before)", core.FuncKey(fn), g.Name(), strings.Join(missing, ", "), strings.Join(missing, ", "))
			}
		}
	}
	r.Exists("inventory", token.NoPos, "%d package-level map / sync.Map variables in the library, %d request-time stores into them", nGlobals, nStores)
}

func allInstrs(fn *ssa.Function) []ssa.Instruction {
	var out []ssa.Instruction
	for _, b := range fn.Blocks {
		out = append(out, b.Instrs...)
	}
	return out
}

// ---------------------------------------------------------------------------------------------------------------------

// r3TableFresh: NewSchema and AddImplementation rebuild the possible-type table and then check every object against the
// interfaces it implements; those checks (isTypeSubTypeOf -> IsPossibleType) read the table. If the rebuild comes after
// them, a re-check after AppendType answers from the table of the schema as it was before the append: appending a type
// gives a different verdict than supplying it up front.
func r3TableFresh(c *core.Ctx, r *core.Reporter) {
	schemaT := c.Named("", "Schema")
	if schemaT == nil {
		r.Unknown("Schema.possibleTypeMap", token.NoPos, "type Schema not found")
		return
	}
	fld := core.StructField(schemaT, "possibleTypeMap")
	if fld == nil {
		r.Unknown("Schema.possibleTypeMap", token.NoPos, "field not found (anchor moved)")
		return
	}
	var builders, readers []*ssa.Function
	for _, fn := range c.LibFuncs() {
		w, rd := false, false
		core.Instrs(fn, func(in ssa.Instruction) {
			fa, ok := in.(*ssa.FieldAddr)
			if !ok || core.FieldOf(fa) != fld || fa.Referrers() == nil {
				return
			}
			for _, ref := range *fa.Referrers() {
				switch u := ref.(type) {
				case *ssa.Store:
					if u.Addr == ssa.Value(fa) {
						w = true
					}
				case *ssa.UnOp:
					rd = true
				}
			}
		})
		if w {
			builders = append(builders, fn)
		} else if rd {
			readers = append(readers, fn)
		}
	}
	if len(builders) == 0 || len(readers) == 0 {
		r.Unknown("Schema.possibleTypeMap", token.NoPos, "no builder / reader of the table found (anchor moved)")
		return
	}
	isBuilder := map[*ssa.Function]bool{}
	for _, b := range builders {
		isBuilder[b] = true
	}
	isReader := map[*ssa.Function]bool{}
	for _, rd := range readers {
		isReader[rd] = true
	}
	reachesReader := func(root *ssa.Function) bool {
		if isReader[root] {
			return true
		}
		for f := range c.Reach(&core.ReachCfg{Roots: []*ssa.Function{root}, OnlyLib: c.IsLib}) {
			if isReader[f] {
				return true
			}
		}
		return false
	}
	for _, fn := range c.LibFuncs() {
		if isBuilder[fn] {
			continue
		}
		var rebuild ssa.CallInstruction
		for _, ci := range core.CallSites(fn) {
			if cal := ci.Common().StaticCallee(); cal != nil && isBuilder[cal] {
				rebuild = ci
			}
		}
		if rebuild == nil {
			continue
		}
		key := core.FuncKey(fn) + "/rebuild-before-consulting"
		// a schema allocated by this very function has no table yet: readers take their table-less path, and where the
		// table is built relative to them cannot change an answer
		freshSchema := false
		if args := rebuild.Common().Args; len(args) > 0 {
			for _, o := range core.Origins(args[0]) {
				if al, ok := o.(*ssa.Alloc); ok && al.Parent() == fn {
					freshSchema = true
				}
			}
		}
		if freshSchema {
			r.OK(key, rebuild.Pos(), "the schema is allocated here: there is no earlier table that a reader could consult")
			continue
		}
		bad := ""
		for _, ci := range core.CallSites(fn) {
			if ci == rebuild {
				continue
			}
			cal := ci.Common().StaticCallee()
			if cal == nil || !c.IsLib(cal) || isBuilder[cal] || !reachesReader(cal) {
				continue
			}
			if !core.InstrDominates(rebuild, ci) {
				bad = fmt.Sprintf("%s (which reaches a reader of the table) at %s is not preceded by the rebuild", core.N(cal), c.Pos(ci.Pos()))
			}
		}
		r.Check(bad == "", key, rebuild.Pos(), "the rebuild of the possible-type table dominates every call that consults it",
			core.FuncKey(fn)+": "+bad+": the implementation checks of a re-run answer from the table of the previous type map, so appending a type is judged differently from supplying it up front")
	}
}

// ---------------------------------------------------------------------------------------------------------------------

// r3PlainKey: without normalisation the cache key is (operation name, query text) encoded as one string. The encoding
// `name + "\x00" + query` is injective because a name cannot contain NUL. An encoding that has different shapes on
// different paths (the bare query when the name is empty) is not: ("", "A\x00q") and ("A", "q") collide. Decided: the key
// handed to lookup / store in PlanCache.Get's plain arm is a single concatenation that contains both parameters and a
// non-empty constant between them — not a merge of differently built values.
func r3PlainKey(c *core.Ctx, r *core.Reporter) {
	get := c.Func("", "PlanCache.Get")
	lookup := c.Func("", "PlanCache.lookup")
	if get == nil || lookup == nil {
		r.Unknown("PlanCache.Get/plain-key", token.NoPos, "PlanCache.Get / lookup not found")
		return
	}
	n := 0
	for _, g := range c.Region(get) {
		for _, site := range core.CallsTo(g, lookup, false) {
			args := site.Common().Args
			// the key argument: the string among the arguments (wherever the signature puts it)
			var keyV ssa.Value
			for _, a := range args {
				if b, ok := a.Type().Underlying().(*types.Basic); ok && b.Info()&types.IsString != 0 {
					keyV = a
				}
			}
			if keyV == nil {
				continue
			}
			// leaves of the key expression, looking through concatenations and merges of differently built values
			var leaves []ssa.Value
			shapeOK := true
			seenV := map[ssa.Value]bool{}
			var flat func(v ssa.Value)
			flat = func(v ssa.Value) {
				if seenV[v] {
					return
				}
				seenV[v] = true
				switch x := v.(type) {
				case *ssa.BinOp:
					if x.Op == token.ADD {
						flat(x.X)
						flat(x.Y)
						return
					}
					leaves = append(leaves, v)
				case *ssa.Phi:
					shapeOK = false
					for _, e := range x.Edges {
						flat(e)
					}
				case *ssa.Call:
					// the key built by a helper: look at what the helper returns (its own parameters stand for the strings)
					if cal := x.Call.StaticCallee(); cal != nil && c.IsLib(cal) && len(cal.Blocks) > 0 && cal.Signature.Results().Len() == 1 {
						rets := core.Returns(cal)
						if len(rets) != 1 {
							shapeOK = false
						}
						for _, ret := range rets {
							flat(core.RetVal(ret, 0))
						}
						return
					}
					leaves = append(leaves, v)
				default:
					leaves = append(leaves, v)
				}
			}
			flat(keyV)
			nStrParams := map[ssa.Value]bool{}
			for _, l := range leaves {
				if p, ok := l.(*ssa.Parameter); ok {
					if b, ok := p.Type().Underlying().(*types.Basic); ok && b.Info()&types.IsString != 0 {
						nStrParams[l] = true
					}
				}
			}
			if len(nStrParams) < 2 {
				continue // the normalised arm: the key is built from a fingerprint, not from the two request strings directly
			}
			n++
			key := "PlanCache.Get/plain-key"
			if n > 1 {
				key += fmt.Sprintf("#%d", n)
			}
			sep := false
			seenParam := 0
			for _, l := range leaves {
				if _, ok := l.(*ssa.Parameter); ok {
					seenParam++
				}
				if s, ok := core.ConstString(l); ok && s != "" && seenParam == 1 {
					sep = true
				}
			}
			r.Check(shapeOK && sep && seenParam >= 2, key, site.Pos(), "one concatenation: parameter, constant separator, parameter",
				"the plain cache key is not a single `operationName + separator + query` concatenation on every path (it is merged from differently built values, or lacks the constant separator): two requests that differ in operation name can map to the same key and share an entry — a cached parse error or plan is served for the other request")
		}
	}
	if n == 0 {
		r.Unknown("PlanCache.Get/plain-key", get.Pos(), "no lookup keyed by the two request strings found in PlanCache.Get (anchor moved)")
	}
}

// ---------------------------------------------------------------------------------------------------------------------

// r3FingerprintOrder: the normalised cache key is a hash of the document as written. Selection order is part of what a
// plan is (top-level mutation fields run in document order; the planner walks fragments in order), so two documents that
// differ in the order of selections must not share a key. Necessary condition: nothing reachable from the fingerprint
// computation sorts or otherwise reorders what it reads.
func r3FingerprintOrder(c *core.Ctx, r *core.Reporter) {
	fp := c.Func("", "fingerprintDocument")
	if fp == nil {
		r.Unknown("fingerprintDocument/document-order", token.NoPos, "fingerprintDocument not found")
		return
	}
	reach := c.Reach(&core.ReachCfg{Roots: []*ssa.Function{fp}, OnlyLib: c.IsLib})
	reach[fp] = true
	bad := ""
	var pos token.Pos
	n := 0
	for fn := range reach {
		n++
		for _, ci := range core.CallSites(fn) {
			cal := ci.Common().StaticCallee()
			if cal == nil || cal.Pkg == nil {
				continue
			}
			switch cal.Pkg.Pkg.Path() {
			case "sort", "slices":
				if (strings.HasPrefix(cal.Name(), "Sort") || strings.HasPrefix(cal.Name(), "Slice") || cal.Name() == "Stable" || cal.Name() == "Reverse") && sortsSelections(ci) {
					if bad == "" || core.FuncKey(fn) < bad {
						bad = core.FuncKey(fn) + " calls " + cal.Pkg.Pkg.Path() + "." + cal.Name()
						pos = ci.Pos()
					}
				}
			}
		}
	}
	r.Check(bad == "", "fingerprintDocument/document-order", pos, fmt.Sprintf("no call that sorts or reorders selections in the %d functions of the fingerprint computation", n),
		bad+" while computing the document fingerprint: documents that differ only in the order of selections get one key and share a plan — a mutation whose top-level fields arrive through a fragment is executed in the other document's order")
}

// ---------------------------------------------------------------------------------------------------------------------

// sortsSelections: the slice handed to the sorting call holds selections (fields, spreads, inline fragments). Sorting
// arguments or variable definitions by name would be a sound canonicalisation (their order carries no meaning).
func sortsSelections(ci ssa.CallInstruction) bool {
	args := ci.Common().Args
	if len(args) == 0 {
		return false
	}
	t := args[0].Type()
	if mi, ok := args[0].(*ssa.MakeInterface); ok {
		t = mi.X.Type()
	}
	sl, ok := t.Underlying().(*types.Slice)
	if !ok {
		return false
	}
	switch core.TypeName(derefT(sl.Elem())) {
	case "Selection", "Field", "FragmentSpread", "InlineFragment", "SelectionSet":
		return true
	}
	return false
}

func upperSnake(s string) string {
	var b strings.Builder
	for i, ch := range s {
		if i > 0 && ch >= 'A' && ch <= 'Z' {
			b.WriteByte('_')
		}
		b.WriteString(strings.ToUpper(string(ch)))
	}
	return b.String()
}

// r3DirLocation: KnownDirectives checks a directive against the location named after the node it is attached to. The
// mapping node kind -> location is a table whose two sides are named consistently in the spec and in this code base
// (kinds.FragmentDefinition -> "FRAGMENT_DEFINITION", kinds.ObjectDefinition -> "OBJECT", operation "query" -> "QUERY"),
// so the table can be checked against the names: for a kind K the location is UPPER_SNAKE(K) if such a location exists,
// else UPPER_SNAKE(K without its Definition suffix). The two kinds that map to several locations are tabled.
func r3DirLocation(c *core.Ctx, r *core.Reporter) {
	p, fd := c.FindDecl("", "getDirectiveLocationForASTPath")
	if fd == nil {
		r.Unknown("getDirectiveLocationForASTPath", token.NoPos, "not found")
		return
	}
	info := p.TypesInfo
	// the location constants
	locs := map[string]bool{}
	scope := p.Types.Scope()
	for _, name := range scope.Names() {
		if cst, ok := scope.Lookup(name).(*types.Const); ok && strings.HasPrefix(name, "DirectiveLocation") && cst.Val().Kind() == constant.String {
			locs[constant.StringVal(cst.Val())] = true
		}
	}
	constOf := func(e ast.Expr) (pkg, name, val string, ok bool) {
		var id *ast.Ident
		switch x := ast.Unparen(e).(type) {
		case *ast.SelectorExpr:
			id = x.Sel
		case *ast.Ident:
			id = x
		}
		if id == nil {
			return
		}
		cst, isC := info.Uses[id].(*types.Const)
		if !isC || cst.Val().Kind() != constant.String || cst.Pkg() == nil {
			return
		}
		return cst.Pkg().Name(), cst.Name(), constant.StringVal(cst.Val()), true
	}
	expected := func(pkg, name, val string) []string {
		switch {
		case pkg == "ast" && strings.HasPrefix(name, "OperationType"):
			return []string{strings.ToUpper(val)}
		case pkg == "kinds":
			switch name {
			case "OperationDefinition":
				return []string{"QUERY", "MUTATION", "SUBSCRIPTION"}
			case "InputValueDefinition":
				return []string{"ARGUMENT_DEFINITION", "INPUT_FIELD_DEFINITION"}
			}
			if full := upperSnake(name); locs[full] {
				return []string{full}
			}
			if short := upperSnake(strings.TrimSuffix(name, "Definition")); locs[short] {
				return []string{short}
			}
		}
		return nil
	}
	// returned location constants directly under a condition on constant K (not under a nested condition on another constant)
	var check func(body ast.Node, pkg, name, val string)
	returnsUnder := func(body ast.Node) []string {
		var out []string
		var visit func(n ast.Node) bool
		visit = func(n ast.Node) bool {
			switch x := n.(type) {
			case *ast.FuncLit:
				return false
			case *ast.IfStmt:
				if b, ok := x.Cond.(*ast.BinaryExpr); ok && b.Op == token.EQL {
					if _, _, _, isC := constOf(b.Y); isC {
						if x.Else != nil {
							ast.Inspect(x.Else, visit)
						}
						return false
					}
				}
			case *ast.CaseClause:
				for _, e := range x.List {
					if _, _, _, isC := constOf(e); isC {
						return false
					}
				}
			case *ast.ReturnStmt:
				if len(x.Results) == 1 {
					if _, _, v, ok := constOf(x.Results[0]); ok {
						out = append(out, v)
					}
				}
			}
			return true
		}
		ast.Inspect(body, visit)
		return out
	}
	check = func(body ast.Node, pkg, name, val string) {
		exp := expected(pkg, name, val)
		if exp == nil {
			return
		}
		key := "getDirectiveLocationForASTPath/" + pkg + "." + name
		got := returnsUnder(body)
		bad := ""
		for _, g := range got {
			okv := false
			for _, e := range exp {
				if g == e {
					okv = true
				}
			}
			if !okv {
				bad = g
			}
		}
		if len(got) == 0 && !(pkg == "kinds" && name == "OperationDefinition") {
			bad = "(nothing)"
		}
		if bad == "" {
			r.OK(key, body.Pos(), "yields %v", exp)
		} else {
			r.Bad(key, body.Pos(), "a directive attached to a %s node is checked against location %s instead of %v: directives are accepted where their definition does not allow them and rejected where it does", name, bad, exp)
		}
	}
	// conditions on the operation type inside the arm of a kind
	inner := func(body ast.Node) {
		ast.Inspect(body, func(n ast.Node) bool {
			switch x := n.(type) {
			case *ast.IfStmt:
				if b, ok := x.Cond.(*ast.BinaryExpr); ok && b.Op == token.EQL {
					if pkg, name, val, isC := constOf(b.Y); isC && pkg == "ast" {
						check(x.Body, pkg, name, val)
					}
				}
			case *ast.CaseClause:
				if len(x.List) == 1 {
					if pkg, name, val, isC := constOf(x.List[0]); isC && pkg == "ast" {
						check(&ast.BlockStmt{Lbrace: x.Pos(), List: x.Body}, pkg, name, val)
					}
				}
			}
			return true
		})
	}
	c.InspectWithFresh(info, fd.Body, func(n ast.Node) bool {
		switch x := n.(type) {
		case *ast.IfStmt:
			if b, ok := x.Cond.(*ast.BinaryExpr); ok && b.Op == token.EQL {
				if pkg, name, val, isC := constOf(b.Y); isC && pkg == "kinds" {
					check(x.Body, pkg, name, val)
					inner(x.Body)
					return false
				}
			}
		case *ast.CaseClause:
			if len(x.List) == 1 {
				if pkg, name, val, isC := constOf(x.List[0]); isC && pkg == "kinds" {
					body := &ast.BlockStmt{Lbrace: x.Pos(), List: x.Body}
					check(body, pkg, name, val)
					inner(body)
					return false
				}
			}
		case *ast.KeyValueExpr:
			if pkg, name, val, isC := constOf(x.Key); isC {
				if _, _, v, ok := constOf(x.Value); ok {
					if exp := expected(pkg, name, val); exp != nil {
						okv := false
						for _, e := range exp {
							if e == v {
								okv = true
							}
						}
						r.Check(okv, "getDirectiveLocationForASTPath/"+pkg+"."+name, x.Pos(), "table entry agrees with the names",
							fmt.Sprintf("a directive attached to a %s node is checked against location %s instead of %v", name, v, exp))
					}
				}
			}
		}
		return true
	})
}

// ---------------------------------------------------------------------------------------------------------------------

// r3MetaFirst: getFieldDef (planner / executor) and DefaultTypeInfoFieldDef (validator) are siblings: both map a field
// name on a parent type to a definition, and both must prefer __schema / __type / __typename over a field of the same
// name the type may declare (the library does not reserve the prefix). If one of them consults the type's own fields
// first, a document is validated against one definition and executed with another. Decided on SSA: in each sibling every
// lookup in the result of Fields() is dominated by the three comparisons with the meta definitions' names.
func r3MetaFirst(c *core.Ctx, r *core.Reporter) {
	metaOf := func(v ssa.Value) string {
		// *(&(*Global).Name)
		for i := 0; i < 6 && v != nil; i++ {
			switch x := v.(type) {
			case *ssa.UnOp:
				v = x.X
			case *ssa.FieldAddr:
				v = x.X
			case *ssa.Field:
				v = x.X
			case *ssa.Global:
				if strings.HasSuffix(x.Name(), "MetaFieldDef") {
					return x.Name()
				}
				return ""
			default:
				return ""
			}
		}
		return ""
	}
	for _, name := range []string{"getFieldDef", "DefaultTypeInfoFieldDef"} {
		fn := c.Func("", name)
		key := name + "/meta-fields-before-own-fields"
		if fn == nil {
			r.Unknown(key, token.NoPos, "%s not found", name)
			continue
		}
		cmp := map[string][]ssa.Instruction{}
		var lookups []ssa.Instruction
		for _, g := range c.Region(fn) {
			core.Instrs(g, func(in ssa.Instruction) {
				switch x := in.(type) {
				case *ssa.BinOp:
					if x.Op == token.EQL {
						for _, side := range []ssa.Value{x.X, x.Y} {
							if m := metaOf(side); m != "" {
								cmp[m] = append(cmp[m], c.Anchor(fn, in))
							}
						}
					}
				case *ssa.Lookup:
					if call, ok := x.X.(*ssa.Call); ok {
						if cal := call.Call.StaticCallee(); cal != nil && core.N(cal) == "Fields" {
							lookups = append(lookups, c.Anchor(fn, in))
						}
					}
				}
			})
		}
		if len(lookups) == 0 || len(cmp) == 0 {
			// the switch spelling compares the name with constants loaded once: fall back to "undecided"
			if len(lookups) == 0 {
				r.Unknown(key, fn.Pos(), "no lookup in the type's own fields found (anchor moved)")
				continue
			}
		}
		bad := ""
		for _, lk := range lookups {
			for _, m := range []string{"SchemaMetaFieldDef", "TypeMetaFieldDef", "TypeNameMetaFieldDef"} {
				dom := false
				for _, ci := range cmp[m] {
					if ci != nil && lk != nil && core.InstrDominates(ci, lk) {
						dom = true
					}
				}
				if !dom {
					bad = m
				}
			}
		}
		r.Check(bad == "", key, fn.Pos(), "every lookup in the type's own fields comes after the comparisons with the three meta field names",
			name+" looks the name up in the type's own fields before comparing it with "+bad+".Name: for a type that declares a field of that name the executor and the validator pick different definitions (`__typename` answered by a user resolver)")
	}
}

// ---------------------------------------------------------------------------------------------------------------------

// r3TypesList: __schema.types must list exactly the types of the type map, also after AppendType (which adds the appended
// type and everything it references). Necessary condition: what the resolver returns is computed from TypeMap() at
// request time — a list kept beside the map has to be maintained by every writer of the map.
func r3TypesList(c *core.Ctx, r *core.Reporter) {
	tm := c.Func("", "Schema.TypeMap")
	if tm == nil {
		r.Unknown("__schema.types", token.NoPos, "Schema.TypeMap not found")
		return
	}
	schemaT := c.Named("", "Schema")
	n := 0
	for _, fn := range c.LibFuncs() {
		if fn.Parent() == nil || !c.IsLibPkgFn(fn, "") || len(fn.Params) != 1 || core.TypeName(fn.Params[0].Type()) != "ResolveParams" {
			continue
		}
		// a resolver whose source is asserted to Schema and which returns a []Type
		returnsTypes := false
		for _, ret := range core.Returns(fn) {
			if len(ret.Results) == 2 {
				if mi, ok := ret.Results[0].(*ssa.MakeInterface); ok {
					if sl, ok := mi.X.Type().Underlying().(*types.Slice); ok && core.TypeName(sl.Elem()) == "Type" {
						returnsTypes = true
					}
				}
			}
		}
		assertsSchema := false
		core.Instrs(fn, func(in ssa.Instruction) {
			if ta, ok := in.(*ssa.TypeAssert); ok && schemaT != nil && types.Identical(ta.AssertedType, schemaT) {
				assertsSchema = true
			}
		})
		if !returnsTypes || !assertsSchema {
			continue
		}
		n++
		uses := len(c.RegionCallsTo(fn, tm)) > 0
		var fieldRead string
		core.Instrs(fn, func(in ssa.Instruction) {
			var f *types.Var
			switch x := in.(type) {
			case *ssa.Field:
				f = core.FieldOf(x)
			case *ssa.FieldAddr:
				f = core.FieldOf(x)
			}
			if f != nil && schemaT != nil && core.StructField(schemaT, f.Name()) == f {
				if sl, ok := f.Type().Underlying().(*types.Slice); ok && core.TypeName(sl.Elem()) == "Type" {
					fieldRead = f.Name()
				}
			}
		})
		key := "__schema.types/from-type-map"
		if n > 1 {
			key += fmt.Sprintf("#%d", n)
		}
		r.Check(uses && fieldRead == "", key, fn.Pos(), "the list is collected from TypeMap() on every request",
			"the resolver of a []Type field of __Schema returns Schema."+fieldRead+" (or no longer reads TypeMap()): a list kept beside the type map misses the types that AppendType adds by reference (field, argument and interface types of the appended type), so __schema.types and __type(name:) disagree")
	}
	if n == 0 {
		r.Unknown("__schema.types/from-type-map", token.NoPos, "no introspection resolver returning []Type from a Schema source found (anchor moved)")
	}
}

// ---------------------------------------------------------------------------------------------------------------------

// r3Escape: PlanCache keeps its entries behind a mutex. A method that returns the address of something inside an entry
// lets the caller read and write shared state after the lock is gone (Get stamps the per-call synthetic arguments onto the
// result it got: harmless on a copy, a data race and a cross-request leak on the cached original). Decided: no result of a
// PlanCache method is the address of a field or element of an object the method did not allocate itself.
func r3Escape(c *core.Ctx, r *core.Reporter) {
	pc := c.Named("", "PlanCache")
	if pc == nil {
		r.Unknown("PlanCache", token.NoPos, "type PlanCache not found")
		return
	}
	for _, fn := range c.LibFuncs() {
		if fn.Parent() != nil || fn.Signature.Recv() == nil || core.NamedOf(derefT(fn.Signature.Recv().Type())) != pc {
			continue
		}
		hasPtr := false
		for i := 0; i < fn.Signature.Results().Len(); i++ {
			if _, ok := fn.Signature.Results().At(i).Type().Underlying().(*types.Pointer); ok {
				hasPtr = true
			}
		}
		key := core.FuncKey(fn) + "/no-address-of-guarded-state"
		bad := ""
		var pos token.Pos
		for _, ret := range core.Returns(fn) {
			for i := range ret.Results {
				v := core.RetVal(ret, i)
				for _, o := range core.Origins(v) {
					var base ssa.Value
					switch x := o.(type) {
					case *ssa.FieldAddr:
						base = x.X
					case *ssa.IndexAddr:
						base = x.X
					default:
						continue
					}
					// address of a part of an object: fine only if the object is this call's own allocation
					fresh := false
					for _, bo := range core.Origins(base) {
						if al, ok := bo.(*ssa.Alloc); ok && al.Parent() == fn {
							fresh = true
						}
					}
					if !fresh {
						bad = "returns the address of a field / element of an object it did not allocate"
						pos = ret.Pos()
					}
				}
			}
		}
		if bad != "" {
			r.Bad(key, pos, "%s %s: the caller keeps a reference into the cache after the mutex is released — concurrent requests that hit the same entry read and write it unsynchronised (the per-call synthetic arguments of one request are handed to another)", core.FuncKey(fn), bad)
		} else if hasPtr {
			r.OK(key, fn.Pos(), "pointer results are values stored in the cache, not addresses of its entries")
		} else {
			r.Exists(key, fn.Pos(), "no pointer result")
		}
	}
}

// ---------------------------------------------------------------------------------------------------------------------

// r3CtxNil: the validation context reports, for the position being visited, the field definition, directive, argument
// and types that apply — or nil when the document names something the schema does not have (validation must then report
// that, not crash: it runs outside every recover). Decided: in the validation rules every field read through a pointer
// obtained from one of these accessors is dominated by a nil test of that pointer whose non-nil side leads nowhere else.
func r3CtxNil(c *core.Ctx, r *core.Reporter) {
	vc := c.Named("", "ValidationContext")
	if vc == nil {
		r.Unknown("ValidationContext", token.NoPos, "type not found")
		return
	}
	accessor := func(cal *ssa.Function) bool {
		if cal == nil || cal.Signature.Recv() == nil || core.NamedOf(derefT(cal.Signature.Recv().Type())) != vc {
			return false
		}
		switch core.N(cal) {
		case "FieldDef", "Directive", "Argument":
			return true
		}
		return false
	}
	per := map[string]int{}
	for _, fn := range c.LibFuncs() {
		if !c.IsLibPkgFn(fn, "") {
			continue
		}
		for _, ci := range core.CallSites(fn) {
			call, ok := ci.(*ssa.Call)
			if !ok || !accessor(call.Call.StaticCallee()) {
				continue
			}
			if _, isPtr := call.Type().Underlying().(*types.Pointer); !isPtr {
				continue
			}
			host := core.FuncKey(fn)
			k0 := host + "/" + core.N(call.Call.StaticCallee())
			per[k0]++
			key := k0 + "/nil-tested-before-use"
			if per[k0] > 1 {
				key += fmt.Sprintf("#%d", per[k0])
			}
			// aliases: the call, phis and the loads of a local it is stored into (closure-shared variables are not followed)
			al := map[ssa.Value]bool{call: true}
			work := []ssa.Value{call}
			var cells []ssa.Value
			for len(work) > 0 {
				x := work[0]
				work = work[1:]
				if x.Referrers() == nil {
					continue
				}
				for _, ref := range *x.Referrers() {
					switch u := ref.(type) {
					case *ssa.Phi:
						if !al[u] {
							al[u] = true
							work = append(work, u)
						}
					case *ssa.Store:
						if u.Val == x {
							if a, ok := u.Addr.(*ssa.Alloc); ok {
								cells = append(cells, a)
							}
						}
					}
				}
			}
			for _, cell := range cells {
				if cell.Referrers() == nil {
					continue
				}
				// only when the call is the single store into the cell
				stores := 0
				for _, ref := range *cell.Referrers() {
					if st, ok := ref.(*ssa.Store); ok && st.Addr == cell {
						stores++
					}
				}
				if stores != 1 {
					continue
				}
				for _, ref := range *cell.Referrers() {
					if ld, ok := ref.(*ssa.UnOp); ok && ld.Op == token.MUL && ld.Parent() == fn {
						al[ld] = true
					}
				}
			}
			// non-nil regions: blocks dominated by the exclusive non-nil successor of a nil test of an alias
			var safeRoots []*ssa.BasicBlock
			for a := range al {
				if a.Referrers() == nil {
					continue
				}
				for _, ref := range *a.Referrers() {
					b, ok := ref.(*ssa.BinOp)
					if !ok || !(core.IsNilConst(b.X) || core.IsNilConst(b.Y)) || b.Referrers() == nil {
						continue
					}
					for _, u := range *b.Referrers() {
						iff, ok := u.(*ssa.If)
						if !ok {
							continue
						}
						side := 0
						if b.Op == token.EQL {
							side = 1
						}
						s := iff.Block().Succs[side]
						if len(s.Preds) == 1 {
							safeRoots = append(safeRoots, s)
						}
					}
				}
			}
			bad := ""
			var pos token.Pos
			for a := range al {
				if a.Referrers() == nil {
					continue
				}
				for _, ref := range *a.Referrers() {
					fa, ok := ref.(*ssa.FieldAddr)
					if !ok || fa.X != a {
						continue
					}
					safe := false
					for _, s := range safeRoots {
						if s.Dominates(fa.Block()) {
							safe = true
						}
					}
					if !safe {
						f := core.FieldOf(fa)
						fname := "?"
						if f != nil {
							fname = f.Name()
						}
						bad = "reads ." + fname
						pos = fa.Pos()
					}
				}
			}
			if bad == "" {
				r.OK(key, call.Pos(), "every field read through the result is on the non-nil side of a test of it")
			} else {
				r.Bad(key, pos, "%s %s of what %s returned on a path where it has not been established to be non-nil: for a document naming a field / directive / argument the schema does not define, validation dereferences nil and the panic escapes Do, ValidateDocument and PlanCache.Get", host, bad, core.N(call.Call.StaticCallee()))
			}
		}
	}
}

// ---------------------------------------------------------------------------------------------------------------------

// r3PrevEnd: a node's location ends at Parser.PrevEnd, the end of the last token consumed. Every place that replaces the
// current token (Parser.Token) therefore first records the old token's end; a path that installs a new token without
// doing so (a cached lookahead token, say) leaves PrevEnd pointing before the node that was just parsed.
func r3PrevEnd(c *core.Ctx, r *core.Reporter) {
	pt := c.Named("language/parser", "Parser")
	if pt == nil {
		r.Unknown("Parser.Token", token.NoPos, "type Parser not found")
		return
	}
	tok := core.StructField(pt, "Token")
	prev := core.StructField(pt, "PrevEnd")
	if tok == nil || prev == nil {
		r.Unknown("Parser.Token", token.NoPos, "fields Token / PrevEnd not found (anchor moved)")
		return
	}
	n := 0
	for _, fn := range c.LibFuncs() {
		if !c.IsLibPkgFn(fn, "language/parser") {
			continue
		}
		var tokStores, prevStores []*ssa.Store
		core.Instrs(fn, func(in ssa.Instruction) {
			st, ok := in.(*ssa.Store)
			if !ok {
				return
			}
			fa, ok := st.Addr.(*ssa.FieldAddr)
			if !ok {
				return
			}
			// a literal being filled in (constructor) is not a replacement of the current token
			for _, o := range core.Origins(fa.X) {
				if al, ok := o.(*ssa.Alloc); ok && al.Parent() == fn {
					return
				}
			}
			switch core.FieldOf(fa) {
			case tok:
				tokStores = append(tokStores, st)
			case prev:
				prevStores = append(prevStores, st)
			}
		})
		for i, ts := range tokStores {
			n++
			key := core.FuncKey(fn) + "/token-replaced-after-prevend"
			if i > 0 {
				key += fmt.Sprintf("#%d", i+1)
			}
			dom := false
			for _, ps := range prevStores {
				if core.InstrDominates(ps, ts) {
					dom = true
				}
			}
			// the bookkeeping extracted into a helper that is called first
			for _, ci := range core.CallSites(fn) {
				cal := ci.Common().StaticCallee()
				if cal == nil || !c.IsLib(cal) || cal == fn || !core.InstrDominates(ci, ts) {
					continue
				}
				core.Instrs(cal, func(in ssa.Instruction) {
					if st, ok := in.(*ssa.Store); ok {
						if fa, ok := st.Addr.(*ssa.FieldAddr); ok && core.FieldOf(fa) == prev {
							dom = true
						}
					}
				})
			}
			r.Check(dom, key, ts.Pos(), "the store to Parser.Token is dominated by a store to Parser.PrevEnd",
				core.FuncKey(fn)+" installs a new current token on a path that does not update Parser.PrevEnd: the node built right after it gets a location that ends before the node's own text")
		}
	}
	if n == 0 {
		r.Unknown("Parser.Token", token.NoPos, "no function replaces the parser's current token (anchor moved)")
	}
}

package rules

import (
	"fmt"
	"go/ast"
	"go/token"
	"go/types"
	"strings"

	"golang.org/x/tools/go/ssa"

	"verif/gqlvet/core"
)

func init() {
	docs["C12"] = Doc{
		Explanation: "The only sources of run-to-run variation in this library are map iteration, non-total sorting, goroutine interleaving and mutable shared state — each a syntactic construct, so the hash-order clause is decided almost completely: " +
			"(MAPORD) every `range` over a map in library code is classified. Insensitive: the body only stores into maps/sets keyed by the loop key, accumulates idempotently, or collects keys/elements into a slice that is handed to a total sort (sort.Strings, sort.Sort on the collected slice, or the totally ordered suggestionList) before any other use. Construction-only loops whose sole order-dependent effect is which of several configuration errors is returned are accepted with that reason (no request-time response depends on them). Everything else (appends that escape unsorted, order-dependent returns, string building, calls that record errors or run user code in map order) is a violation; " +
			"(EXH-sort) every sort.Interface implementation in the library swaps every slice its Less reads, and the Less of suggestionListResult is a total order (ties broken on the option itself); " +
			"(OWN-state, via C07/OWN-writes) no request-reachable write to globals or shared state other than synchronised lazy initialisation, and no call of time.Now / rand / os.Getenv is reachable from request-time roots.",
		NotDecided: "nondeterminism inside user code (including the order in which sibling input fields are handed to a stateful custom scalar); scheduler-dependent interleavings of concurrent requests.",
	}
	register(&core.Rule{Name: "C12/MAPORD", Props: []string{"C12", "C10", "C11", "C13", "C15", "C17"}, Min: 27,
		Doc: "every map range is order-insensitive (keyed stores / collect-then-total-sort) or construction-only error choice", Run: c12MapOrder})
	register(&core.Rule{Name: "C12/EXH-sort", Props: []string{"C12"}, Min: 3,
		Doc: "sort.Interface implementations swap what Less reads; suggestion order is total", Run: c12Sort})
	register(&core.Rule{Name: "C12/OWN-ambient", Props: []string{"C12"}, Min: 1,
		Doc: "no ambient nondeterminism (time, rand, env) reachable from request-time roots", Run: c12Ambient})
}

// mapOrderExceptions: sites accepted although the classifier sees a call in map order.
var mapOrderExceptions = map[string]string{
	"coerceValue#1":  "stores keyed by field name; sibling fields are coerced in map order, which only a stateful custom scalar could observe (user-code nondeterminism)",
	"valueFromAST#1": "same as coerceValue: keyed stores, recursion only reaches scalar ParseLiteral callbacks",
	"copyArgValue#1": "pure structural copy, keyed stores",
}

func c12MapOrder(c *core.Ctx, r *core.Reporter) {
	roots, _ := c.FuncsByName(core.RequestRoots)
	reach := c.Reach(&core.ReachCfg{Roots: roots, OnlyLib: c.IsLib})
	per := map[string]int{}
	c.FuncDecls(func(rel string, p *packagesPkg, fd *ast.FuncDecl) {
		info := p.TypesInfo
		fn := c.Func(rel, core.DeclName(fd))
		requestTime := fn == nil || reach[fn]
		if fn != nil {
			for _, a := range core.WithAnon(fn) {
				if reach[a] {
					requestTime = true
				}
			}
		}
		core.WalkStack(fd.Body, func(n ast.Node, stack []ast.Node) bool {
			rs, ok := n.(*ast.RangeStmt)
			if !ok {
				return true
			}
			if _, ok := info.TypeOf(rs.X).Underlying().(*types.Map); !ok {
				return true
			}
			name := core.DeclName(fd)
			per[name]++
			key := fmt.Sprintf("%s#%d", name, per[name])
			class, why := classifyMapRange(c, info, rs, stack)
			switch {
			case class == "insensitive":
				r.OK(key, rs.Pos(), "%s", why)
			case mapOrderExceptions[key] != "":
				r.Exists(key, rs.Pos(), "accepted: %s", mapOrderExceptions[key])
			case class == "callee-effect" && !requestTime:
				r.Exists(key, rs.Pos(), "construction-time only: keyed stores; the callee evaluates configuration thunks / may return a configuration error in map order, observable only by side-effecting thunks or as the choice among several configuration errors (%s)", why)
			case class == "error-choice" && !requestTime:
				r.Exists(key, rs.Pos(), "construction-time only: iteration order decides at most which of several configuration errors is returned (%s)", why)
			default:
				when := "request-time"
				if !requestTime {
					when = "construction-time"
				}
				r.Bad(key, rs.Pos(), "order-sensitive iteration over map %s in %s (%s): %s — the observable result depends on Go's randomised map iteration order, so the same request can produce different output from run to run", core.ExprString(rs.X), name, when, why)
			}
			return true
		})
	})
}

// classifyMapRange returns "insensitive", "error-choice" or "sensitive" with a reason.
func classifyMapRange(c *core.Ctx, info *types.Info, rs *ast.RangeStmt, stack []ast.Node) (string, string) {
	loopVars := map[types.Object]bool{}
	for _, e := range []ast.Expr{rs.Key, rs.Value} {
		if e != nil {
			if o := core.ObjOf(info, e); o != nil {
				loopVars[o] = true
			}
		}
	}
	declaredInBody := func(o types.Object) bool {
		return o != nil && rs.Body.Pos() <= o.Pos() && o.Pos() <= rs.Body.End()
	}
	mentionsLoopVar := func(e ast.Expr) bool {
		hit := false
		ast.Inspect(e, func(x ast.Node) bool {
			if id, ok := x.(*ast.Ident); ok {
				o := info.Uses[id]
				if loopVars[o] || declaredInBody(o) {
					hit = true
				}
			}
			return true
		})
		return hit
	}
	isConst := func(e ast.Expr) bool {
		if tv, ok := info.Types[e]; ok && tv.Value != nil {
			return true
		}
		if id, ok := ast.Unparen(e).(*ast.Ident); ok {
			switch info.Uses[id].(type) {
			case *types.Nil:
				return true
			}
			return id.Name == "true" || id.Name == "false"
		}
		return false
	}
	var collected []types.Object
	sensitive := ""
	errorChoice := ""
	var walk func(n ast.Node)
	walk = func(n ast.Node) {
		ast.Inspect(n, func(x ast.Node) bool {
			switch s := x.(type) {
			case *ast.FuncLit:
				return false
			case *ast.ReturnStmt:
				allConst := true
				for _, e := range s.Results {
					if !isConst(e) {
						allConst = false
					}
				}
				if !allConst {
					errorChoice = "returns a value computed from the element reached first"
				}
			case *ast.BranchStmt:
				if s.Tok == token.BREAK || s.Tok == token.GOTO {
					errorChoice = "leaves the loop at the first matching element"
				}
			case *ast.AssignStmt:
				for i, lhs := range s.Lhs {
					var rhs ast.Expr
					if len(s.Rhs) == len(s.Lhs) {
						rhs = s.Rhs[i]
					} else if len(s.Rhs) == 1 {
						rhs = s.Rhs[0]
					}
					switch l := ast.Unparen(lhs).(type) {
					case *ast.IndexExpr:
						if _, isMap := info.TypeOf(l.X).Underlying().(*types.Map); isMap {
							if !mentionsLoopVar(l.Index) && !isConst(l.Index) {
								sensitive = "stores into a map under a key that does not derive from the loop element (last writer wins)"
							}
							// m[k] = append(m[k], v): the per-key list grows in iteration order
							if rhs != nil && derivesFromAppend(info, rs.Body, rhs) {
								sensitive = "appends to a per-key list (" + core.ExprString(l) + ") in map order"
							}
							continue
						}
						sensitive = "writes a slice/array element by an index not tied to the map key"
					case *ast.Ident:
						if l.Name == "_" {
							continue
						}
						o := core.ObjOf(info, l)
						if declaredInBody(o) || s.Tok == token.DEFINE {
							continue
						}
						if call, ok := rhs.(*ast.CallExpr); ok && core.IsBuiltinCall(info, call, "append") && len(call.Args) > 0 && core.ObjOf(info, call.Args[0]) == o {
							collected = append(collected, o)
							continue
						}
						if rhs != nil && isConst(rhs) {
							continue // idempotent flag
						}
						errorChoice = "assigns an outer variable from the current element (last/first writer wins)"
					case *ast.SelectorExpr:
						if rhs != nil && isConst(rhs) {
							continue
						}
						sensitive = "assigns a field from the current element"
					}
				}
			case *ast.IncDecStmt:
				// counting is commutative
			case *ast.ExprStmt:
				if call, ok := s.X.(*ast.CallExpr); ok {
					if core.IsBuiltinCall(info, call, "delete") || core.IsBuiltinCall(info, call, "panic") {
						return true
					}
					sensitive = "calls " + core.ExprString(call.Fun) + " for its side effects in map order"
				}
			case *ast.CallExpr:
				// dynamic calls (func values / interface methods of user types) in map order
				if f := core.CalleeObj(info, s); f == nil {
					if tv, ok := info.Types[s.Fun]; ok && tv.IsType() {
						return true
					}
					if id, ok := ast.Unparen(s.Fun).(*ast.Ident); ok {
						if _, isB := info.Uses[id].(*types.Builtin); isB {
							return true
						}
					}
					sensitive = "invokes a function value (" + core.ExprString(s.Fun) + ") in map order"
				}
			case *ast.SendStmt, *ast.GoStmt:
				sensitive = "sends / starts goroutines in map order"
			}
			return true
		})
	}
	walk(rs.Body)
	// static calls in the body that (transitively) record state or run user code
	ast.Inspect(rs.Body, func(x ast.Node) bool {
		call, ok := x.(*ast.CallExpr)
		if !ok {
			return true
		}
		f := core.CalleeObj(info, call)
		if f == nil || f.Pkg() == nil {
			return true
		}
		if _, lib := core.RelOfPkg(f.Pkg()); !lib {
			return true
		}
		if eff := effectOf(c, f); eff != "" {
			if sensitive == "" {
				sensitive = "calls " + core.N(f) + ", which " + eff + ", once per element in map order"
			}
		}
		return true
	})
	if sensitive != "" {
		if strings.Contains(sensitive, "once per element in map order") {
			// the only order-dependent effect is inside a callee (user thunks evaluated / errors recorded there)
			return "callee-effect", sensitive
		}
		return "sensitive", sensitive
	}
	// collected slices must be totally sorted before any other use
	for _, o := range collected {
		if ok, why := sortedAfter(info, rs, stack, o); !ok {
			return "sensitive", "appends to " + core.N(o) + " in map order and " + why
		}
	}
	if errorChoice != "" {
		return "error-choice", errorChoice
	}
	if len(collected) > 0 {
		return "insensitive", "collects into a slice that is totally sorted before any other use"
	}
	return "insensitive", "body only performs stores keyed by the loop element / idempotent accumulation"
}

// sortedAfter: in the enclosing statement list, the first statement after the loop that mentions
// slice variable o sorts it (or hands it to suggestionList, which orders totally).
func sortedAfter(info *types.Info, rs *ast.RangeStmt, stack []ast.Node, o types.Object) (bool, string) {
	var list []ast.Stmt
	for i := len(stack) - 2; i >= 0; i-- {
		if b, ok := stack[i].(*ast.BlockStmt); ok {
			list = b.List
			break
		}
		if cc, ok := stack[i].(*ast.CaseClause); ok {
			list = cc.Body
			break
		}
	}
	idx := -1
	for i, st := range list {
		if st == ast.Stmt(rs) {
			idx = i
		}
	}
	if idx < 0 {
		return false, "the enclosing block was not found"
	}
	mentions := func(n ast.Node) bool {
		hit := false
		ast.Inspect(n, func(x ast.Node) bool {
			if id, ok := x.(*ast.Ident); ok && info.Uses[id] == o {
				hit = true
			}
			return true
		})
		return hit
	}
	for _, st := range list[idx+1:] {
		if !mentions(st) {
			continue
		}
		sorted := false
		// the sort must be unconditional: a sort nested in a branch or loop of this statement orders the slice on some
		// paths only (accepted: a guard that depends on nothing but the slice's length — short slices are sorted already)
		conditional := false
		ast.Inspect(st, func(x ast.Node) bool {
			switch g := x.(type) {
			case *ast.IfStmt:
				if g.Init != nil || g.Else != nil || !onlyLenOf(info, g.Cond, o) {
					conditional = true
				}
			case *ast.ForStmt, *ast.RangeStmt, *ast.SwitchStmt, *ast.TypeSwitchStmt, *ast.SelectStmt:
				conditional = true
			}
			call, ok := x.(*ast.CallExpr)
			if !ok {
				return true
			}
			f := core.CalleeObj(info, call)
			if f == nil {
				return true
			}
			argIs := func(e ast.Expr) bool {
				e = ast.Unparen(e)
				if conv, ok := e.(*ast.CallExpr); ok && len(conv.Args) == 1 {
					if tv, ok := info.Types[conv.Fun]; ok && tv.IsType() {
						e = conv.Args[0]
					}
				}
				return core.ObjOf(info, e) == o
			}
			switch {
			case f.Pkg() != nil && f.Pkg().Path() == "sort" && (core.N(f) == "Strings" || core.N(f) == "Sort" || core.N(f) == "Stable" || core.N(f) == "Ints"):
				if len(call.Args) > 0 && argIs(call.Args[0]) {
					sorted = true
				}
			case core.N(f) == "suggestionList" && f.Pkg() != nil && f.Pkg().Path() == core.ModPath:
				if len(call.Args) == 2 && argIs(call.Args[1]) {
					sorted = true
				}
			}
			return true
		})
		if sorted && conditional {
			return false, "the slice is sorted only under a condition (" + strings.TrimSpace(shortStmt(st)) + "): on the other paths it keeps the map's iteration order"
		}
		if sorted {
			return true, ""
		}
		return false, "the slice is used (" + strings.TrimSpace(shortStmt(st)) + ") before being sorted"
	}
	return false, "the slice is never sorted in this block"
}

func shortStmt(st ast.Stmt) string {
	switch s := st.(type) {
	case *ast.ReturnStmt:
		return "returned"
	case *ast.ExprStmt:
		return core.ExprString(s.X)
	case *ast.AssignStmt:
		return "assigned"
	}
	return fmt.Sprintf("%T", st)
}

var effectCache = map[*types.Func]string{}

// effectOf summarises whether a library function (transitively, through static calls) writes
// non-local state that is not keyed by its arguments, or runs user code. "" = no such effect.
func effectOf(c *core.Ctx, f *types.Func) string {
	if e, ok := effectCache[f]; ok {
		return e
	}
	effectCache[f] = ""
	var fn *ssa.Function
	if rel, ok := core.RelOfPkg(f.Pkg()); ok {
		fn = c.Func(rel, strings.TrimPrefix(core.FuncFullName(f), relPrefix(rel)))
	}
	if fn == nil {
		return ""
	}
	res := ""
	seen := map[*ssa.Function]bool{}
	var visit func(g *ssa.Function, depth int)
	visit = func(g *ssa.Function, depth int) {
		if seen[g] || depth > 8 || res != "" {
			return
		}
		seen[g] = true
		for _, gg := range core.WithAnon(g) {
			for _, w := range core.WritesIn(gg) {
				if !w.Fresh && (w.Kind == "field" || w.Kind == "global" || w.Kind == "list") {
					if w.Field != nil && (strings.EqualFold(core.N(w.Field), "errors") || strings.EqualFold(core.N(w.Field), "Errors")) {
						res = "records errors (" + w.Target() + ")"
						return
					}
				}
			}
			for _, ci := range core.CallSites(gg) {
				if cb := core.UserCallback(ci); cb != "" {
					res = "runs user code (" + cb + ")"
					return
				}
				if cal := ci.Common().StaticCallee(); cal != nil && c.IsLib(cal) {
					visit(cal, depth+1)
				}
			}
		}
	}
	visit(fn, 0)
	effectCache[f] = res
	return res
}

func relPrefix(rel string) string {
	if rel == "" {
		return ""
	}
	return rel + "."
}

func c12Sort(c *core.Ctx, r *core.Reporter) {
	// every named type of the library with Len/Less/Swap
	sortIface := types.NewInterfaceType([]*types.Func{
		types.NewFunc(token.NoPos, nil, "Len", types.NewSignatureType(nil, nil, nil, nil, types.NewTuple(types.NewVar(token.NoPos, nil, "", types.Typ[types.Int])), false)),
		types.NewFunc(token.NoPos, nil, "Less", types.NewSignatureType(nil, nil, nil, types.NewTuple(types.NewVar(token.NoPos, nil, "", types.Typ[types.Int]), types.NewVar(token.NoPos, nil, "", types.Typ[types.Int])), types.NewTuple(types.NewVar(token.NoPos, nil, "", types.Typ[types.Bool])), false)),
		types.NewFunc(token.NoPos, nil, "Swap", types.NewSignatureType(nil, nil, nil, types.NewTuple(types.NewVar(token.NoPos, nil, "", types.Typ[types.Int]), types.NewVar(token.NoPos, nil, "", types.Typ[types.Int])), nil, false)),
	}, nil).Complete()
	for _, t := range c.Implementers(sortIface) {
		tn := core.TypeName(t)
		rel := ""
		if n := core.NamedOf(t); n != nil {
			rel, _ = core.RelOfPkg(n.Obj().Pkg())
		}
		p, less := c.FindDecl(rel, tn+".Less")
		_, swap := c.FindDecl(rel, tn+".Swap")
		if less == nil || swap == nil {
			continue
		}
		info := p.TypesInfo
		st, isStruct := core.NamedOf(t).Underlying().(*types.Struct)
		if !isStruct {
			r.Exists(tn, less.Pos(), "slice type: Swap exchanges whole elements")
			continue
		}
		_ = st
		lessFields := core.FieldsRead(info, []ast.Node{less})
		swapFields := core.FieldsRead(info, []ast.Node{swap})
		q := core.QualName(t)
		var miss []string
		for f := range lessFields[q] {
			if !swapFields[q][f] {
				miss = append(miss, f)
			}
		}
		r.Check(len(miss) == 0, tn, less.Pos(), "Swap exchanges every slice that Less reads",
			tn+".Less reads "+core.Join(miss)+" but Swap does not exchange it: sort.Sort compares stale keys and the result is not ordered (and depends on the input order)")
	}
	// The order of suggestions is total: by distance, ties broken on the option itself. The ordering function is the Less
	// method of the slice pair sorted with sort.Sort, or the less function handed to sort.Slice in suggestionList.
	p := c.Pkg("")
	var less ast.Node
	if _, fd := c.FindDecl("", "suggestionListResult.Less"); fd != nil && fd.Name.Name == "Less" {
		less = fd.Body
	} else if _, sl := c.FindDecl("", "suggestionList"); sl != nil {
		ast.Inspect(sl.Body, func(x ast.Node) bool {
			call, ok := x.(*ast.CallExpr)
			if !ok || len(call.Args) != 2 {
				return true
			}
			if f := core.CalleeObj(p.TypesInfo, call); f != nil && f.Pkg() != nil && f.Pkg().Path() == "sort" && (f.Name() == "Slice" || f.Name() == "SliceStable") {
				if fl, ok := call.Args[1].(*ast.FuncLit); ok {
					less = fl.Body
				}
			}
			return true
		})
	}
	if less == nil {
		r.Unknown("suggestionListResult.Less", token.NoPos, "the ordering function of suggestionList (Less method or sort.Slice less function) not found")
		return
	}
	basicKind := func(e ast.Expr) types.BasicInfo {
		if b, ok := p.TypesInfo.TypeOf(e).Underlying().(*types.Basic); ok {
			return b.Info()
		}
		return 0
	}
	byDistance, byOption := false, false
	var through string
	var tpos token.Pos
	ast.Inspect(less, func(x ast.Node) bool {
		be, ok := x.(*ast.BinaryExpr)
		if !ok {
			return true
		}
		switch be.Op {
		case token.LSS, token.GTR, token.LEQ, token.GEQ, token.NEQ, token.EQL:
		default:
			return true
		}
		if basicKind(be.X)&types.IsNumeric != 0 && basicKind(be.Y)&types.IsNumeric != 0 {
			byDistance = true
		}
		if basicKind(be.X)&types.IsString != 0 && basicKind(be.Y)&types.IsString != 0 && (be.Op == token.LSS || be.Op == token.GTR || be.Op == token.LEQ || be.Op == token.GEQ) {
			byOption = true
			// the tie-break compares the options themselves: comparing a function of them (lower-cased, trimmed) leaves
			// distinct options that the function maps to one value unordered, i.e. in map-iteration order
			for _, side := range []ast.Expr{be.X, be.Y} {
				if call, isCall := ast.Unparen(side).(*ast.CallExpr); isCall {
					if f := core.CalleeObj(p.TypesInfo, call); f != nil && through == "" {
						through = f.Pkg().Name() + "." + core.N(f)
						tpos = be.Pos()
					}
				}
			}
		}
		return true
	})
	r.Check(byDistance && byOption, "suggestionListResult.Less/total", less.Pos(),
		"orders by distance, then by the option itself (total order on distinct options)",
		"suggestions are ordered by distance only: options at equal distance keep the order in which they were collected from a map, so did-you-mean messages change from run to run")
	if through != "" {
		r.Bad("suggestionListResult.Less/tie-break-on-option", tpos, "the tie-break of the suggestion order compares %s(option) instead of the options: two distinct options with the same image (names that differ only in case, say) compare equal both ways, the sort leaves them in the order they were collected from a map, and the did-you-mean text changes from run to run", through)
	} else {
		r.OK("suggestionListResult.Less/tie-break-on-option", less.Pos(), "ties are broken on the option strings themselves")
	}
	// sortutil in gqlerrors and other sort.Slice users: Less functions given to sort.Slice must not be constant
	n := 0
	c.FuncDecls(func(rel string, pp *packagesPkg, fd *ast.FuncDecl) {
		ast.Inspect(fd.Body, func(x ast.Node) bool {
			call, ok := x.(*ast.CallExpr)
			if !ok {
				return true
			}
			if f := core.CalleeObj(pp.TypesInfo, call); f != nil && f.Pkg() != nil && f.Pkg().Path() == "sort" && (core.N(f) == "Slice" || core.N(f) == "SliceStable") {
				n++
				r.Exists(fmt.Sprintf("%s/sort.%s#%d", core.DeclName(fd), core.N(f), n), call.Pos(), "sort.Slice call inventoried")
			}
			return true
		})
	})
}

func c12Ambient(c *core.Ctx, r *core.Reporter) {
	roots, _ := c.FuncsByName(core.RequestRoots)
	reach := c.Reach(&core.ReachCfg{Roots: roots, OnlyLib: c.IsLib})
	bad := ""
	var pos token.Pos
	for fn := range reach {
		for _, ci := range core.CallSites(fn) {
			cal := ci.Common().StaticCallee()
			if cal == nil || cal.Pkg == nil {
				continue
			}
			pth := cal.Pkg.Pkg.Path()
			if (pth == "time" && (core.N(cal) == "Now" || core.N(cal) == "Since")) || pth == "math/rand" || pth == "math/rand/v2" || pth == "crypto/rand" ||
				(pth == "os" && (core.N(cal) == "Getenv" || core.N(cal) == "LookupEnv" || core.N(cal) == "Hostname" || core.N(cal) == "Getpid")) {
				bad = fnKey(fn) + " calls " + pth + "." + core.N(cal)
				pos = ci.Pos()
			}
		}
	}
	r.Check(bad == "", "request-roots/no-ambient-nondeterminism", pos, fmt.Sprintf("none of the %d request-reachable library functions reads the clock, randomness or the environment", len(reach)),
		bad+": the response depends on ambient state")
}

// derivesFromAppend: e is an append call or a body-local variable assigned from an append call.
func derivesFromAppend(info *types.Info, body *ast.BlockStmt, e ast.Expr) bool {
	if call, ok := ast.Unparen(e).(*ast.CallExpr); ok && core.IsBuiltinCall(info, call, "append") {
		return true
	}
	o := core.ObjOf(info, e)
	if o == nil {
		return false
	}
	found := false
	ast.Inspect(body, func(x ast.Node) bool {
		as, ok := x.(*ast.AssignStmt)
		if !ok {
			return true
		}
		for i, l := range as.Lhs {
			if core.ObjOf(info, l) == o && i < len(as.Rhs) {
				if call, ok := as.Rhs[i].(*ast.CallExpr); ok && core.IsBuiltinCall(info, call, "append") {
					found = true
				}
			}
		}
		return true
	})
	return found
}

// onlyLenOf: the expression mentions no variable other than o, and o only as the operand of len.
func onlyLenOf(info *types.Info, e ast.Expr, o types.Object) bool {
	ok := true
	ast.Inspect(e, func(x ast.Node) bool {
		switch v := x.(type) {
		case *ast.CallExpr:
			if core.IsBuiltinCall(info, v, "len") && len(v.Args) == 1 && core.ObjOf(info, v.Args[0]) == o {
				return false
			}
			ok = false
		case *ast.Ident:
			if obj := info.Uses[v]; obj != nil {
				if _, isVar := obj.(*types.Var); isVar {
					ok = false
				}
			}
		}
		return true
	})
	return ok
}

package rules

import "golang.org/x/tools/go/packages"

type packagesPkg = packages.Package

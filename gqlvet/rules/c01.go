package rules

import (
	"fmt"
	"go/ast"
	"go/token"
	"go/types"
	"sort"

	"golang.org/x/tools/go/ssa"

	"verif/gqlvet/core"
)

func init() {
	docs["C01"] = Doc{
		Explanation: "Response equality with the spec algorithm is NOT decided. Decided are necessary structural clauses of the two-stage executor: " +
			"(FLOW-pred) in Plan.collectInto no inclusion predicate is dropped: the predicate returned by planDirectives for a selection and the predicate inherited from enclosing fragments are AND-composed into every new field plan and every recursive collection, a literal always-skip leaves the case before anything is retained, and an occurrence merged into an existing field plan must account for its own predicate; " +
			"(PAIR-visited) the per-plan visited-fragment mark is only written under a request-independent gate; " +
			"(EXH-collect) the planner (collectInto) and the run-time reference collector (collectFields, used by subscriptions) cover the same closed set of selection kinds with the same gates per kind, and the two fragment-condition matchers have the same decision atoms; " +
			"(EXH-complete, shared with C04) completion dispatch and valueHasVariables are closed over their kinds; " +
			"(FLOW-args) the static and the dynamic argument paths call the same coercion function with the field definition's arguments and the canonical occurrence's argument ASTs; the root selection is planned for the operation's root type; " +
			"(FLOW-parent, shared with C20) sub-selections execute under the runtime parent type.",
		NotDecided: "grouping order, union of sub-selections of merged fields, null propagation (C04), argument values (C05), anything about which data comes out.",
	}
	register(&core.Rule{Name: "C01/FLOW-pred", Props: []string{"C01"}, Min: 7,
		Doc: "no inclusion predicate is dropped in plan-time collection", Run: c01Pred})
	register(&core.Rule{Name: "C01/PAIR-visited", Props: []string{"C01"}, Min: 1,
		Doc: "visited-fragment marks are written only under request-independent gates", Run: c01Visited})
	register(&core.Rule{Name: "C01/EXH-collect", Props: []string{"C01", "C09"}, Min: 9,
		Doc: "planner and reference collector agree on selection kinds, gates and fragment-match atoms", Run: c01Collect})
	register(&core.Rule{Name: "C01/FLOW-args", Props: []string{"C01", "C05"}, Min: 8,
		Doc: "static and dynamic argument paths coerce the same definitions and ASTs with the same function", Run: c01Args})
}

func c01Pred(c *core.Ctx, r *core.Reporter) {
	fn := c.Func("", "Plan.collectInto")
	pd := c.Func("", "planDirectives")
	and := c.Func("", "andPredicates")
	if fn == nil || pd == nil || and == nil {
		r.Unknown("Plan.collectInto", token.NoPos, "collectInto / planDirectives / andPredicates not found")
		return
	}
	if _, ok := fn.Params[len(fn.Params)-1].Type().Underlying().(*types.Signature); !ok {
		r.Unknown("Plan.collectInto/parentPred", fn.Pos(), "last parameter of collectInto is no longer the inherited predicate")
		return
	}
	// The selection cases may live in collectInto itself or in helpers extracted from it (one per selection kind, say).
	// inherited[g] is the value that stands for the inherited predicate inside host function g: collectInto's last
	// parameter, or the parameter of an extracted helper that receives it at the helper's call site.
	inherited := map[*ssa.Function]ssa.Value{fn: fn.Params[len(fn.Params)-1]}
	hosts := []*ssa.Function{fn}
	for changed := true; changed; {
		changed = false
		for _, g := range c.Region(fn) {
			if inherited[g] != nil || g.Parent() != nil {
				continue
			}
			for _, h := range hosts {
				for _, site := range core.CallsTo(h, g, false) {
					for i, a := range site.Common().Args {
						if a == inherited[h] && i < len(g.Params) {
							inherited[g] = g.Params[i]
							hosts = append(hosts, g)
							changed = true
						}
					}
				}
			}
		}
	}
	type caseInfo struct {
		host *ssa.Function
		call *ssa.Call
		pred ssa.Value
		skip ssa.Value
		kind string
	}
	var cases []caseInfo
	for _, g := range hosts {
		for _, ci := range core.CallsTo(g, pd, false) {
			call := ci.(*ssa.Call)
			k := caseInfo{host: g, call: call}
			for _, ref := range *call.Referrers() {
				if ex, ok := ref.(*ssa.Extract); ok {
					if ex.Index == 0 {
						k.pred = ex
					} else {
						k.skip = ex
					}
				}
			}
			// which selection kind: the directives argument is a field of ast.Field / InlineFragment / FragmentSpread
			for _, cl := range core.Classes(call.Call.Args[0]) {
				switch cl {
				case "field:Field.Directives":
					k.kind = "Field"
				case "field:InlineFragment.Directives":
					k.kind = "InlineFragment"
				case "field:FragmentSpread.Directives":
					k.kind = "FragmentSpread"
				}
			}
			cases = append(cases, k)
		}
	}
	if len(cases) != 3 {
		r.Bad("Plan.collectInto/cases", fn.Pos(), "expected planDirectives to be evaluated once per selection kind (3 call sites), found %d: some selection kind ignores its @skip/@include", len(cases))
		return
	}
	// composed(v): v is andPredicates(inherited, pred_k) for a case k of the same host whose call dominates `at`
	composed := func(v ssa.Value, at ssa.Instruction) (bool, string) {
		call, ok := v.(*ssa.Call)
		if !ok || call.Call.StaticCallee() != and || len(call.Call.Args) != 2 {
			return false, fmt.Sprintf("value is %v, not andPredicates(parentPred, pred)", core.Classes(v))
		}
		a, b := call.Call.Args[0], call.Call.Args[1]
		parentPred := inherited[at.Parent()]
		for _, k := range cases {
			if k.host != at.Parent() {
				continue
			}
			if (a == parentPred && b == k.pred) || (b == parentPred && a == k.pred) {
				if core.InstrDominates(k.call, at) {
					return true, k.kind
				}
			}
		}
		return false, "andPredicates is not applied to (inherited predicate, this selection's own predicate)"
	}
	for _, k := range cases {
		// always-skip leaves the case: the skip flag feeds an If whose true successor is the loop head — or, in a helper
		// that handles one selection, a plain return
		okSkip := false
		if k.skip != nil {
			for _, ref := range *k.skip.Referrers() {
				if iff, ok := ref.(*ssa.If); ok && iff.Cond == k.skip {
					okSkip = leavesIteration(k.host, iff.Block().Succs[0], k.host != fn)
				}
			}
		}
		r.Check(okSkip, "Plan.collectInto/"+k.kind+"/always-skip", k.call.Pos(),
			"a literal skip leaves the case before anything is retained",
			"the alwaysSkip result of planDirectives is not honoured for "+k.kind+" selections: a selection with @skip(if:true) / @include(if:false) is still planned")
	}
	// new field plans
	n := 0
	for _, g := range hosts {
		core.Instrs(g, func(in ssa.Instruction) {
			st, ok := in.(*ssa.Store)
			if !ok {
				return
			}
			f := core.FieldOf(st.Addr)
			if f == nil || core.N(f) != "skipPredicate" {
				return
			}
			n++
			ok2, why := composed(st.Val, st)
			if ok2 && why == "Field" {
				r.OK("Plan.collectInto/Field/new-plan-predicate", st.Pos(), "skipPredicate = andPredicates(parentPred, pred of this field)")
			} else {
				r.Bad("Plan.collectInto/Field/new-plan-predicate", st.Pos(), "a new field plan's skipPredicate does not combine the inherited and the field's own predicate (%s): the field is included when an enclosing fragment or its own directive excludes it", why)
			}
		})
	}
	if n == 0 {
		r.Bad("Plan.collectInto/Field/new-plan-predicate", fn.Pos(), "new field plans no longer receive a skipPredicate at all")
	}
	// recursive collections
	kinds := map[string]bool{}
	for _, g := range hosts {
		for _, ci := range core.CallsTo(g, fn, false) {
			args := ci.Common().Args
			ok2, why := composed(args[len(args)-1], ci)
			if ok2 {
				kinds[why] = true
				r.OK("Plan.collectInto/"+why+"/recursive-predicate", ci.Pos(), "fragment contents collected under andPredicates(parentPred, pred of this %s)", why)
			} else {
				r.Bad(fmt.Sprintf("Plan.collectInto/recursive-predicate@%d", len(kinds)), ci.Pos(), "a fragment's contents are collected under a predicate that drops a gate (%s)", why)
			}
		}
	}
	for _, k := range []string{"InlineFragment", "FragmentSpread"} {
		if !kinds[k] {
			r.Bad("Plan.collectInto/"+k+"/recursive-predicate", fn.Pos(), "no recursive collection under the composed predicate for %s selections", k)
		}
	}
	// merged occurrences: append to an existing plan's fieldASTs must record the occurrence's predicate
	merged := 0
	for _, g := range hosts {
		for _, w := range core.WritesIn(g) {
			if w.Field == nil || core.N(w.Field) != "fieldASTs" || w.Fresh {
				continue
			}
			merged++
			blk := w.In.Block()
			accounted := false
			for _, in := range blk.Instrs {
				if st, ok := in.(*ssa.Store); ok {
					if f := core.FieldOf(st.Addr); f != nil && core.N(f) != "fieldASTs" {
						for _, k := range cases {
							if k.host == g && usesValue(st.Val, k.pred, 4) && usesValue(st.Val, inherited[g], 4) {
								accounted = true
							}
						}
					}
				}
			}
			r.Check(accounted, "Plan.collectInto/Field/merged-occurrence-predicate", w.In.Pos(),
				"the merged occurrence's predicate is recorded with it",
				"an occurrence merged into an existing field plan (same response key) is kept while its own predicate and the inherited one are discarded: the key's presence and sub-selection follow only the first occurrence's condition")
		}
	}
	if merged == 0 {
		r.Unknown("Plan.collectInto/Field/merged-occurrence-predicate", fn.Pos(), "no merge of a repeated response key found (anchor moved)")
	}
}

// usesValue: v is target or is computed from target through calls/phis (bounded depth).
func usesValue(v, target ssa.Value, depth int) bool {
	if v == target {
		return true
	}
	if depth == 0 {
		return false
	}
	switch x := v.(type) {
	case *ssa.Call:
		for _, a := range x.Call.Args {
			if usesValue(a, target, depth-1) {
				return true
			}
		}
	case *ssa.Phi:
		for _, e := range x.Edges {
			if usesValue(e, target, depth-1) {
				return true
			}
		}
	case *ssa.MakeClosure:
		for _, b := range x.Bindings {
			if usesValue(b, target, depth-1) {
				return true
			}
		}
	case *ssa.MakeInterface:
		return usesValue(x.X, target, depth-1)
	case *ssa.ChangeType:
		return usesValue(x.X, target, depth-1)
	}
	return false
}

func c01Visited(c *core.Ctx, r *core.Reporter) {
	fn := c.Func("", "Plan.collectInto")
	pd := c.Func("", "planDirectives")
	if fn == nil || pd == nil {
		r.Unknown("Plan.collectInto/visited", token.NoPos, "not found")
		return
	}
	// the visited set: a map[string]bool that reaches collectInto from its caller — a parameter, or a field of a parameter
	// that bundles several of them
	isVisited := func(v ssa.Value) bool {
		m, ok := v.Type().Underlying().(*types.Map)
		if !ok {
			return false
		}
		if b, ok := m.Elem().Underlying().(*types.Basic); !ok || b.Kind() != types.Bool {
			return false
		}
		ok2, _ := core.OnlyClasses(v, "param:map[string]bool")
		return ok2
	}
	parentPred := fn.Params[len(fn.Params)-1]
	n := 0
	core.Instrs(fn, func(in ssa.Instruction) {
		mu, ok := in.(*ssa.MapUpdate)
		if !ok || !isVisited(mu.Map) {
			return
		}
		n++
		// dominated by tests `pred == nil` and `parentPred == nil` (both request-independent)?
		gated := map[string]bool{}
		core.Instrs(fn, func(x ssa.Instruction) {
			iff, ok := x.(*ssa.If)
			if !ok {
				return
			}
			bo, ok := iff.Cond.(*ssa.BinOp)
			if !ok || !core.IsNilConst(bo.Y) || (bo.Op != token.EQL && bo.Op != token.NEQ) {
				return
			}
			succ := iff.Block().Succs[0]
			if bo.Op == token.NEQ {
				succ = iff.Block().Succs[1]
			}
			if !succ.Dominates(mu.Block()) {
				return
			}
			if bo.X == parentPred {
				gated["parent"] = true
			}
			if ex, ok := bo.X.(*ssa.Extract); ok {
				if call, ok := ex.Tuple.(*ssa.Call); ok && call.Call.StaticCallee() == pd {
					gated["own"] = true
				}
			}
		})
		r.Check(gated["parent"] && gated["own"], "Plan.collectInto/FragmentSpread/visited-mark", mu.Pos(),
			"the visited mark is written only when neither the spread nor an enclosing fragment is conditionally included",
			"the per-plan visited-fragment mark is written while the spread (or an enclosing fragment) is gated by a variable-driven @skip/@include: a later ungated spread of the same fragment is cut by a mark made under a gate that may be false at run time")
	})
	if n == 0 {
		r.Unknown("Plan.collectInto/FragmentSpread/visited-mark", fn.Pos(), "no visited mark found: cyclic spreads are not cut (see C09/REC-fragments)")
	}
}

// gate functions and their correspondence planner <-> collector
var gateCorr = map[string]string{
	"planDirectives":             "directives",
	"shouldIncludeNode":          "directives",
	"planFragmentMatches":        "type-condition",
	"doesFragmentConditionMatch": "type-condition",
}

func c01Collect(c *core.Ctx, r *core.Reporter) {
	want := c.DeclaredImplementers("language/ast", "Selection")
	type side struct {
		name  string
		gates map[string]map[string]bool // selection kind -> gate set
	}
	var sides []side
	for _, name := range []string{"Plan.collectInto", "collectFields"} {
		p, fd := c.FindDecl("", name)
		if fd == nil {
			r.Unknown(name, token.NoPos, "not found")
			return
		}
		info := p.TypesInfo
		var sw *core.SwitchInfo
		for _, s := range core.TypeSwitches(info, fd.Body, false) {
			if s.Subject != nil && core.TypeName(s.Subject) == "Selection" {
				sw = s
			}
		}
		if sw == nil {
			r.Bad(name+"/switch", fd.Pos(), "no type switch over ast.Selection")
			return
		}
		miss := core.Missing(want, sw.Cases)
		r.Check(len(miss) == 0 && len(want) == 3, name+"/switch", sw.Node.Pos(),
			"covers the 3 declared selection kinds", "selection switch misses "+core.Join(miss)+": selections of that kind are silently dropped from the response")
		sd := side{name: name, gates: map[string]map[string]bool{}}
		for kind, cl := range sw.Clauses {
			g := map[string]bool{}
			c.InspectWithFresh(info, cl, func(n ast.Node) bool { // the arm and helpers extracted from it
				switch x := n.(type) {
				case *ast.CallExpr:
					if f := core.CalleeObj(info, x); f != nil {
						if corr, ok := gateCorr[core.N(f)]; ok {
							g[corr] = true
						}
					}
				case *ast.IndexExpr:
					// map lookups: visited set (map[string]bool) and fragment table
					if m, ok := info.TypeOf(x.X).Underlying().(*types.Map); ok {
						if b, ok := m.Elem().Underlying().(*types.Basic); ok && b.Kind() == types.Bool {
							g["visited"] = true
						} else if core.TypeName(m.Elem()) == "Definition" {
							g["fragment-lookup"] = true
						}
					}
				}
				return true
			})
			sd.gates[kind] = g
		}
		sides = append(sides, sd)
	}
	expect := map[string][]string{
		"Field":          {"directives"},
		"InlineFragment": {"directives", "type-condition"},
		"FragmentSpread": {"directives", "fragment-lookup", "type-condition", "visited"},
	}
	for _, sd := range sides {
		for kind, ex := range expect {
			var have []string
			for g := range sd.gates[kind] {
				have = append(have, g)
			}
			sort.Strings(have)
			r.Check(fmt.Sprint(have) == fmt.Sprint(ex), sd.name+"/gates/"+kind, token.NoPos,
				fmt.Sprintf("gate set %v", have),
				fmt.Sprintf("%s applies gates %v to %s selections, expected %v (the sibling collector and the spec apply exactly these)", sd.name, have, kind, ex))
		}
	}
	// fragment-match atoms
	atoms := func(name string) (map[string]int, token.Pos) {
		p, fd := c.FindDecl("", name)
		if fd == nil {
			return nil, token.NoPos
		}
		info := p.TypesInfo
		a := map[string]int{}
		ast.Inspect(fd.Body, func(n ast.Node) bool {
			switch x := n.(type) {
			case *ast.CallExpr:
				if f := core.CalleeObj(info, x); f != nil {
					switch core.N(f) {
					case "typeFromAST":
						a["typeFromAST"]++
					case "IsPossibleType":
						a["IsPossibleType"]++
					}
				}
			case *ast.BinaryExpr:
				if (x.Op == token.EQL || x.Op == token.NEQ) && isNilIdent(info, x.Y) {
					// the resolved condition type tested for nil: an unknown type name resolves to nil without an error
					if lx := info.TypeOf(x.X); lx != nil && core.TypeName(lx) == "Type" {
						a["nil-type"]++
					}
				}
				if x.Op == token.EQL {
					lx, ly := info.TypeOf(x.X), info.TypeOf(x.Y)
					if isCallNamed(info, x.X, "Name") && isCallNamed(info, x.Y, "Name") {
						a["name-equal"]++
					} else if lx != nil && ly != nil && (core.TypeName(lx) == "Type" || core.TypeName(ly) == "Type") && !isNilIdent(info, x.Y) {
						a["identity"]++
					} else if isNilIdent(info, x.Y) && lx != nil && core.TypeName(lx) == "Named" {
						a["nil-condition"]++
					}
				}
			case *ast.TypeAssertExpr:
				if x.Type != nil {
					tn := core.TypeName(info.TypeOf(x.Type))
					if tn == "Interface" || tn == "Union" {
						a["abstract:"+tn]++
					}
				}
			case *ast.CaseClause:
				for _, e := range x.List {
					if t := info.TypeOf(e); t != nil {
						tn := core.TypeName(t)
						if (tn == "Interface" || tn == "Union") && core.NamedOf(t) != nil && core.NamedOf(t).Obj().Pkg().Path() == core.ModPath {
							a["abstract:"+tn]++
						}
					}
				}
			}
			return true
		})
		return a, fd.Pos()
	}
	pa, ppos := atoms("planFragmentMatches")
	da, dpos := atoms("doesFragmentConditionMatch")
	if pa == nil || da == nil {
		r.Unknown("fragment-match", token.NoPos, "planFragmentMatches / doesFragmentConditionMatch not found")
		return
	}
	for _, atom := range []string{"typeFromAST", "IsPossibleType", "name-equal", "identity", "nil-condition", "nil-type", "abstract:Interface", "abstract:Union"} {
		per := 1
		if atom == "IsPossibleType" {
			per = 2
		}
		r.Check(pa[atom] == per, "planFragmentMatches/"+atom, ppos, fmt.Sprintf("decision atom present (%d)", pa[atom]),
			fmt.Sprintf("planFragmentMatches has %d occurrence(s) of decision atom %s, expected %d: fragments match a different set of runtime types than in the reference collector", pa[atom], atom, per))
		r.Check(da[atom] == 2*per, "doesFragmentConditionMatch/"+atom, dpos, fmt.Sprintf("decision atom present in both arms (%d)", da[atom]),
			fmt.Sprintf("doesFragmentConditionMatch has %d occurrence(s) of decision atom %s, expected %d (one per arm)", da[atom], atom, 2*per))
	}
}

func isCallNamed(info *types.Info, e ast.Expr, name string) bool {
	call, ok := ast.Unparen(e).(*ast.CallExpr)
	if !ok {
		return false
	}
	se, ok := call.Fun.(*ast.SelectorExpr)
	return ok && se.Sel.Name == name
}

// checkArgSpecs is the shared argument-provenance checker.
func checkArgSpecs(c *core.Ctx, r *core.Reporter, specs []argSpec) {
	for _, sp := range specs {
		caller := c.Func("", sp.caller)
		callee := c.Func("", sp.callee)
		key := fmt.Sprintf("%s->%s/%s", sp.caller, sp.callee, sp.what)
		if caller == nil || callee == nil {
			r.Unknown(key, token.NoPos, "caller or callee not found")
			continue
		}
		var sites []ssa.CallInstruction
		for _, fn := range c.Region(caller) { // the caller, its literals and helpers extracted from it
			sites = append(sites, core.CallsTo(fn, callee, false)...)
		}
		if len(sites) == 0 {
			r.Bad(key, caller.Pos(), "no call of %s in %s", sp.callee, sp.caller)
			continue
		}
		okAll := true
		var seen []string
		argIdx, found := c.ArgIndex(callee, sp.arg) // follows the parameter when the signature was reordered
		if !found {
			r.Unknown(key, sites[0].Pos(), "%s no longer has the parameter this obligation is about (signature changed): re-confirm the instance", sp.callee)
			continue
		}
		for _, s := range sites {
			args := s.Common().Args
			if argIdx >= len(args) {
				okAll = false
				continue
			}
			ok, _ := core.OnlyClasses(args[argIdx], sp.allowed...)
			seen = append(seen, core.Classes(args[argIdx])...)
			if !ok {
				okAll = false
			}
		}
		if okAll {
			r.OK(key, sites[0].Pos(), "argument provenance %v", seen)
		} else {
			r.Bad(key, sites[0].Pos(), "%s passes %s with provenance %v to %s, expected only %v", sp.caller, sp.what, seen, sp.callee, sp.allowed)
		}
	}
}

func c01Args(c *core.Ctx, r *core.Reporter) {
	checkArgSpecs(c, r, []argSpec{
		{"Plan.collectInto", "planArguments", 0, "argDefs", []string{"field:FieldDefinition.Args"}},
		{"Plan.collectInto", "planArguments", 1, "argASTs", []string{"field:Field.Arguments"}},
		{"planArguments", "getArgumentValues", 0, "argDefs", []string{"param:[]*github.com/graphql-go/graphql.Argument"}},
		{"planArguments", "getArgumentValues", 1, "argASTs", []string{"param:[]*github.com/graphql-go/graphql/language/ast.Argument"}},
		{"planArguments", "getArgumentValues", 2, "variables", []string{"nil"}},
		{"resolvePlannedField", "getArgumentValues", 0, "argDefs", []string{"field:argPlan.fieldDefArgs"}},
		{"resolvePlannedField", "getArgumentValues", 1, "argASTs", []string{"field:argPlan.argASTs"}},
		{"resolvePlannedField", "getArgumentValues", 2, "variables", []string{"field:executionContext.VariableValues"}},
		{"PlanQuery", "Plan.planSelectionSet", 1, "rootType", []string{"call:getOperationRootType"}},
		{"PlanQuery", "getOperationRootType", 1, "operation", []string{"index(field:Document.Definitions)", "range", "nil"}},
	})
	// planArguments: the dynamic plan keeps exactly its two parameters; static only when no variables
	fn := c.Func("", "planArguments")
	if fn == nil {
		r.Unknown("planArguments", token.NoPos, "not found")
		return
	}
	lits := core.LiteralStores(fn, "argPlan")
	okDyn := false
	for _, st := range lits {
		if len(st["hasVariables"]) == 1 {
			a, _ := core.OnlyClasses(st["fieldDefArgs"][0], "param:[]*github.com/graphql-go/graphql.Argument")
			var b bool
			if len(st["argASTs"]) == 1 {
				b, _ = core.OnlyClasses(st["argASTs"][0], "param:[]*github.com/graphql-go/graphql/language/ast.Argument")
			}
			okDyn = a && b
		}
	}
	r.Check(okDyn, "planArguments/dynamic-plan", fn.Pos(), "the dynamic argument plan keeps the definition's arguments and the occurrence's ASTs unchanged",
		"the variable-bearing argument plan no longer stores its two parameters (definitions, ASTs) as they are")
	// the static path is taken only when astHasVariables is false
	ahv := core.CallsTo(fn, c.Func("", "astHasVariables"), false)
	gav := core.CallsTo(fn, c.Func("", "getArgumentValues"), false)
	okGuard := false
	if len(ahv) == 1 && len(gav) == 1 {
		call := ahv[0].(*ssa.Call)
		for _, ref := range *call.Referrers() {
			if iff, ok := ref.(*ssa.If); ok && iff.Block().Succs[1].Dominates(gav[0].Block()) {
				okGuard = true
			}
		}
	}
	r.Check(okGuard, "planArguments/static-only-without-variables", fn.Pos(), "plan-time coercion happens only on the branch where astHasVariables is false",
		"arguments are pre-coerced at plan time without the astHasVariables guard: variable references are coerced with nil variables")
}

// leavesIteration: from block b control goes back to a loop header of fn (or, when retOK, to a return) through blocks
// that do nothing but step the loop — no call, store or map update on the way (`continue` of a range loop jumps to the
// header itself, `continue` of a three-clause loop to its post statement).
func leavesIteration(fn *ssa.Function, b *ssa.BasicBlock, retOK bool) bool {
	headers := core.Loops(fn)
	seen := map[*ssa.BasicBlock]bool{}
	var walk func(x *ssa.BasicBlock) bool
	walk = func(x *ssa.BasicBlock) bool {
		if _, isHeader := headers[x]; isHeader {
			return true
		}
		if seen[x] {
			return true
		}
		seen[x] = true
		for _, in := range x.Instrs {
			switch in.(type) {
			case *ssa.Call, *ssa.Store, *ssa.MapUpdate, *ssa.Go, *ssa.Defer, *ssa.Send, *ssa.Panic:
				return false
			case *ssa.Return:
				return retOK
			}
		}
		if len(x.Succs) == 0 {
			return false
		}
		for _, s := range x.Succs {
			if !walk(s) {
				return false
			}
		}
		return true
	}
	return walk(b)
}

package rules

import (
	"fmt"
	"go/ast"
	"go/token"
	"go/types"
	"reflect"
	"sort"
	"strings"

	"golang.org/x/tools/go/ssa"

	"verif/gqlvet/core"
)

func init() {
	docs["C10"] = Doc{
		Explanation: "(TAB-default-resolve) every introspection field declared without a resolver is served by the default resolver, i.e. by Go struct field name (case-folded) or json/graphql tag: for each such field of __Type/__Field/__InputValue/__EnumValue/__Directive and each Go type that can be its source, a matching struct field exists, or the pair is in the table of legitimately-null combinations (name/description of List and NonNull; ofType of named kinds); " +
			"(EXH-kind) the kind / fields / possibleTypes / interfaces / enumValues / inputFields resolvers switch over exactly the kinds that have that facet; " +
			"(FLOW-pseudotype) *Argument and *InputObjectField (which implement Type only nominally) never flow into astFromValue's type parameter; (EXH-astFromValue, in C05/EXH-input) astFromValue has an arm for every input kind and enums go through Serialize; " +
			"(MAPORD, shared C12) no list-valued resolver exposes map order; (PAIR-rebuild) AddImplementation rebuilds the implementation table from an empty one; (FLOW-typename) __typename resolves to Info.ParentType.Name(), and ParentType is the runtime object type (C20/FLOW-parent).",
		NotDecided: "that the type set equals the reachable set (C11/EXH-closure covers the traversal), description / deprecation values, default-value literal correctness beyond kind coverage.",
	}
	register(&core.Rule{Name: "C10/TAB-default-resolve", Props: []string{"C10"}, Min: 15,
		Doc: "resolver-less introspection fields bind to real struct fields of every possible source type", Run: c10DefaultResolve})
	register(&core.Rule{Name: "C10/EXH-kind", Props: []string{"C10"}, Min: 5,
		Doc: "introspection resolvers cover exactly the kinds that have the facet", Run: c10Kind})
	register(&core.Rule{Name: "C10/FLOW-pseudotype", Props: []string{"C10"}, Min: 2,
		Doc: "the declared type (not the pseudo-type) reaches the literal printer", Run: c10Pseudo})
	register(&core.Rule{Name: "C10/PAIR-rebuild", Props: []string{"C10", "C11"}, Min: 2,
		Doc: "tables rebuilt by a re-runnable method start empty", Run: c10Rebuild})
	register(&core.Rule{Name: "C10/FLOW-typename", Props: []string{"C10"}, Min: 1,
		Doc: "__typename names Info.ParentType", Run: c10TypeName})
}

// introspection type name -> Go source types of its values
var introSources = map[string][]string{
	"__Type":       {"Scalar", "Object", "Interface", "Union", "Enum", "InputObject", "List", "NonNull"},
	"__Field":      {"FieldDefinition"},
	"__InputValue": {"Argument", "InputObjectField"},
	"__EnumValue":  {"EnumValueDefinition"},
	"__Directive":  {"Directive"},
}

// (field, source) pairs that are legitimately null through the default resolver
var introNull = map[string]string{
	"__Type.name/List":           "wrapping types have no name",
	"__Type.name/NonNull":        "wrapping types have no name",
	"__Type.description/List":    "wrapping types have no description",
	"__Type.description/NonNull": "wrapping types have no description",
	"__Type.ofType/Scalar":       "only wrapping types have ofType",
	"__Type.ofType/Object":       "only wrapping types have ofType",
	"__Type.ofType/Interface":    "only wrapping types have ofType",
	"__Type.ofType/Union":        "only wrapping types have ofType",
	"__Type.ofType/Enum":         "only wrapping types have ofType",
	"__Type.ofType/InputObject":  "only wrapping types have ofType",
}

// introFields extracts, from the init function of introspection.go, introspection type -> field -> hasResolve
func introFields(c *core.Ctx) (map[string]map[string]bool, token.Pos) {
	p := c.Pkg("")
	info := p.TypesInfo
	out := map[string]map[string]bool{}
	varType := map[types.Object]string{}
	var at token.Pos
	add := func(tn, field string, lit ast.Expr) {
		if out[tn] == nil {
			out[tn] = map[string]bool{}
		}
		has := false
		if ue, ok := lit.(*ast.UnaryExpr); ok {
			lit = ue.X
		}
		if cl, ok := lit.(*ast.CompositeLit); ok {
			for _, el := range cl.Elts {
				if kv, ok := el.(*ast.KeyValueExpr); ok {
					if id, ok := kv.Key.(*ast.Ident); ok && id.Name == "Resolve" {
						has = true
					}
				}
			}
		}
		out[tn][field] = out[tn][field] || has
	}
	for _, f := range p.Syntax {
		for _, d := range f.Decls {
			fd, ok := d.(*ast.FuncDecl)
			if !ok || fd.Name.Name != "init" || fd.Body == nil {
				continue
			}
			c.InspectWithFresh(info, fd.Body, func(x ast.Node) bool { // init, or the phases it has been split into
				switch y := x.(type) {
				case *ast.AssignStmt:
					// X = NewObject(ObjectConfig{Name: "__T", Fields: Fields{…}})
					if len(y.Lhs) == 1 && len(y.Rhs) == 1 {
						if call, ok := y.Rhs[0].(*ast.CallExpr); ok {
							if fo := core.CalleeObj(info, call); fo != nil && core.N(fo) == "NewObject" && len(call.Args) == 1 {
								if cl, ok := call.Args[0].(*ast.CompositeLit); ok {
									name := ""
									var fields *ast.CompositeLit
									for _, el := range cl.Elts {
										if kv, ok := el.(*ast.KeyValueExpr); ok {
											if id, ok := kv.Key.(*ast.Ident); ok {
												if id.Name == "Name" {
													name = constString(info, kv.Value)
												}
												if id.Name == "Fields" {
													fields, _ = kv.Value.(*ast.CompositeLit)
												}
											}
										}
									}
									if strings.HasPrefix(name, "__") {
										at = call.Pos()
										varType[core.ObjOf(info, y.Lhs[0])] = name
										if fields != nil {
											for _, el := range fields.Elts {
												if kv, ok := el.(*ast.KeyValueExpr); ok {
													add(name, constString(info, kv.Key), kv.Value)
												}
											}
										}
									}
								}
							}
						}
					}
				case *ast.CallExpr:
					// X.AddFieldConfig("f", &Field{…})
					if se, ok := y.Fun.(*ast.SelectorExpr); ok && se.Sel.Name == "AddFieldConfig" && len(y.Args) == 2 {
						if tn := varType[core.ObjOf(info, se.X)]; tn != "" {
							add(tn, constString(info, y.Args[0]), y.Args[1])
						}
					}
				}
				return true
			})
		}
	}
	return out, at
}

// bindsDefault: struct type has a field the default resolver would pick for name
func bindsDefault(n *types.Named, name string) bool {
	st, ok := n.Underlying().(*types.Struct)
	if !ok {
		return false
	}
	for i := 0; i < st.NumFields(); i++ {
		f := st.Field(i)
		if strings.EqualFold(core.N(f), name) {
			return true
		}
		tag := reflect.StructTag(st.Tag(i))
		for _, k := range []string{"json", "graphql"} {
			if strings.Split(tag.Get(k), ",")[0] == name {
				return true
			}
		}
	}
	return false
}

func c10DefaultResolve(c *core.Ctx, r *core.Reporter) {
	fields, at := introFields(c)
	if len(fields) < 5 {
		r.Unknown("introspection", token.NoPos, "introspection type definitions not found (%d)", len(fields))
		return
	}
	var tns []string
	for tn := range introSources {
		tns = append(tns, tn)
	}
	sort.Strings(tns)
	for _, tn := range tns {
		fs := fields[tn]
		if fs == nil {
			r.Unknown(tn, at, "introspection type %s not found", tn)
			continue
		}
		var names []string
		for f := range fs {
			names = append(names, f)
		}
		sort.Strings(names)
		for _, f := range names {
			if fs[f] {
				continue // has its own resolver
			}
			for _, src := range introSources[tn] {
				key := fmt.Sprintf("%s.%s/%s", tn, f, src)
				n := c.Named("", src)
				if n == nil {
					r.Unknown(key, at, "source type %s not found", src)
					continue
				}
				if why, ok := introNull[key]; ok {
					if bindsDefault(n, f) {
						r.Bad(key, at, "%s is tabled as null for %s (%s) but the struct now has a matching field", tn+"."+f, src, why)
					} else {
						r.Exists(key, at, "legitimately null: %s", why)
					}
					continue
				}
				r.Check(bindsDefault(n, f), key, n.Obj().Pos(), "default resolver binds to a struct field / tag of "+src,
					fmt.Sprintf("introspection field %s.%s has no resolver and Go type %s has no field or json tag named %q: the default resolver returns null, so introspection silently loses that information", tn, f, src, f))
			}
		}
	}
}

func c10Kind(c *core.Ctx, r *core.Reporter) {
	p := c.Pkg("")
	info := p.TypesInfo
	// facets: introspection field of __Type -> kinds that must be handled by its resolver
	facets := map[string][]string{
		"kind":          {"Enum", "InputObject", "Interface", "List", "NonNull", "Object", "Scalar", "Union"},
		"fields":        {"Interface", "Object"},
		"interfaces":    {"Object"},
		"possibleTypes": {"Interface", "Union"},
		"enumValues":    {"Enum"},
		"inputFields":   {"InputObject"},
	}
	// closed set check for "kind": all declared Type implementers except the pseudo-types
	declared := c.DeclaredImplementers("", "Type")
	var real []string
	for _, d := range declared {
		if d != "Argument" && d != "InputObjectField" {
			real = append(real, d)
		}
	}
	sort.Strings(real)
	if fmt.Sprint(real) != fmt.Sprint(facets["kind"]) {
		r.Unknown("kinds", token.NoPos, "declared type kinds %v differ from the tabled 8 kinds: re-derive the facet table", real)
		return
	}
	found := map[string]bool{}
	for _, f := range p.Syntax {
		for _, d := range f.Decls {
			fd, ok := d.(*ast.FuncDecl)
			if !ok || fd.Name.Name != "init" || fd.Body == nil {
				continue
			}
			visit := func(field string, lit ast.Expr) {
				want, ok := facets[field]
				if !ok {
					return
				}
				var fl *ast.FuncLit
				ast.Inspect(lit, func(x ast.Node) bool {
					if kv, ok := x.(*ast.KeyValueExpr); ok {
						if id, ok := kv.Key.(*ast.Ident); ok && id.Name == "Resolve" {
							fl, _ = kv.Value.(*ast.FuncLit)
						}
					}
					return true
				})
				if fl == nil {
					return
				}
				have := map[string]bool{}
				for _, sw := range core.TypeSwitches(info, fl.Body, false) {
					for k := range sw.Cases {
						have[k] = true
					}
				}
				for k := range core.AssertChain(info, fl.Body, func(t types.Type) bool { return types.IsInterface(t) }) {
					have[k] = true
				}
				found[field] = true
				miss := core.Missing(want, have)
				r.Check(len(miss) == 0, "__Type."+field, fl.Pos(), "resolver handles "+core.Join(want),
					"the __Type."+field+" resolver has no arm for "+core.Join(miss)+": introspection reports nothing for types of that kind")
			}
			c.InspectWithFresh(info, fd.Body, func(x ast.Node) bool { // init, or the phases it has been split into
				switch y := x.(type) {
				case *ast.KeyValueExpr:
					if k := constString(info, y.Key); k != "" {
						if _, ok := facets[k]; ok {
							visit(k, y.Value)
						}
					}
				case *ast.CallExpr:
					if se, ok := y.Fun.(*ast.SelectorExpr); ok && se.Sel.Name == "AddFieldConfig" && len(y.Args) == 2 {
						visit(constString(info, y.Args[0]), y.Args[1])
					}
				}
				return true
			})
		}
	}
	for f := range facets {
		if !found[f] {
			r.Bad("__Type."+f, token.NoPos, "no resolver found for __Type.%s", f)
		}
	}
}

func c10Pseudo(c *core.Ctx, r *core.Reporter) {
	afv := c.Func("", "astFromValue")
	if afv == nil {
		r.Unknown("astFromValue", token.NoPos, "not found")
		return
	}
	n := 0
	for _, fn := range c.LibFuncs() {
		if fn == afv {
			continue
		}
		for _, ci := range core.CallsTo(fn, afv, false) {
			n++
			arg := ci.Common().Args[1]
			bad := ""
			var walk func(v ssa.Value, d int)
			walk = func(v ssa.Value, d int) {
				if d > 6 || v == nil {
					return
				}
				switch x := v.(type) {
				case *ssa.MakeInterface:
					tn := core.TypeName(x.X.Type())
					if tn == "Argument" || tn == "InputObjectField" {
						bad = tn
					}
					walk(x.X, d+1)
				case *ssa.ChangeInterface:
					walk(x.X, d+1)
				case *ssa.Phi:
					for _, e := range x.Edges {
						walk(e, d+1)
					}
				}
			}
			walk(arg, 0)
			key := fmt.Sprintf("%s->astFromValue#%d", fnKey(fn), n)
			okCls, _ := core.OnlyClasses(arg, "field:Argument.Type", "field:InputObjectField.Type")
			r.Check(bad == "" && okCls, key, ci.Pos(), "the declared Type of the argument / input field is passed",
				"astFromValue is given "+bad+" "+fmt.Sprint(core.Classes(arg))+" as the type: the pseudo-type is none of the input kinds, so list / enum / non-null / input-object defaults are printed with Go formatting")
		}
	}
	if n == 0 {
		r.Unknown("astFromValue/callers", afv.Pos(), "no external caller of astFromValue found")
	}
}

func c10Rebuild(c *core.Ctx, r *core.Reporter) {
	for _, spec := range []struct{ fn, field string }{
		{"Schema.AddImplementation", "implementations"},
		{"Schema.buildPossibleTypeMap", "possibleTypeMap"},
	} {
		fn := c.Func("", spec.fn)
		if fn == nil {
			r.Unknown(spec.fn, token.NoPos, "not found")
			continue
		}
		// the table written in the loops must be a fresh map created unconditionally in this call:
		// either a local make that is stored into the field, or a store of a fresh map dominating all updates
		var freshStore *ssa.Store
		var updates []*ssa.MapUpdate
		c.RegionInstrs(fn, func(in ssa.Instruction) { // the refill loop may live in a helper extracted from fn
			switch x := in.(type) {
			case *ssa.Store:
				if f := core.FieldOf(x.Addr); f != nil && core.N(f) == spec.field {
					if _, ok := x.Val.(*ssa.MakeMap); ok {
						freshStore = x
					}
				}
			case *ssa.MapUpdate:
				for _, cl := range core.Classes(x.Map) {
					if cl == "field:Schema."+spec.field || cl == "make" {
						if m, ok := x.Map.Type().Underlying().(*types.Map); ok {
							if _, isSlice := m.Elem().Underlying().(*types.Slice); isSlice || spec.field == "possibleTypeMap" {
								updates = append(updates, x)
							}
						}
					}
				}
			}
		})
		ok := freshStore != nil
		if ok {
			// unconditional: the store's block dominates every update, and is not guarded by a nil test of the field
			for _, u := range updates {
				at := c.Anchor(fn, u)
				if (at == nil || !core.InstrDominates(freshStore, at)) && !core.HasClass(u.Map, "make") {
					ok = false
				}
			}
			if len(freshStore.Block().Preds) == 1 {
				p := freshStore.Block().Preds[0]
				if iff, isIf := p.Instrs[len(p.Instrs)-1].(*ssa.If); isIf {
					if bo, isBo := iff.Cond.(*ssa.BinOp); isBo && core.IsNilConst(bo.Y) && core.HasClass(bo.X, "field:Schema."+spec.field) {
						ok = false // `if table == nil { table = make }` keeps the old contents
					}
				}
			}
		}
		r.Check(ok && len(updates) > 0, spec.fn+"/"+spec.field, fn.Pos(),
			"the table is replaced by an empty map before it is refilled from the whole type map",
			spec.fn+" re-scans the whole type map but does not start from an empty "+spec.field+" table: every run (each AppendType) lists each member once more, so possible types are reported several times")
	}
}

func c10TypeName(c *core.Ctx, r *core.Reporter) {
	p := c.Pkg("")
	info := p.TypesInfo
	ok, found := false, false
	var at token.Pos
	for _, f := range p.Syntax {
		ast.Inspect(f, func(x ast.Node) bool {
			as, isAs := x.(*ast.AssignStmt)
			if !isAs || len(as.Lhs) != 1 || len(as.Rhs) != 1 {
				return true
			}
			id, isId := as.Lhs[0].(*ast.Ident)
			if !isId || id.Name != "TypeNameMetaFieldDef" {
				return true
			}
			found = true
			at = as.Pos()
			ast.Inspect(as.Rhs[0], func(y ast.Node) bool {
				ret, isRet := y.(*ast.ReturnStmt)
				if !isRet || len(ret.Results) != 2 {
					return true
				}
				if call, isCall := ret.Results[0].(*ast.CallExpr); isCall {
					if se, isSel := call.Fun.(*ast.SelectorExpr); isSel && se.Sel.Name == "Name" && core.FieldSel(info, se.X, "ResolveInfo", "ParentType") {
						ok = true
					}
				}
				return true
			})
			return true
		})
	}
	if !found {
		r.Unknown("__typename", token.NoPos, "TypeNameMetaFieldDef not found")
		return
	}
	r.Check(ok, "__typename/resolver", at, "__typename resolves to Info.ParentType.Name()", "__typename no longer returns the name of Info.ParentType (the runtime object type)")
}

func init() {
	register(&core.Rule{Name: "C10/PAIR-append", Props: []string{"C10", "C11"}, Min: 1,
		Doc: "every successful exit of Schema.AppendType passes through the rebuild and re-check of the implementation tables", Run: c10Append})
}

// c10Append: AppendType pulls types in transitively (typeMapReducer), so an appended union, list or interface can bring
// in a new object that implements an interface already in the schema. The implementation / possible-type tables and
// the implements-check are only brought up to date by AddImplementation; an exit of AppendType that reports success
// without having gone through it leaves a schema that differs from the one NewSchema would have built up front.
func c10Append(c *core.Ctx, r *core.Reporter) {
	fn := c.Func("", "Schema.AppendType")
	add := c.Func("", "Schema.AddImplementation")
	if fn == nil || add == nil {
		r.Unknown("Schema.AppendType/rebuild", token.NoPos, "AppendType or AddImplementation not found")
		return
	}
	cut := map[*ssa.BasicBlock]bool{}
	for _, s := range core.CallsTo(fn, add, false) {
		cut[s.Block()] = true
	}
	if len(cut) == 0 {
		r.Bad("Schema.AppendType/rebuild", fn.Pos(), "AppendType never calls AddImplementation: interfaces of appended types get no possible types and are not checked")
		return
	}
	reach := core.ReachableAvoiding(fn.Blocks[0], cut)
	var bad *ssa.Return
	for _, ret := range core.Returns(fn) {
		if !reach[ret.Block()] || cut[ret.Block()] || len(ret.Results) != 1 {
			continue
		}
		// an exit that skips the rebuild is fine only if it reports the error that made it stop
		if core.IsNilConst(core.RetVal(ret, 0)) {
			bad = ret
		}
	}
	if bad != nil {
		r.Bad("Schema.AppendType/rebuild", bad.Pos(), "AppendType has an exit that returns nil without having called AddImplementation: the appended type may have pulled in (through a union member, a list element, a field type) an object that implements an existing interface, and that object is then missing from the interface's possible types and is never checked against it — the schema differs from the one built with the same types up front")
	} else {
		r.OK("Schema.AppendType/rebuild", fn.Pos(), "every exit that reports success goes through AddImplementation")
	}
}

package rules

import (
	"fmt"
	"go/ast"
	"go/constant"
	"go/token"
	"go/types"
	"sort"
	"strings"

	"golang.org/x/tools/go/ssa"

	"verif/gqlvet/core"
)

// Rules added after the second round of independently seeded changes (DESIGN.md section 8.2). As in the first round each
// rule states a structural necessary condition of a clause of a property and quantifies over every site of its kind.

func init() {
	register(&core.Rule{Name: "C01/FLOW-bothdirs", Props: []string{"C01"}, Min: 1,
		Doc: "when a selection carries both a variable @skip and a variable @include, evaluating one can be followed by evaluating the other", Run: r2BothDirs})
	register(&core.Rule{Name: "C03/EXH-ascii", Props: []string{"C03", "C08"}, Min: 1,
		Doc: "the lexer and parser classify characters by explicit code points, never by Unicode category", Run: r2Ascii})
	register(&core.Rule{Name: "C05/FLOW-listlen", Props: []string{"C05"}, Min: 2,
		Doc: "list coercion appends the coerced element unconditionally: the result has one element per input element", Run: r2ListLen})
	register(&core.Rule{Name: "C07/PAIR-once", Props: []string{"C07"}, Min: 2,
		Doc: "state that is filled under a sync.Once is read only after that Once has been passed", Run: r2Once})
	register(&core.Rule{Name: "C07/OWN-reslice", Props: []string{"C07", "C10", "C12"}, Min: 1,
		Doc: "no in-place filter (x[:0] then append) on a slice the function did not allocate itself", Run: r2Reslice})
	register(&core.Rule{Name: "C08/FLOW-format", Props: []string{"C08"}, Min: 1,
		Doc: "printed text never becomes part of a format string", Run: r2Format})
	register(&core.Rule{Name: "C11/PAIR-parked", Props: []string{"C11"}, Min: 8,
		Doc: "after an error has been parked on a type the construction function leaves: no path on which a later check overwrites it", Run: r2Parked})
	register(&core.Rule{Name: "C12/OWN-errors", Props: []string{"C12", "C18"}, Min: 1,
		Doc: "the library never writes into an error value it was handed", Run: r2ErrWrites})
	register(&core.Rule{Name: "C14/DOM-skipenter", Props: []string{"C14"}, Min: 1,
		Doc: "a skip verdict shortens the path only while entering a node", Run: r2SkipEnter})
	register(&core.Rule{Name: "C15/PAIR-visited", Props: []string{"C15", "C01"}, Min: 1,
		Doc: "the run-time collector marks a fragment as visited only after the spread's own @skip/@include let it through", Run: r2CollectVisited})
	register(&core.Rule{Name: "C17/FLOW-live", Props: []string{"C17", "C06"}, Min: 1,
		Doc: "no plan keeps a snapshot of the schema's extension list: whether hooks run is decided on the live schema", Run: r2Live})
	register(&core.Rule{Name: "C18/FLOW-errpath", Props: []string{"C18"}, Min: 1,
		Doc: "the path of a located error is the path of the frame that caught it", Run: r2ErrPath})
	register(&core.Rule{Name: "C18/FLOW-lookahead", Props: []string{"C18", "C03"}, Min: 1,
		Doc: "after a lookahead a syntax error cites the token that was looked at, not the current token", Run: r2Lookahead})
	register(&core.Rule{Name: "C09/FLOW-data", Props: []string{"C09"}, Min: 1,
		Doc: "executing a selection always yields a (possibly empty) map: data is absent only together with an error", Run: r2Data})
}

// ---------------------------------------------------------------------------------------------------------------------

// directiveOfArgs: v is <SkipDirective|IncludeDirective>.Args — returns the global's name.
func directiveOfArgs(v ssa.Value) string {
	u, ok := v.(*ssa.UnOp)
	if !ok || u.Op != token.MUL {
		return ""
	}
	fa, ok := u.X.(*ssa.FieldAddr)
	if !ok {
		return ""
	}
	base, ok := fa.X.(*ssa.UnOp)
	if !ok {
		return ""
	}
	if g, ok := base.X.(*ssa.Global); ok {
		return g.Name()
	}
	return ""
}

// r2BothDirs: a selection is included iff @skip does not exclude it AND @include does not exclude it. In the predicate
// planDirectives builds for variable-driven directives both are evaluated with getArgumentValues; if neither evaluation
// can be followed by the other (a switch that picks one), a selection with both directives is decided by one of them.
func r2BothDirs(c *core.Ctx, r *core.Reporter) {
	pd := c.Func("", "planDirectives")
	gav := c.Func("", "getArgumentValues")
	if pd == nil || gav == nil {
		r.Unknown("planDirectives/run-time-predicate", token.NoPos, "planDirectives / getArgumentValues not found")
		return
	}
	n := 0
	for _, g := range c.Region(pd) {
		var skip, incl []ssa.CallInstruction
		for _, site := range core.CallsTo(g, gav, false) {
			switch directiveOfArgs(site.Common().Args[0]) {
			case "SkipDirective":
				skip = append(skip, site)
			case "IncludeDirective":
				incl = append(incl, site)
			}
		}
		if len(skip) == 0 || len(incl) == 0 {
			continue
		}
		n++
		key := "planDirectives/both-evaluated"
		if n > 1 {
			key = fmt.Sprintf("%s#%d", key, n)
		}
		ok := false
		for _, s := range skip {
			for _, i := range incl {
				if s.Block() == i.Block() || core.Reachable(s.Block())[i.Block()] || core.Reachable(i.Block())[s.Block()] {
					ok = true
				}
			}
		}
		r.Check(ok, key, skip[0].Pos(), "the evaluation of one directive can be followed by the evaluation of the other",
			"where both @skip and @include are evaluated for a selection, neither evaluation can be followed by the other (they are alternatives of one switch): a selection that carries both is decided by one of them alone, so `@skip(if:$s) @include(if:$i)` with s=false, i=false is included")
	}
	if n == 0 {
		// the table-driven spelling: one evaluation inside a loop over the directives found on the selection
		for _, g := range c.Region(pd) {
			for _, site := range core.CallsTo(g, gav, false) {
				if directiveOfArgs(site.Common().Args[0]) == "" && core.InAnyLoop(site.Block()) {
					n++
					r.OK("planDirectives/both-evaluated", site.Pos(), "the directives of a selection are evaluated in a loop, one after the other")
				}
			}
		}
	}
	if n == 0 {
		r.Unknown("planDirectives/both-evaluated", pd.Pos(), "no function evaluates both directives (anchor moved)")
	}
}

// r2Ascii: Ignored tokens, names, digits and block-string indentation are defined by explicit code points (space, tab,
// [_A-Za-z0-9]); the predicates of package unicode accept far more (U+3000 is a space, Arabic-Indic digits are digits).
func r2Ascii(c *core.Ctx, r *core.Reporter) {
	bad := ""
	var pos token.Pos
	n := 0
	for _, rel := range []string{"language/lexer", "language/parser"} {
		for _, fn := range c.LibFuncs() {
			if !c.IsLibPkgFn(fn, rel) {
				continue
			}
			n++
			for _, ci := range core.CallSites(fn) {
				cal := ci.Common().StaticCallee()
				if cal == nil || cal.Pkg == nil {
					continue
				}
				switch cal.Pkg.Pkg.Path() {
				case "unicode":
					if strings.HasPrefix(cal.Name(), "Is") || cal.Name() == "In" {
						bad = fmt.Sprintf("%s calls unicode.%s", fnKey(fn), cal.Name())
						pos = ci.Pos()
					}
				case "strconv":
					// the numeric parsers of strconv accept signs, underscores and base prefixes the grammar does not have
					if strings.HasPrefix(cal.Name(), "Parse") || cal.Name() == "Atoi" {
						bad = fmt.Sprintf("%s calls strconv.%s (accepts a sign and other spellings the grammar's digit sequences do not have)", fnKey(fn), cal.Name())
						pos = ci.Pos()
					}
				case "strings", "bytes":
					// the helpers whose notion of white space is unicode.IsSpace
					switch cal.Name() {
					case "TrimSpace", "Fields":
						bad = fmt.Sprintf("%s calls %s.%s (white space as defined by Unicode)", fnKey(fn), cal.Pkg.Pkg.Path(), cal.Name())
						pos = ci.Pos()
					}
				}
			}
		}
	}
	if n == 0 {
		r.Unknown("lexer/character-classes", token.NoPos, "no lexer / parser functions found")
		return
	}
	r.Check(bad == "", "lexer/character-classes", pos, "characters are classified by explicit code points only",
		bad+": the grammar's character classes are ASCII sets (WhiteSpace is tab and space, Name is [_A-Za-z][_0-9A-Za-z]*); a Unicode category accepts other code points, which are counted in runes but cut in bytes, or accepted where the grammar rejects them")
}

// r2ListLen: the List arms of coerceValue and valueFromAST build the result by appending the coerced element of every
// input element. If the coerced element is inspected before it is appended (dropped when nullish, say) the list gets
// shorter and positions shift — only on the path that does it, so literals and variables disagree.
func r2ListLen(c *core.Ctx, r *core.Reporter) {
	for _, name := range []string{"coerceValue", "valueFromAST"} {
		fn := c.Func("", name)
		if fn == nil {
			r.Unknown(name+"/List/element-appended", token.NoPos, "not found")
			continue
		}
		n, bad := 0, ""
		var pos token.Pos
		for _, g := range c.Region(fn) {
			for _, site := range core.CallsTo(g, fn, false) {
				call, ok := site.(*ssa.Call)
				if !ok || !core.InAnyLoop(call.Block()) {
					continue
				}
				// the recursive call on the list's element type inside the element loop
				isElem := false
				for _, a := range call.Call.Args {
					if core.HasClass(a, "field:List.OfType") {
						isElem = true
					}
				}
				if !isElem {
					continue
				}
				n++
				pos = call.Pos()
				for _, ref := range *call.Referrers() {
					switch x := ref.(type) {
					case *ssa.Store:
						// the variadic slot of append(values, elem)
						if _, ok := x.Addr.(*ssa.IndexAddr); !ok {
							bad = "stored elsewhere than into the append"
						}
					case *ssa.Call:
						if b, ok := x.Call.Value.(*ssa.Builtin); !ok || b.Name() != "append" {
							bad = "passed to " + x.Call.Value.Name() + " before being appended"
						}
					case *ssa.DebugRef:
					default:
						bad = fmt.Sprintf("used by %T before being appended", ref)
					}
				}
			}
		}
		if n == 0 {
			r.Unknown(name+"/List/element-appended", fn.Pos(), "element-wise recursion of the List arm not found")
			continue
		}
		r.Check(bad == "", name+"/List/element-appended", pos, "each coerced element goes straight into the result list",
			name+": the coerced element of a list is "+bad+": elements can be dropped, so the coerced list is shorter than the input and later elements change position — `[1, $x, 3]` with $x unset reaches the resolver as [1, 3] while the same list through a variable keeps its null")
	}
}

// r2Once: a field assigned (or a map filled) inside the function literal given to once.Do is complete only when Do has
// returned. A reader that looks at the field before passing the Once (a "fast path" on len(map) > 0) can see it half
// built, concurrently with the writer.
func r2Once(c *core.Ctx, r *core.Reporter) {
	type guarded struct {
		owner *types.Named
		field *types.Var
		once  *ssa.Function // the function literal
		via   *ssa.Function // the function that calls once.Do
	}
	var gs []guarded
	for _, fn := range c.LibFuncs() {
		if fn.Parent() == nil || !onceGuarded(fn) {
			continue
		}
		seen := map[*types.Var]bool{}
		for _, w := range core.WritesIn(fn) {
			if w.Owner == nil || w.Field == nil || seen[w.Field] {
				continue
			}
			seen[w.Field] = true
			gs = append(gs, guarded{w.Owner, w.Field, fn, fn.Parent()})
		}
	}
	if len(gs) == 0 {
		r.Unknown("once-guarded-state", token.NoPos, "no field written under a sync.Once found")
		return
	}
	for _, g := range gs {
		key := fmt.Sprintf("%s.%s/read-after-once", core.N(g.owner.Obj()), core.N(g.field))
		bad := ""
		var pos token.Pos
		for _, fn := range c.LibFuncs() {
			if fn == g.once || fn.Parent() == g.once {
				continue
			}
			core.Instrs(fn, func(in ssa.Instruction) {
				u, ok := in.(*ssa.UnOp)
				if !ok || u.Op != token.MUL {
					return
				}
				fa, ok := u.X.(*ssa.FieldAddr)
				if !ok || core.FieldOf(fa) != g.field {
					return
				}
				// dominated by a call that passes the Once: the function holding once.Do, or once.Do itself
				okDom := false
				core.Instrs(fn, func(x ssa.Instruction) {
					ci, ok := x.(ssa.CallInstruction)
					if !ok || !core.InstrDominates(x, in) {
						return
					}
					cal := ci.Common().StaticCallee()
					if cal == g.via || (cal != nil && cal.Pkg != nil && cal.Pkg.Pkg.Path() == "sync" && cal.Name() == "Do") {
						okDom = true
					}
				})
				if !okDom && fn != g.via {
					bad = fnKey(fn)
					pos = u.Pos()
				}
			})
		}
		r.Check(bad == "", key, pos, "every read follows a call that passes the Once",
			bad+" reads "+core.N(g.owner.Obj())+"."+core.N(g.field)+", which is filled under a sync.Once, without having passed that Once first: on a cold object a concurrent first use sees the state half built (a fast path on a partly filled map) — wrong look-ups or a fatal concurrent map read and write")
	}
}

// r2Reslice: `kept := xs[:0]; for … { kept = append(kept, x) }` filters in place: it overwrites the backing array of xs.
// That is fine for a slice the function made itself and a defect for one it was handed or got from an accessor: the
// possible-types table of the schema, the value list of an enum.
func r2Reslice(c *core.Ctx, r *core.Reporter) {
	n := 0
	per := map[string]int{}
	for _, fn := range c.LibFuncs() {
		core.Instrs(fn, func(in ssa.Instruction) {
			sl, ok := in.(*ssa.Slice)
			if !ok || sl.High == nil {
				return
			}
			if h, ok := core.ConstInt(sl.High); !ok || h != 0 {
				return
			}
			if _, isSlice := sl.X.Type().Underlying().(*types.Slice); !isSlice {
				return
			}
			// used as the base of an append?
			appended := false
			var walk func(v ssa.Value, depth int)
			walk = func(v ssa.Value, depth int) {
				if depth > 3 || v.Referrers() == nil {
					return
				}
				for _, ref := range *v.Referrers() {
					switch x := ref.(type) {
					case *ssa.Call:
						if b, ok := x.Call.Value.(*ssa.Builtin); ok && b.Name() == "append" && len(x.Call.Args) > 0 && x.Call.Args[0] == v {
							appended = true
						}
					case *ssa.Phi:
						walk(x, depth+1)
					case *ssa.Store:
						if al, ok := x.Addr.(*ssa.Alloc); ok {
							for _, ar := range *al.Referrers() {
								if u, ok := ar.(*ssa.UnOp); ok {
									walk(u, depth+1)
								}
							}
						}
					}
				}
			}
			walk(sl, 0)
			if !appended {
				return
			}
			n++
			name := fnKey(fn)
			per[name]++
			key := fmt.Sprintf("%s/in-place-filter#%d", name, per[name])
			own, others := core.OnlyClasses(sl.X, "make", "alloc:*", "builtin:append", "nil", "const")
			if own {
				r.OK(key, sl.Pos(), "the slice being filtered in place was made by the function itself")
			} else {
				r.Bad(key, sl.Pos(), "%s filters a slice in place (x[:0] followed by append) that it did not allocate (%s): the elements are overwritten in the owner's backing array — the schema's possible-type table or an enum's value list is corrupted for every later request, and concurrent requests race on it", name, core.Join(others))
			}
		})
	}
	if n == 0 {
		r.OK("in-place-filters", token.NoPos, "no x[:0]-then-append filter anywhere in the library")
	}
}

// r2Format: the printer assembles text with fmt.Sprintf; a format string must be a constant. If already printed text
// (a name, a default value, a description) is concatenated into the format, every % in it is interpreted.
func r2Format(c *core.Ctx, r *core.Reporter) {
	p := c.Pkg("language/printer")
	if p == nil {
		r.Unknown("printer/format-strings", token.NoPos, "package not loaded")
		return
	}
	info := p.TypesInfo
	n, bad := 0, 0
	for _, f := range p.Syntax {
		ast.Inspect(f, func(x ast.Node) bool {
			call, ok := x.(*ast.CallExpr)
			if !ok {
				return true
			}
			fo := core.CalleeObj(info, call)
			if fo == nil || fo.Pkg() == nil || fo.Pkg().Path() != "fmt" {
				return true
			}
			idx := -1
			switch fo.Name() {
			case "Sprintf", "Errorf", "Printf":
				idx = 0
			case "Fprintf":
				idx = 1
			}
			if idx < 0 || idx >= len(call.Args) {
				return true
			}
			n++
			if tv, ok := info.Types[call.Args[idx]]; !ok || tv.Value == nil || tv.Value.Kind() != constant.String {
				bad++
				r.Bad(fmt.Sprintf("printer/format#%d", bad), call.Pos(), "a %s call in the printer builds its format string from printed text (%s): a %% inside a name, default value or description is interpreted as a verb, so the printed document is garbage or silently different", fo.Name(), core.ExprString(call.Args[idx]))
			}
			return true
		})
	}
	if bad == 0 {
		r.OK("printer/format-strings", token.NoPos, "all %d fmt format strings of the printer are constants", n)
	}
	if n < 10 {
		r.Unknown("printer/format-strings", token.NoPos, "only %d fmt format calls found in the printer (anchor moved)", n)
	}
}

// r2Parked: the constructors park a validation error on the type (`t.err = invariantf(…); if t.err != nil { return }`).
// Every later check assigns t.err again (nil when it passes), so a path that goes on after a failed check (a `continue`
// instead of the `return`) loses the error unless the failing element happens to be checked last.
func r2Parked(c *core.Ctx, r *core.Reporter) {
	per := map[string]int{}
	for _, fn := range c.LibFuncs() {
		if !c.IsLibPkgFn(fn, "") {
			continue
		}
		// stores of a check's result into an err field of a schema type
		var stores []*ssa.Store
		core.Instrs(fn, func(in ssa.Instruction) {
			st, ok := in.(*ssa.Store)
			if !ok {
				return
			}
			fa, ok := st.Addr.(*ssa.FieldAddr)
			if !ok {
				return
			}
			f := core.FieldOf(fa)
			if f == nil || core.N(f) != "err" || !schemaDomain[core.TypeName(fa.X.Type())] {
				return
			}
			if call, ok := st.Val.(*ssa.Call); ok && call.Call.StaticCallee() != nil && strings.HasPrefix(call.Call.StaticCallee().Name(), "invariant") {
				stores = append(stores, st)
			}
		})
		for _, st := range stores {
			// the test of the parked error that ends the block of the store
			blk := st.Block()
			iff, ok := blk.Instrs[len(blk.Instrs)-1].(*ssa.If)
			if !ok {
				continue
			}
			bo, ok := iff.Cond.(*ssa.BinOp)
			if !ok || bo.Op != token.NEQ || !core.IsNilConst(bo.Y) {
				continue
			}
			name := fnKey(fn)
			per[name]++
			key := fmt.Sprintf("%s/parked-error#%d", name, per[name])
			fld := core.FieldOf(st.Addr)
			overwritten := false
			for b := range core.Reachable(iff.Block().Succs[0]) {
				for _, in := range b.Instrs {
					if st2, ok := in.(*ssa.Store); ok {
						if f2 := core.FieldOf(st2.Addr); f2 == fld {
							overwritten = true
						}
					}
				}
			}
			r.Check(!overwritten, key, st.Pos(), "the failing branch leaves the function: nothing assigns the error field again",
				name+" goes on after a failed check whose error it has just parked on the type: a later check of the same loop assigns the error field again (nil when it passes), so the error is lost — the malformed member is silently left out and NewSchema reports nothing")
		}
	}
}

// r2ErrWrites: errors returned by resolvers are the user's values (a shared sentinel error is a common idiom). Locating
// an error must build a new value; a store into the one handed in makes the first request's path stick to it.
func r2ErrWrites(c *core.Ctx, r *core.Reporter) {
	n, bad := 0, 0
	for _, fn := range c.LibFuncs() {
		for _, w := range core.WritesIn(fn) {
			if w.Owner == nil || w.Owner.Obj().Pkg() == nil || w.Owner.Obj().Pkg().Name() != "gqlerrors" {
				continue
			}
			if tn := core.N(w.Owner.Obj()); tn != "Error" && tn != "FormattedError" {
				continue
			}
			n++
			if !w.Fresh {
				bad++
				r.Bad(fmt.Sprintf("%s/%s.%s#%d", fnKey(fn), core.N(w.Owner.Obj()), core.N(w.Field), bad), w.In.Pos(),
					"%s stores into field %s of an error value it did not create: an error a resolver returns from several places (a package-level sentinel) keeps the path or location of the first request that raised it, so the same request gives different errors depending on what ran before, and concurrent requests race on it", fnKey(fn), core.N(w.Field))
			}
		}
	}
	if bad == 0 {
		r.OK("error-values/no-foreign-writes", token.NoPos, "%d stores into error values, all into values the storing function allocated", n)
	}
}

// r2SkipEnter: in Visit a callback's skip verdict removes the node's key from the path and goes on with the next
// sibling — meaningful only while entering. On leave the key has been popped already; popping again shortens the path of
// every later event.
func r2SkipEnter(c *core.Ctx, r *core.Reporter) {
	visit := c.Func("language/visitor", "Visit")
	gvf := c.Func("language/visitor", "GetVisitFn")
	if visit == nil || gvf == nil {
		r.Unknown("Visit/skip-only-on-enter", token.NoPos, "Visit / GetVisitFn not found")
		return
	}
	// isLeaving: the flag Visit hands to GetVisitFn
	var leaving ssa.Value
	for _, site := range c.RegionCallsTo(visit, gvf) {
		if i, ok := c.ArgIndex(gvf, 2); ok && i < len(site.Common().Args) {
			leaving = site.Common().Args[i]
		}
	}
	if leaving == nil {
		r.Unknown("Visit/skip-only-on-enter", visit.Pos(), "the call of GetVisitFn (which receives the leaving flag) not found")
		return
	}
	n, okAll := 0, true
	var pos token.Pos
	core.Instrs(visit, func(in ssa.Instruction) {
		iff, ok := in.(*ssa.If)
		if !ok {
			return
		}
		bo, ok := iff.Cond.(*ssa.BinOp)
		if !ok || bo.Op != token.EQL {
			return
		}
		k, isConst := core.ConstString(bo.Y)
		if !isConst {
			k, isConst = core.ConstString(bo.X)
		}
		if !isConst || k != "SKIP" {
			return
		}
		// path-shortening calls / re-slices reached from the skip arm before the next comparison
		arm := iff.Block().Succs[0]
		for b := range core.ReachableAvoiding(arm, map[*ssa.BasicBlock]bool{iff.Block().Succs[1]: true}) {
			if !arm.Dominates(b) {
				continue
			}
			for _, x := range b.Instrs {
				call, ok := x.(*ssa.Call)
				if !ok || call.Call.StaticCallee() == nil || !strings.HasPrefix(core.N(call.Call.StaticCallee()), "pop") {
					continue
				}
				n++
				pos = call.Pos()
				// dominated by the not-leaving side of a test of the flag
				guarded := false
				core.Instrs(visit, func(y ssa.Instruction) {
					g, ok := y.(*ssa.If)
					if !ok {
						return
					}
					if g.Cond == leaving && g.Block().Succs[1].Dominates(b) && arm.Dominates(g.Block()) {
						guarded = true
					}
					if u, ok := g.Cond.(*ssa.UnOp); ok && u.Op == token.NOT && u.X == leaving && g.Block().Succs[0].Dominates(b) && arm.Dominates(g.Block()) {
						guarded = true
					}
				})
				if !guarded {
					okAll = false
				}
			}
		}
	})
	if n == 0 {
		r.Unknown("Visit/skip-only-on-enter", visit.Pos(), "no path pop in the skip arm of Visit found")
		return
	}
	r.Check(okAll, "Visit/skip-only-on-enter", pos, "the skip arm pops the path only under `not leaving`",
		"Visit pops the path for a skip verdict also while leaving a node (the key was popped already): after a leave-phase skip every later Path is one element short and enclosing leaves get the wrong key; on the root node it dereferences nil")
}

// r2CollectVisited: collectFields (the run-time collector, still used for subscription roots) must not mark a fragment
// as visited when the spread is switched off by @skip/@include: a later live spread of the same fragment is then cut.
func r2CollectVisited(c *core.Ctx, r *core.Reporter) {
	fn := c.Func("", "collectFields")
	sin := c.Func("", "shouldIncludeNode")
	if fn == nil || sin == nil {
		r.Unknown("collectFields/FragmentSpread/visited-mark", token.NoPos, "collectFields / shouldIncludeNode not found")
		return
	}
	n := 0
	for _, g := range c.Region(fn) {
		core.Instrs(g, func(in ssa.Instruction) {
			mu, ok := in.(*ssa.MapUpdate)
			if !ok {
				return
			}
			m, ok := mu.Map.Type().Underlying().(*types.Map)
			if !ok {
				return
			}
			if b, ok := m.Elem().Underlying().(*types.Basic); !ok || b.Kind() != types.Bool {
				return
			}
			n++
			// dominated by the include side of a shouldIncludeNode call whose argument is the spread's directives
			okDom := false
			for _, site := range core.CallsTo(g, sin, false) {
				call, isCall := site.(*ssa.Call)
				if !isCall || len(call.Call.Args) < 2 || !core.HasClass(call.Call.Args[1], "field:FragmentSpread.Directives") {
					continue
				}
				if included(call, mu.Block()) {
					okDom = true
				}
			}
			r.Check(okDom, "collectFields/FragmentSpread/visited-mark", mu.Pos(), "the mark is written only after the spread's directives let it through",
				"collectFields marks a fragment as visited before (or regardless of) the spread's own @skip/@include: `...F @skip(if:true) ...F` then never collects F, a subscription whose root field is reached that way delivers an index-out-of-range error instead of its events")
		})
	}
	if n == 0 {
		r.Unknown("collectFields/FragmentSpread/visited-mark", fn.Pos(), "no visited mark found in collectFields")
	}
}

// included: block b executes only if the boolean call returned true (through `!`, `||` short-circuits and phis).
func included(call *ssa.Call, b *ssa.BasicBlock) bool {
	// blocks from which b is unreachable when the call returned false: approximated by — every If that tests the call's
	// result (directly or negated) has b on its "true" side only
	ok := false
	var visit func(v ssa.Value, neg bool, depth int)
	visit = func(v ssa.Value, neg bool, depth int) {
		if depth > 4 || v.Referrers() == nil {
			return
		}
		for _, ref := range *v.Referrers() {
			switch x := ref.(type) {
			case *ssa.UnOp:
				if x.Op == token.NOT {
					visit(x, !neg, depth+1)
				}
			case *ssa.Phi:
				visit(x, neg, depth+1)
			case *ssa.If:
				yes, no := x.Block().Succs[0], x.Block().Succs[1]
				if neg {
					yes, no = no, yes
				}
				_ = no
				if yes != x.Block() && yes.Dominates(b) {
					ok = true
				}
			}
		}
	}
	visit(call, false, 0)
	return ok
}

// r2Live: extensions can be added to a schema after plans exist (Schema.AddExtensions; cached plans outlive it). Whether
// the per-field hooks run must be read from the schema at execution time; a flag frozen into the plan makes a plan built
// earlier run without its resolve notifications while the execution hooks (read live) still fire.
func r2Live(c *core.Ctx, r *core.Reporter) {
	n, bad := 0, ""
	var pos token.Pos
	dependsOnExtensions := func(v ssa.Value) bool {
		seen := map[ssa.Value]bool{}
		found := false
		var walk func(v ssa.Value, depth int)
		walk = func(v ssa.Value, depth int) {
			if v == nil || seen[v] || depth > 8 {
				return
			}
			seen[v] = true
			if u, ok := v.(*ssa.UnOp); ok && u.Op == token.MUL {
				if f := core.FieldOf(u.X); f != nil && core.N(f) == "extensions" {
					found = true
				}
			}
			if in, ok := v.(ssa.Instruction); ok {
				for _, op := range in.Operands(nil) {
					if *op != nil {
						walk(*op, depth+1)
					}
				}
			}
		}
		walk(v, 0)
		return found
	}
	for _, fn := range c.LibFuncs() {
		for _, w := range core.WritesIn(fn) {
			if w.Owner == nil || !planDomain[core.N(w.Owner.Obj())] {
				continue
			}
			st, ok := w.In.(*ssa.Store)
			if !ok {
				continue
			}
			n++
			if dependsOnExtensions(st.Val) {
				bad = fmt.Sprintf("%s stores into %s.%s a value computed from Schema.extensions", fnKey(fn), core.N(w.Owner.Obj()), core.N(w.Field))
				pos = st.Pos()
			}
		}
	}
	if n == 0 {
		r.Unknown("plan/no-extension-snapshot", token.NoPos, "no stores into plan types found")
		return
	}
	r.Check(bad == "", "plan/no-extension-snapshot", pos, "nothing derived from the schema's extension list is kept in a plan",
		bad+": the plan (held by the caller or cached) keeps a snapshot of a list that Schema.AddExtensions changes later, so a plan built before an extension was added executes its fields without the extension's resolve notifications")
}

// r2ErrPath: newLocatedError gives the error the path of the frame that caught it. A path taken from the error value
// itself (an already formatted error relayed from another execution) points into a different response.
func r2ErrPath(c *core.Ctx, r *core.Reporter) {
	// the functions that locate an error: those of the root package that build a gqlerrors error with a path
	n, okAll := 0, true
	var pos token.Pos
	for _, g := range c.LibFuncs() {
		if !c.IsLibPkgFn(g, "") || !strings.Contains(fnKey(g), "ocatedError") {
			continue
		}
		for _, ci := range core.CallSites(g) {
			cal := ci.Common().StaticCallee()
			if cal == nil || cal.Pkg == nil || cal.Pkg.Pkg.Name() != "gqlerrors" || !strings.Contains(cal.Name(), "WithPath") {
				continue
			}
			for _, a := range ci.Common().Args {
				sl, ok := a.Type().Underlying().(*types.Slice)
				if !ok {
					continue
				}
				if it, ok := sl.Elem().Underlying().(*types.Interface); !ok || it.NumMethods() != 0 {
					continue // the path is a []interface{}
				}
				n++
				pos = ci.Pos()
				if ok, _ := core.OnlyClasses(a, "param:[]interface{}", "param:[]any", "nil"); !ok {
					okAll = false
				}
			}
		}
	}
	if n == 0 {
		r.Unknown("newLocatedError/path", token.NoPos, "no located-error construction with a path found")
		return
	}
	r.Check(okAll, "newLocatedError/path", pos, "the located error's path is the path parameter and nothing else",
		"newLocatedError can take the path of the located error from somewhere else than its path parameter (from the error value being located): an error relayed from another execution is reported at a path that does not exist in this response, with no null along it")
}

// r2Lookahead: a definition may start with a description; the parser then looks one token ahead to find the keyword.
// If that token cannot start a definition, it is the offending token — `unexpected(parser, lexer.Token{})` cites the
// current token instead, which is the (valid) description string.
func r2Lookahead(c *core.Ctx, r *core.Reporter) {
	la := c.Func("language/parser", "lookahead")
	un := c.Func("language/parser", "unexpected")
	if la == nil || un == nil {
		r.Unknown("parser/lookahead-errors", token.NoPos, "lookahead / unexpected not found")
		return
	}
	n := 0
	for _, fn := range c.LibFuncs() {
		if !c.IsLibPkgFn(fn, "language/parser") || fn == la {
			continue
		}
		looks := core.CallsTo(fn, la, false)
		if len(looks) == 0 {
			continue
		}
		for _, site := range core.CallsTo(fn, un, false) {
			reachable := false
			for _, l := range looks {
				if l.Block() == site.Block() || core.Reachable(l.Block())[site.Block()] {
					reachable = true
				}
			}
			if !reachable || len(site.Common().Args) < 2 {
				continue
			}
			n++
			key := fmt.Sprintf("%s/unexpected#%d", fnKey(fn), n)
			r.Check(core.HasClass(site.Common().Args[1], "call:parser.lookahead") || core.HasClass(site.Common().Args[1], "call:lookahead"), key, site.Pos(),
				"the error cites the token obtained by the lookahead",
				fnKey(fn)+" looks ahead past a description and then reports `unexpected` for a token that does not come from the lookahead (the zero token, i.e. the current one): the syntax error is located at the description, which is a valid beginning, instead of at the token the document cannot continue with")
		}
	}
	if n == 0 {
		r.Unknown("parser/lookahead-errors", la.Pos(), "no unexpected() call after a lookahead found")
	}
}

// r2Data: executePlannedSelection's result becomes Result.Data. A nil map in that interface serialises as
// {"data":null} with no error next to it.
func r2Data(c *core.Ctx, r *core.Reporter) {
	fn := c.Func("", "executePlannedSelection")
	if fn == nil {
		r.Unknown("executePlannedSelection/non-nil-result", token.NoPos, "not found")
		return
	}
	bad := false
	var pos token.Pos
	for _, ret := range core.Returns(fn) {
		if len(ret.Results) == 1 && core.IsNilConst(core.RetVal(ret, 0)) {
			bad = true
			pos = ret.Pos()
		}
	}
	r.Check(!bad, "executePlannedSelection/non-nil-result", pos, "every exit returns a map",
		"executePlannedSelection has an exit that returns nil: a request whose root selections are all removed by literal @skip/@include gets {\"data\":null} with no error, the one combination the response format excludes")
}

func init() {
	register(&core.Rule{Name: "C02/FLOW-leafconflict", Props: []string{"C02"}, Min: 1,
		Doc: "two response shapes conflict as soon as either of them is a leaf type (unless identical)", Run: r2LeafConflict})
	register(&core.Rule{Name: "C05/DOM-intreturn", Props: []string{"C05"}, Min: 1,
		Doc: "every integer coerceInt hands back has been compared with the 32-bit bounds, is narrower than 32 bits, or comes from coerceInt itself", Run: r2IntReturn})
	register(&core.Rule{Name: "C19/FLOW-memoadd", Props: []string{"C19", "C02", "C09"}, Min: 2,
		Doc: "the comparison memos record exactly the exclusivity flag of the comparison just made", Run: r2MemoAdd})
	register(&core.Rule{Name: "C11/PAIR-implloops", Props: []string{"C11"}, Min: 2,
		Doc: "for every interface field both argument checks (interface arguments present, extra arguments optional) run", Run: r2ImplLoops})
	register(&core.Rule{Name: "C13/DOM-nosort", Props: []string{"C13"}, Min: 1,
		Doc: "the plan's field slices are never handed to a sorting or reordering routine", Run: r2NoSort})
	register(&core.Rule{Name: "C19/REC-loopset", Props: []string{"C19", "C09"}, Min: 1,
		Doc: "a visited set handed to the fragment collector is not created inside a loop over occurrences", Run: r2LoopSet})
	register(&core.Rule{Name: "C04/FLOW-walked", Props: []string{"C04", "C13"}, Min: 4,
		Doc: "what a forced thunk yields is itself walked for nested maps, lists and thunks", Run: r2Walked})
}

// r2LeafConflict: doTypesConflict's last rule: if EITHER type is a leaf the two conflict unless identical. Written with
// `&&`, a scalar and an object under one response key are no conflict (and the sub-selection comparison is skipped since
// one side has none). Structurally: from the true side of each IsLeafType test the identity comparison is reached without
// going through the other IsLeafType test.
func r2LeafConflict(c *core.Ctx, r *core.Reporter) {
	fn := c.Func("", "doTypesConflict")
	leaf := c.Func("", "IsLeafType")
	if fn == nil || leaf == nil {
		r.Unknown("doTypesConflict/leaf-or", token.NoPos, "doTypesConflict / IsLeafType not found")
		return
	}
	sites := core.CallsTo(fn, leaf, false)
	if len(sites) != 2 {
		r.Unknown("doTypesConflict/leaf-or", fn.Pos(), "expected the leaf test of both types, found %d IsLeafType calls", len(sites))
		return
	}
	// the identity comparison of the two parameters
	var cmp *ssa.BinOp
	core.Instrs(fn, func(in ssa.Instruction) {
		if bo, ok := in.(*ssa.BinOp); ok && (bo.Op == token.NEQ || bo.Op == token.EQL) {
			if _, ok := bo.X.(*ssa.Parameter); ok {
				if _, ok := bo.Y.(*ssa.Parameter); ok {
					cmp = bo
				}
			}
		}
	})
	if cmp == nil {
		r.Bad("doTypesConflict/leaf-or", fn.Pos(), "doTypesConflict no longer compares the two leaf types for identity")
		return
	}
	okAll := true
	for i, s := range sites {
		call := s.(*ssa.Call)
		other := sites[1-i].Block()
		reached := false
		for _, ref := range *call.Referrers() {
			iff, ok := ref.(*ssa.If)
			if !ok {
				continue
			}
			t := iff.Block().Succs[0]
			if t == cmp.Block() || core.ReachableAvoiding(t, map[*ssa.BasicBlock]bool{other: true})[cmp.Block()] {
				reached = true
			}
		}
		if !reached {
			okAll = false
		}
	}
	r.Check(okAll, "doTypesConflict/leaf-or", cmp.Pos(), "either type being a leaf leads to the identity comparison",
		"in doTypesConflict one type being a leaf is not enough to reach the identity comparison (the two leaf tests are joined by && instead of ||): a scalar and an object type under the same response key are reported as compatible, and their sub-selections are never compared because one side has none")
}

// r2IntReturn: coerceInt is the single producer of Int values (Serialize, ParseValue and, through it, ParseLiteral). Each
// exit that hands back an integer must have established that it fits 32 bits.
func r2IntReturn(c *core.Ctx, r *core.Reporter) {
	fn := c.Func("", "coerceInt")
	if fn == nil {
		r.Unknown("coerceInt/returns", token.NoPos, "not found")
		return
	}
	narrow := func(t types.Type) bool {
		b, ok := t.Underlying().(*types.Basic)
		if !ok {
			return false
		}
		switch b.Kind() {
		case types.Int8, types.Int16, types.Int32, types.Uint8, types.Uint16, types.Bool:
			return true
		}
		return false
	}
	isBound := func(v ssa.Value) bool {
		k, ok := v.(*ssa.Const)
		if !ok || k.Value == nil {
			return false
		}
		s := k.Value.ExactString()
		return s == "2147483647" || s == "-2147483648" || s == "2147483648" || s == "-2147483649"
	}
	// root of a conversion chain
	root := func(v ssa.Value) ssa.Value {
		for {
			switch x := v.(type) {
			case *ssa.Convert:
				v = x.X
			case *ssa.ChangeType:
				v = x.X
			default:
				return v
			}
		}
	}
	n, bad := 0, 0
	for _, ret := range core.Returns(fn) {
		if len(ret.Results) != 1 {
			continue
		}
		v := core.RetVal(ret, 0)
		mi, ok := v.(*ssa.MakeInterface)
		if !ok {
			continue // nil, or the result of coerceInt itself
		}
		n++
		x := mi.X
		if _, isConst := x.(*ssa.Const); isConst {
			continue
		}
		src := root(x)
		if narrow(src.Type()) {
			continue
		}
		// a comparison of the source (or a conversion of it) with a 32-bit bound dominates the return
		guarded := false
		core.Instrs(fn, func(in ssa.Instruction) {
			bo, ok := in.(*ssa.BinOp)
			if !ok {
				return
			}
			switch bo.Op {
			case token.LSS, token.GTR, token.LEQ, token.GEQ:
			default:
				return
			}
			if (root(bo.X) == src && isBound(bo.Y)) || (root(bo.Y) == src && isBound(bo.X)) {
				if core.InstrDominates(bo, ret) {
					guarded = true
				}
			}
		})
		if !guarded {
			bad++
			r.Bad(fmt.Sprintf("coerceInt/unguarded-return#%d", bad), ret.Pos(), "coerceInt returns an integer (%s) that has not been compared with the 32-bit bounds: a value outside [-2^31, 2^31-1] supplied that way (a decimal string in a variable, say) is accepted as an Int and reaches the resolver, while the same value as a literal or a number is rejected", core.Join(core.Classes(src)))
		}
	}
	if bad == 0 {
		r.OK("coerceInt/returns", fn.Pos(), "%d integer exits: each narrower than 32 bits, constant, or dominated by a comparison with the 32-bit bounds", n)
	}
	if n < 15 {
		r.Unknown("coerceInt/returns", fn.Pos(), "only %d integer exits found in coerceInt (anchor moved)", n)
	}
}

// r2MemoAdd: pairSet.Add / fieldsAndFragmentSet.Add store the flag of the comparison that has just been completed.
// Merging it with what is already there (`old || new`) keeps an entry "exclusive" after the stricter non-exclusive
// comparison has been done, so that comparison is never remembered: fragment DAGs are re-walked per path (2^levels) and
// cycles never terminate.
func r2MemoAdd(c *core.Ctx, r *core.Reporter) {
	for _, name := range []string{"pairSet.Add", "fieldsAndFragmentSet.Add"} {
		fn := c.Func("", name)
		if fn == nil {
			r.Unknown(name+"/stores-flag", token.NoPos, "not found")
			continue
		}
		var flag *ssa.Parameter
		for _, p := range fn.Params {
			if b, ok := p.Type().Underlying().(*types.Basic); ok && b.Kind() == types.Bool {
				flag = p
			}
		}
		n, okAll := 0, flag != nil
		var pos token.Pos
		fns := c.Region(fn)
		for _, site := range core.CallSites(fn) { // a helper that does the actual store, given the flag
			if cal := site.Common().StaticCallee(); cal != nil && c.IsLib(cal) && cal.Blocks != nil {
				passes := false
				for _, a := range site.Common().Args {
					if a == ssa.Value(flag) {
						passes = true
					}
				}
				if passes {
					fns = append(fns, cal)
				}
			}
		}
		for _, g := range fns {
			core.Instrs(g, func(in ssa.Instruction) {
				mu, ok := in.(*ssa.MapUpdate)
				if !ok {
					return
				}
				if b, ok := mu.Value.Type().Underlying().(*types.Basic); !ok || b.Kind() != types.Bool {
					return
				}
				n++
				pos = mu.Pos()
				if ok, _ := core.OnlyClasses(mu.Value, "param:bool"); !ok {
					okAll = false
				}
			})
		}
		if n == 0 {
			r.Unknown(name+"/stores-flag", fn.Pos(), "no boolean store into the memo found")
			continue
		}
		r.Check(okAll, name+"/stores-flag", pos, "the memo entry is the exclusivity flag of the comparison just made",
			name+" stores something else than its exclusivity parameter (the old entry merged in): once a pair has been recorded as compared-while-exclusive the later non-exclusive comparison is never recorded, every later query for it misses, and validation re-walks fragment DAGs once per path or never terminates on a fragment cycle")
	}
}

// r2ImplLoops: assertObjectImplementsInterface checks, per interface field, (1) every interface argument exists on the
// object field with an equal type and (2) every additional object argument is optional. Both are loops; each iteration
// of the outer loop must go through both (a shortcut `continue` for argument-less interface fields skips (2)).
func r2ImplLoops(c *core.Ctx, r *core.Reporter) {
	fn := c.Func("", "assertObjectImplementsInterface")
	if fn == nil {
		r.Unknown("assertObjectImplementsInterface/argument-loops", token.NoPos, "not found")
		return
	}
	loops := core.Loops(fn)
	depth := func(h *ssa.BasicBlock) int {
		d := 0
		for h2, body := range loops {
			if h2 != h && body[h] {
				d++
			}
		}
		return d
	}
	// the loop over the interface's fields: the outermost loop that has loops inside it
	var outer *ssa.BasicBlock
	for h, body := range loops {
		if depth(h) != 0 {
			continue
		}
		for h2 := range loops {
			if h2 != h && body[h2] && (outer == nil || h.Index < outer.Index) {
				outer = h
			}
		}
	}
	if outer == nil {
		r.Unknown("assertObjectImplementsInterface/argument-loops", fn.Pos(), "nested loops over fields and arguments not found")
		return
	}
	// the two argument checks: the loops directly inside it
	inner := map[*ssa.BasicBlock]bool{}
	for h := range loops {
		if h != outer && loops[outer][h] && depth(h) == 1 {
			inner[h] = true
		}
	}
	if len(inner) < 2 {
		r.Bad("assertObjectImplementsInterface/argument-loops", fn.Pos(), "assertObjectImplementsInterface has %d loop(s) over arguments inside the loop over interface fields, expected two (interface arguments implemented; additional arguments optional)", len(inner))
		return
	}
	// from the outer loop's body, the outer header must not be reachable again while avoiding any of the inner headers
	var hs []*ssa.BasicBlock
	for h := range inner {
		hs = append(hs, h)
	}
	sort.Slice(hs, func(a, b int) bool { return hs[a].Index < hs[b].Index })
	i := 0
	for _, h := range hs {
		i++
		avoid := map[*ssa.BasicBlock]bool{h: true}
		skipped := false
		for _, s := range outer.Succs {
			if !loops[outer][s] {
				continue
			}
			for b := range core.ReachableAvoiding(s, avoid) {
				if b == outer {
					skipped = true
				}
			}
		}
		r.Check(!skipped, fmt.Sprintf("assertObjectImplementsInterface/argument-loop#%d", i), h.Instrs[0].Pos(),
			"every iteration over an interface field passes this argument check",
			"assertObjectImplementsInterface has a path that goes to the next interface field without passing one of its two argument checks: an object field that adds a required argument to an argument-less interface field (or misses an interface argument) is accepted")
	}
}

// r2NoSort: the order of selectionPlan.fields is the order of execution of a mutation's top-level fields; sorting or
// partitioning it (unconditional fields first, say) changes that order.
func r2NoSort(c *core.Ctx, r *core.Reporter) {
	bad := ""
	var pos token.Pos
	n := 0
	for _, fn := range c.LibFuncs() {
		for _, ci := range core.CallSites(fn) {
			cal := ci.Common().StaticCallee()
			if cal == nil || cal.Pkg == nil {
				continue
			}
			pth := cal.Pkg.Pkg.Path()
			if pth != "sort" && pth != "slices" {
				continue
			}
			n++
			for _, a := range ci.Common().Args {
				for _, k := range core.Classes(a) {
					if k == "field:selectionPlan.fields" {
						bad = fmt.Sprintf("%s hands selectionPlan.fields to %s.%s", fnKey(fn), cal.Pkg.Pkg.Name(), cal.Name())
						pos = ci.Pos()
					}
				}
			}
		}
	}
	r.Check(bad == "", "selectionPlan.fields/never-reordered", pos, fmt.Sprintf("none of the %d sort / slices calls of the library touches a plan's field slice", n),
		bad+": the slice's order is the order in which a mutation's top-level fields take effect; reordering it (gated fields last, by name, …) makes `mutation { a @include(if:$v) b }` run b before a")
}

// r2LoopSet: planMergedSelectionsForType collects the sub-selections of all occurrences of a merged field into one
// plan with one visited set. A set created per occurrence (inside the loop) lets a fragment spread by k occurrences be
// collected k times — 2^depth when that repeats level after level.
func r2LoopSet(c *core.Ctx, r *core.Reporter) {
	ci := c.Func("", "Plan.collectInto")
	if ci == nil {
		r.Unknown("collectInto/visited-set-per-call", token.NoPos, "not found")
		return
	}
	n := 0
	for _, fn := range c.LibFuncs() {
		for _, site := range core.CallsTo(fn, ci, false) {
			for _, a := range site.Common().Args {
				mm, ok := a.(*ssa.MakeMap)
				if !ok {
					continue
				}
				if m, ok := mm.Type().Underlying().(*types.Map); !ok || m.Elem().String() != "bool" {
					continue
				}
				n++
				key := fmt.Sprintf("%s/fresh-visited-set#%d", fnKey(fn), n)
				r.Check(!core.InAnyLoop(mm.Block()), key, mm.Pos(), "the set is created once, outside any loop",
					fnKey(fn)+" creates the visited-fragment set inside a loop, once per occurrence of the merged field: a fragment spread by several same-key occurrences is collected once per occurrence, and nested level after level the work (and the occurrence lists handed to resolvers) grow as 2^depth")
			}
		}
	}
	if n == 0 {
		r.OK("collectInto/visited-set-per-call", ci.Pos(), "no caller hands a freshly made set to collectInto")
	}
}

// r2Walked: forcing a thunk is not the end: what it yields can contain maps, lists and further thunks. In every dethunk
// function, after the call of a thunk some descent must still be reachable before the function is left or the next
// element is taken (a type test of the result for map / list, or a call of a walker); `return val()` skips it.
func r2Walked(c *core.Ctx, r *core.Reporter) {
	for _, fn := range c.LibFuncs() {
		if fn.Parent() != nil || !strings.HasPrefix(fnKey(fn), "dethunk") || strings.Contains(fnKey(fn), ".") {
			continue
		}
		var forces []*ssa.Call
		core.Instrs(fn, func(in ssa.Instruction) {
			if call, ok := in.(*ssa.Call); ok && strings.HasPrefix(core.UserCallback(call), "thunk") {
				forces = append(forces, call)
			}
		})
		if len(forces) == 0 {
			continue
		}
		key := fnKey(fn) + "/forced-value-walked"
		okAll := true
		headers := core.Loops(fn)
		for _, f := range forces {
			avoid := map[*ssa.BasicBlock]bool{}
			for h := range headers {
				avoid[h] = true
			}
			walked := false
			check := func(b *ssa.BasicBlock, from int) {
				for i, in := range b.Instrs {
					if i < from {
						continue
					}
					switch x := in.(type) {
					case *ssa.TypeAssert:
						switch x.AssertedType.Underlying().(type) {
						case *types.Map, *types.Slice:
							walked = true
						}
					case *ssa.Call:
						if cal := x.Call.StaticCallee(); cal != nil && strings.HasPrefix(core.N(cal), "dethunk") {
							walked = true
						} else if cal != nil && c.IsFresh(cal) {
							// the descent extracted into a helper: does the helper test for map / list or call a walker?
							c.RegionInstrs(cal, func(y ssa.Instruction) {
								switch z := y.(type) {
								case *ssa.TypeAssert:
									switch z.AssertedType.Underlying().(type) {
									case *types.Map, *types.Slice:
										walked = true
									}
								case *ssa.Call:
									if c2 := z.Call.StaticCallee(); c2 != nil && strings.HasPrefix(core.N(c2), "dethunk") {
										walked = true
									}
								}
							})
						}
					}
				}
			}
			check(f.Block(), core.InstrIndex(f)+1)
			for b := range core.ReachableAvoiding(f.Block(), avoid) {
				if b != f.Block() {
					check(b, 0)
				}
			}
			if !walked {
				okAll = false
			}
		}
		r.Check(okAll, key, forces[0].Pos(), "after a thunk is forced its result is tested for map / list or handed to a walker",
			fnKey(fn)+" forces a thunk and leaves without walking what the thunk yielded: maps, lists and thunks inside that value stay unforced — raw functions end up in Result.Data (also at non-null positions) and the errors of deferred fields below are never recorded")
	}
}

package rules

import (
	"fmt"
	"go/ast"
	"go/constant"
	"go/token"
	"go/types"

	"golang.org/x/tools/go/ssa"

	"verif/gqlvet/core"
)

func init() {
	docs["C15"] = Doc{
		Explanation: "Decides the structure of the subscription channel protocol in ExecuteSubscription / sendOneResultAndClose: " +
			"(CHAN-close) the result channel has one close site, deferred as the first statement of the forwarding goroutine, and the recover handler is deferred after it (runs before it) and delivers exactly one error result for every recovered value; sendOneResultAndClose sends once into capacity>=1 then closes; " +
			"(CHAN-cancel) every send on the unbuffered result channel is an arm of a select that also watches <-Context.Done(), so no send can block forever after cancellation; " +
			"(DOM-loop) in the event loop each received event leads to exactly one delivery of mapSourceToResponse(event), in a loop with only the exits !more and ctx.Done(), with no go statement (order = source order); " +
			"(DOM-errors) every failure exit before the loop delivers exactly one result and returns; " +
			"(MAPORD, shared with C12) the subscribed root field must not be chosen by map iteration order.",
		NotDecided: "interleavings of producer, consumer and cancellation (model checking territory); equality of each result with Execute on that event (it is a call to Execute).",
	}
	register(&core.Rule{Name: "C15/CHAN-close", Props: []string{"C15", "C09"}, Min: 5,
		Doc: "result channel closed exactly once, last; recover handler delivers one error result", Run: c15Close})
	register(&core.Rule{Name: "C15/CHAN-cancel", Props: []string{"C15"}, Min: 1,
		Doc: "every send on the result channel is a select arm next to <-ctx.Done()", Run: c15Cancel})
	register(&core.Rule{Name: "C15/DOM-loop", Props: []string{"C15"}, Min: 5,
		Doc: "one delivery per received event, in source order, exits only on !more / ctx.Done()", Run: c15Loop})
	register(&core.Rule{Name: "C15/DOM-errors", Props: []string{"C15"}, Min: 6,
		Doc: "each failure exit delivers exactly one result and returns", Run: c15Errors})
}

type subShape struct {
	info     *types.Info
	fd       *ast.FuncDecl
	chanObj  types.Object
	chanCap  int64
	worker   *ast.FuncLit
	nGo      int
	sendFn   types.Object // helper closure variable that performs the guarded send, if any
	sendLit  *ast.FuncLit
	wrapFns  map[types.Object]bool // closures / extracted helpers that do nothing but deliver (call sendFn or send)
	mapFn    types.Object // mapSourceToResponse
	ctxField func(e ast.Expr) bool
}

func loadSub(c *core.Ctx) *subShape {
	p, fd := c.FindDecl("", "ExecuteSubscription")
	if fd == nil {
		return nil
	}
	s := &subShape{info: p.TypesInfo, fd: fd, chanCap: -1}
	info := s.info
	// channel variable: `var resultChannel = make(chan *Result)` or :=
	ast.Inspect(fd.Body, func(n ast.Node) bool {
		var lhs []ast.Expr
		var rhs []ast.Expr
		switch x := n.(type) {
		case *ast.AssignStmt:
			lhs, rhs = x.Lhs, x.Rhs
		case *ast.ValueSpec:
			for _, nm := range x.Names {
				lhs = append(lhs, nm)
			}
			rhs = x.Values
		default:
			return true
		}
		for i, e := range rhs {
			if i >= len(lhs) {
				break
			}
			switch v := e.(type) {
			case *ast.CallExpr:
				if core.IsBuiltinCall(info, v, "make") {
					if ch, ok := info.TypeOf(v).Underlying().(*types.Chan); ok && core.TypeName(ch.Elem()) == "Result" && s.chanObj == nil {
						s.chanObj = core.ObjOf(info, lhs[i])
						s.chanCap = 0
						if len(v.Args) > 1 {
							s.chanCap = -1
							if tv := info.Types[v.Args[1]]; tv.Value != nil {
								s.chanCap, _ = constant.Int64Val(tv.Value)
							}
						}
					}
				}
			case *ast.FuncLit:
				// closure variables: classify by body
				o := core.ObjOf(info, lhs[i])
				if containsSendOn(info, v, s.chanObj) {
					s.sendFn, s.sendLit = o, v
				} else if callsNamed(info, v, "Execute") {
					s.mapFn = o
				}
			}
		}
		return true
	})
	// thin delivery wrappers around the guarded send: `sendError := func(err error) bool { return send(&Result{…}) }`
	s.wrapFns = map[types.Object]bool{}
	ast.Inspect(fd.Body, func(n ast.Node) bool {
		as, ok := n.(*ast.AssignStmt)
		if !ok {
			return true
		}
		for i, e := range as.Rhs {
			fl, ok := e.(*ast.FuncLit)
			if !ok || i >= len(as.Lhs) {
				continue
			}
			o := core.ObjOf(info, as.Lhs[i])
			if o == nil || o == s.sendFn || o == s.mapFn {
				continue
			}
			if len(s.deliveries(fl)) == 1 && len(fl.Body.List) == 1 {
				s.wrapFns[o] = true
			}
		}
		return true
	})
	for _, st := range fd.Body.List {
		if g, ok := st.(*ast.GoStmt); ok {
			s.nGo++
			if fl, ok := g.Call.Fun.(*ast.FuncLit); ok {
				s.worker = fl
			}
		}
	}
	return s
}

func containsSendOn(info *types.Info, n ast.Node, ch types.Object) bool {
	found := false
	if ch == nil {
		return false
	}
	ast.Inspect(n, func(x ast.Node) bool {
		if snd, ok := x.(*ast.SendStmt); ok && core.ObjOf(info, snd.Chan) == ch {
			found = true
		}
		return true
	})
	return found
}

func callsNamed(info *types.Info, n ast.Node, name string) bool {
	found := false
	ast.Inspect(n, func(x ast.Node) bool {
		if call, ok := x.(*ast.CallExpr); ok {
			if f := core.CalleeObj(info, call); f != nil && core.N(f) == name && f.Pkg() != nil && f.Pkg().Path() == core.ModPath {
				found = true
			}
		}
		return true
	})
	return found
}

// isDelivery: a statement/expression that delivers one result on the channel:
// a SendStmt on the result channel or a call of the guarded-send helper.
func (s *subShape) deliveryArg(n ast.Node) (ast.Expr, bool) {
	switch x := n.(type) {
	case *ast.SendStmt:
		if core.ObjOf(s.info, x.Chan) == s.chanObj {
			return x.Value, true
		}
	case *ast.CallExpr:
		if s.sendFn != nil && core.ObjOf(s.info, x.Fun) == s.sendFn && len(x.Args) == 1 {
			return x.Args[0], true
		}
		if o := core.ObjOf(s.info, x.Fun); o != nil && s.wrapFns[o] && len(x.Args) >= 1 {
			return x.Args[0], true
		}
	}
	return nil, false
}

// deliveries lists deliveries inside n, not descending into function literals.
func (s *subShape) deliveries(n ast.Node) []ast.Node {
	var out []ast.Node
	ast.Inspect(n, func(x ast.Node) bool {
		if _, ok := x.(*ast.FuncLit); ok && x != n {
			return false
		}
		if x == nil {
			return true
		}
		if _, ok := s.deliveryArg(x); ok {
			out = append(out, x)
		}
		return true
	})
	return out
}

func c15Close(c *core.Ctx, r *core.Reporter) {
	s := loadSub(c)
	if s == nil || s.chanObj == nil || s.worker == nil || s.nGo != 1 {
		r.Unknown("ExecuteSubscription", token.NoPos, "ExecuteSubscription, its result channel or its single worker goroutine not found")
		return
	}
	info := s.info
	// close sites
	var closes []*ast.CallExpr
	ast.Inspect(s.fd.Body, func(n ast.Node) bool {
		if call, ok := n.(*ast.CallExpr); ok && core.IsBuiltinCall(info, call, "close") && len(call.Args) == 1 && core.ObjOf(info, call.Args[0]) == s.chanObj {
			closes = append(closes, call)
		}
		return true
	})
	r.Check(len(closes) == 1, "ExecuteSubscription.close.once", s.worker.Pos(),
		"exactly one close site of the result channel", fmt.Sprintf("found %d close sites of the result channel (0: consumers ranging over it never terminate; >1: double close panics)", len(closes)))
	first, _ := s.worker.Body.List[0].(*ast.DeferStmt)
	okFirst := first != nil && len(closes) == 1 && first.Call == closes[0]
	r.Check(okFirst, "ExecuteSubscription.close.first-defer", s.worker.Pos(),
		"close is deferred as the worker's first statement, so it runs last on every exit (return or panic)",
		"the close of the result channel must be the first deferred call of the worker: otherwise some exit leaves the channel open or closes it before the last send")
	// second statement: deferred recover handler
	var rec *ast.FuncLit
	if len(s.worker.Body.List) > 1 {
		if d, ok := s.worker.Body.List[1].(*ast.DeferStmt); ok {
			if fl, ok := d.Call.Fun.(*ast.FuncLit); ok && containsBuiltin(info, fl, "recover") {
				rec = fl
			}
		}
	}
	if rec == nil {
		r.Bad("ExecuteSubscription.recover", s.worker.Pos(), "the worker does not defer a recover() handler right after the close: a panic in a Subscribe resolver crashes the process")
	} else {
		r.OK("ExecuteSubscription.recover", rec.Pos(), "recover handler deferred after the close (runs before it)")
		// inside `if err := recover(); err != nil { … }` exactly one delivery on every path: no return before the delivery
		ds := s.deliveries(rec.Body)
		early := false
		if len(ds) == 1 {
			ast.Inspect(rec.Body, func(n ast.Node) bool {
				if ret, ok := n.(*ast.ReturnStmt); ok && ret.Pos() < ds[0].Pos() {
					early = true
				}
				return true
			})
		}
		r.Check(len(ds) == 1 && !early, "ExecuteSubscription.recover.delivers", rec.Pos(),
			"the handler delivers exactly one error result for any recovered value",
			"the recover handler must deliver exactly one error result whatever the panic value is (an early return for non-error values closes the channel with no result)")
	}
	// sendOneResultAndClose
	p2, fd2 := c.FindDecl("", "sendOneResultAndClose")
	if fd2 == nil {
		r.Unknown("sendOneResultAndClose", token.NoPos, "not found")
		return
	}
	// every one-shot result channel made in the function (one in sendOneResultAndClose; one per inlined copy when the helper
	// is written in place in Subscribe): capacity >= 1, exactly one send, then exactly one close
	type oneShot struct {
		capv           int64
		nsend, nclose  int
		sendPos, close token.Pos
	}
	chans := map[types.Object]*oneShot{}
	info2 := p2.TypesInfo
	ast.Inspect(fd2.Body, func(n ast.Node) bool {
		as, ok := n.(*ast.AssignStmt)
		if !ok {
			return true
		}
		for i, rhs := range as.Rhs {
			call, ok := rhs.(*ast.CallExpr)
			if !ok || !core.IsBuiltinCall(info2, call, "make") || i >= len(as.Lhs) {
				continue
			}
			ch, ok := info2.TypeOf(call).Underlying().(*types.Chan)
			if !ok || core.TypeName(ch.Elem()) != "Result" {
				continue
			}
			o := core.ObjOf(info2, as.Lhs[i])
			if o == nil {
				continue
			}
			os := &oneShot{capv: 0}
			if len(call.Args) > 1 {
				os.capv = -1
				if tv := info2.Types[call.Args[1]]; tv.Value != nil {
					os.capv, _ = constant.Int64Val(tv.Value)
				}
			}
			chans[o] = os
		}
		return true
	})
	ast.Inspect(fd2.Body, func(n ast.Node) bool {
		switch x := n.(type) {
		case *ast.CallExpr:
			if core.IsBuiltinCall(info2, x, "close") && len(x.Args) == 1 {
				if os := chans[core.ObjOf(info2, x.Args[0])]; os != nil {
					os.nclose++
					os.close = x.Pos()
				}
			}
		case *ast.SendStmt:
			if os := chans[core.ObjOf(info2, x.Chan)]; os != nil {
				os.nsend++
				os.sendPos = x.Pos()
			}
		}
		return true
	})
	okShot := len(chans) > 0
	for _, os := range chans {
		if !(os.capv >= 1 && os.nsend == 1 && os.nclose == 1 && os.sendPos < os.close) {
			okShot = false
		}
	}
	r.Check(okShot, "sendOneResultAndClose", fd2.Pos(),
		"one send into capacity>=1, then one close",
		"sendOneResultAndClose must send exactly once into a channel of capacity >= 1 and then close it (an unbuffered send blocks the caller forever)")
}

func containsBuiltin(info *types.Info, n ast.Node, name string) bool {
	found := false
	ast.Inspect(n, func(x ast.Node) bool {
		if call, ok := x.(*ast.CallExpr); ok && core.IsBuiltinCall(info, call, name) {
			found = true
		}
		return true
	})
	return found
}

func isDoneRecv(info *types.Info, comm ast.Stmt) bool {
	es, ok := comm.(*ast.ExprStmt)
	if !ok {
		return false
	}
	ue, ok := ast.Unparen(es.X).(*ast.UnaryExpr)
	if !ok || ue.Op != token.ARROW {
		return false
	}
	call, ok := ue.X.(*ast.CallExpr)
	if !ok {
		return false
	}
	se, ok := call.Fun.(*ast.SelectorExpr)
	if !ok || se.Sel.Name != "Done" {
		return false
	}
	t := info.TypeOf(se.X)
	return t != nil && core.IsNamed(t, "context", "Context")
}

func c15Cancel(c *core.Ctx, r *core.Reporter) {
	s := loadSub(c)
	if s == nil || s.chanObj == nil {
		r.Unknown("ExecuteSubscription", token.NoPos, "result channel not found")
		return
	}
	n := 0
	core.WalkStack(s.fd.Body, func(x ast.Node, stack []ast.Node) bool {
		snd, ok := x.(*ast.SendStmt)
		if !ok || core.ObjOf(s.info, snd.Chan) != s.chanObj {
			return true
		}
		n++
		key := fmt.Sprintf("ExecuteSubscription.send#%d", n)
		// parent must be a CommClause of a SelectStmt with a Done arm
		guarded := false
		if len(stack) >= 4 {
			if cc, ok := stack[len(stack)-2].(*ast.CommClause); ok && cc.Comm == snd {
				if sel, ok := stack[len(stack)-4].(*ast.SelectStmt); ok {
					for _, cl := range sel.Body.List {
						oc := cl.(*ast.CommClause)
						if oc != cc && oc.Comm != nil && isDoneRecv(s.info, oc.Comm) {
							guarded = true
						}
					}
				}
			}
		}
		r.Check(guarded, key, snd.Pos(),
			"send is a select arm next to <-ctx.Done()",
			"bare send on the unbuffered result channel: with a consumer that stopped reading the goroutine stays blocked forever after cancellation")
		return true
	})
	if s.chanCap != 0 {
		r.Unknown("ExecuteSubscription.chan", s.fd.Pos(), "result channel is no longer unbuffered (capacity %d): the cancel rule's premise changed, re-derive it", s.chanCap)
	}
}

func c15Loop(c *core.Ctx, r *core.Reporter) {
	s := loadSub(c)
	if s == nil || s.worker == nil {
		r.Unknown("ExecuteSubscription.loop", token.NoPos, "worker not found")
		return
	}
	info := s.info
	// the event loop: a ForStmt whose body is a SelectStmt with an arm receiving from a chan interface{}
	var loop *ast.ForStmt
	var sel *ast.SelectStmt
	ast.Inspect(s.worker.Body, func(n ast.Node) bool {
		if f, ok := n.(*ast.ForStmt); ok && loop == nil {
			for _, st := range f.Body.List {
				if sl, ok := st.(*ast.SelectStmt); ok {
					loop, sel = f, sl
				}
			}
		}
		return true
	})
	if loop == nil {
		r.Unknown("ExecuteSubscription.loop", s.worker.Pos(), "no `for { select { … } }` event loop found in the worker literal (moved into another function?): re-confirm the loop's arms")
		return
	}
	r.Check(loop.Cond == nil && loop.Init == nil && loop.Post == nil && len(loop.Body.List) == 1, "ExecuteSubscription.loop.shape", loop.Pos(),
		"unconditional loop whose body is exactly the select", "the event loop must be `for { select {…} }` with nothing else in its body")
	var doneArm, evArm *ast.CommClause
	extra := 0
	for _, cl := range sel.Body.List {
		cc := cl.(*ast.CommClause)
		switch {
		case cc.Comm == nil:
			extra++
		case isDoneRecv(info, cc.Comm):
			doneArm = cc
		default:
			if as, ok := cc.Comm.(*ast.AssignStmt); ok && len(as.Rhs) == 1 {
				if ue, ok := as.Rhs[0].(*ast.UnaryExpr); ok && ue.Op == token.ARROW {
					if ch, ok := info.TypeOf(ue.X).Underlying().(*types.Chan); ok && types.IsInterface(ch.Elem()) {
						evArm = cc
						continue
					}
				}
			}
			extra++
		}
	}
	r.Check(doneArm != nil && evArm != nil && extra == 0, "ExecuteSubscription.loop.arms", sel.Pos(),
		"select has exactly the arms <-ctx.Done() and the source receive",
		"the event loop's select must have exactly the arms <-ctx.Done() and `ev, more := <-source` (no default: busy loop; no Done arm: cancellation ignored)")
	if doneArm == nil || evArm == nil {
		return
	}
	// Done arm: returns immediately, no delivery
	okDone := len(doneArm.Body) == 1 && len(s.deliveries(doneArm)) == 0
	if okDone {
		_, okDone = doneArm.Body[0].(*ast.ReturnStmt)
	}
	r.Check(okDone, "ExecuteSubscription.loop.done-arm", doneArm.Pos(), "Done arm returns without delivering", "the Done arm must return at once without delivering")
	// event arm: `res, more := <-sub; if !more {return}; deliver(map(res))`
	as := evArm.Comm.(*ast.AssignStmt)
	var evObj, moreObj types.Object
	if len(as.Lhs) == 2 {
		evObj, moreObj = core.ObjOf(info, as.Lhs[0]), core.ObjOf(info, as.Lhs[1])
	}
	closedCheck := false
	if len(evArm.Body) > 0 && moreObj != nil {
		if iff, ok := evArm.Body[0].(*ast.IfStmt); ok {
			if ue, ok := iff.Cond.(*ast.UnaryExpr); ok && ue.Op == token.NOT && core.ObjOf(info, ue.X) == moreObj && len(iff.Body.List) == 1 {
				_, closedCheck = iff.Body.List[0].(*ast.ReturnStmt)
			}
		}
	}
	// conjuncts of a && chain, left to right
	var conjuncts func(e ast.Expr) []ast.Expr
	conjuncts = func(e ast.Expr) []ast.Expr {
		e = ast.Unparen(e)
		if be, ok := e.(*ast.BinaryExpr); ok && be.Op == token.LAND {
			return append(conjuncts(be.X), conjuncts(be.Y)...)
		}
		return []ast.Expr{e}
	}
	within := func(outer, inner ast.Node) bool { return outer.Pos() <= inner.Pos() && inner.End() <= outer.End() }
	if !closedCheck && moreObj != nil {
		// the other spelling: every delivery of the arm sits behind `more` in an && chain (to its right in the condition, or
		// in the body of an if whose condition has `more` as a conjunct), and the arm ends in a return
		all := len(s.deliveries(evArm)) > 0
		for _, d := range s.deliveries(evArm) {
			guarded := false
			ast.Inspect(evArm, func(n ast.Node) bool {
				iff, ok := n.(*ast.IfStmt)
				if !ok {
					return true
				}
				cs := conjuncts(iff.Cond)
				for i, cj := range cs {
					if id, ok := cj.(*ast.Ident); ok && core.ObjOf(info, id) == moreObj {
						if within(iff.Body, d) {
							guarded = true
						}
						for _, later := range cs[i+1:] {
							if within(later, d) {
								guarded = true
							}
						}
					}
				}
				return true
			})
			if !guarded {
				all = false
			}
		}
		_, endsInReturn := evArm.Body[len(evArm.Body)-1].(*ast.ReturnStmt)
		closedCheck = all && endsInReturn
	}
	r.Check(closedCheck, "ExecuteSubscription.loop.closed-source", evArm.Pos(),
		"a closed source ends the loop before anything is delivered", "the event arm must test the receive's ok flag first and return when the source is closed (otherwise nil events are delivered forever)")
	ds := s.deliveries(evArm)
	okOne := len(ds) == 1
	inLoop, hasGo := false, false
	ast.Inspect(evArm, func(n ast.Node) bool {
		switch n.(type) {
		case *ast.ForStmt, *ast.RangeStmt:
			inLoop = true
		case *ast.GoStmt:
			hasGo = true
		}
		return true
	})
	okArg := false
	if okOne {
		arg, _ := s.deliveryArg(ds[0])
		if call, ok := arg.(*ast.CallExpr); ok && s.mapFn != nil && core.ObjOf(info, call.Fun) == s.mapFn && len(call.Args) == 1 && core.ObjOf(info, call.Args[0]) == evObj && evObj != nil {
			okArg = true
		}
	}
	r.Check(okOne && !inLoop && !hasGo, "ExecuteSubscription.loop.one-delivery", evArm.Pos(),
		"exactly one delivery per received event, no inner loop, no goroutine (order = source order)",
		"each received event must lead to exactly one delivery, outside any inner loop and without spawning a goroutine (else duplicates, drops or reordering)")
	r.Check(okArg, "ExecuteSubscription.loop.payload", evArm.Pos(),
		"the delivered result is mapSourceToResponse(<the received event>)",
		"the delivered result must be mapSourceToResponse applied to the event just received")
	// a refused delivery (cancelled) must end the loop if the helper reports it
	if s.sendFn != nil && okOne {
		ends := false
		ast.Inspect(evArm, func(n ast.Node) bool {
			if iff, ok := n.(*ast.IfStmt); ok {
				if ue, ok := iff.Cond.(*ast.UnaryExpr); ok && ue.Op == token.NOT && ue.X == ds[0] && len(iff.Body.List) == 1 {
					_, ends = iff.Body.List[0].(*ast.ReturnStmt)
				}
			}
			return true
		})
		if !ends {
			// the other spelling: `if … && deliver(…) { continue }` directly followed by `return`
			for i, st := range evArm.Body {
				iff, ok := st.(*ast.IfStmt)
				if !ok || iff.Else != nil || i+1 >= len(evArm.Body) || len(iff.Body.List) != 1 {
					continue
				}
				br, isBr := iff.Body.List[0].(*ast.BranchStmt)
				_, nextRet := evArm.Body[i+1].(*ast.ReturnStmt)
				if !isBr || br.Tok != token.CONTINUE || br.Label != nil || !nextRet {
					continue
				}
				for _, cj := range conjuncts(iff.Cond) {
					if de, ok := ds[0].(ast.Expr); ok && cj == de {
						ends = true
					}
				}
			}
		}
		r.Check(ends, "ExecuteSubscription.loop.cancelled-delivery", evArm.Pos(),
			"a delivery refused because of cancellation ends the loop", "when the guarded send reports cancellation the loop must return (otherwise events are consumed and dropped)")
	}
}

func c15Errors(c *core.Ctx, r *core.Reporter) {
	s := loadSub(c)
	if s == nil || s.worker == nil {
		r.Unknown("ExecuteSubscription.errors", token.NoPos, "worker not found")
		return
	}
	// every delivery that is a direct statement of a block outside the event loop must be the
	// only delivery of that block and be followed directly by `return`.
	n, silent := 0, 0
	var visit func(list []ast.Stmt, inLoop bool)
	visitStmt := func(st ast.Stmt, inLoop bool) {}
	visit = func(list []ast.Stmt, inLoop bool) {
		cnt := 0
		for i, st := range list {
			if es, ok := st.(*ast.ExprStmt); ok {
				if _, ok := s.deliveryArg(es.X); ok {
					cnt++
					if !inLoop {
						n++
						key := fmt.Sprintf("ExecuteSubscription.exit#%d", n)
						_, ret := nextStmt(list, i).(*ast.ReturnStmt)
						r.Check(ret && cnt == 1, key, st.Pos(),
							"one delivery directly followed by return",
							"a delivery on a failure/one-shot path must be the only one in its block and be directly followed by return (else a second result is delivered or execution continues on invalid state)")
					}
				}
			}
			if snd, ok := st.(*ast.SendStmt); ok {
				if _, ok := s.deliveryArg(snd); ok {
					cnt++
					if !inLoop {
						n++
						key := fmt.Sprintf("ExecuteSubscription.exit#%d", n)
						_, ret := nextStmt(list, i).(*ast.ReturnStmt)
						r.Check(ret && cnt == 1, key, st.Pos(), "one delivery directly followed by return",
							"a delivery on a failure/one-shot path must be the only one in its block and be directly followed by return")
					}
				}
			}
			if ret, ok := st.(*ast.ReturnStmt); ok && !inLoop {
				prevDelivers := false
				if i > 0 {
					switch pv := list[i-1].(type) {
					case *ast.ExprStmt:
						_, prevDelivers = s.deliveryArg(pv.X)
					case *ast.SendStmt:
						_, prevDelivers = s.deliveryArg(pv)
					}
				}
				if !prevDelivers {
					silent++
					r.Bad(fmt.Sprintf("ExecuteSubscription.silent-exit#%d", silent), ret.Pos(),
						"the worker returns here, outside the event loop, without delivering a result: the consumer sees the channel close with nothing explaining why")
				}
			}
			visitStmt(st, inLoop)
		}
	}
	visitStmt = func(st ast.Stmt, inLoop bool) {
		switch x := st.(type) {
		case *ast.BlockStmt:
			visit(x.List, inLoop)
		case *ast.IfStmt:
			visit(x.Body.List, inLoop)
			if x.Else != nil {
				visitStmt(x.Else, inLoop)
			}
		case *ast.ForStmt:
			visit(x.Body.List, true)
		case *ast.RangeStmt:
			visit(x.Body.List, true)
		case *ast.SwitchStmt:
			for _, cl := range x.Body.List {
				visit(cl.(*ast.CaseClause).Body, inLoop)
			}
		case *ast.TypeSwitchStmt:
			for _, cl := range x.Body.List {
				visit(cl.(*ast.CaseClause).Body, inLoop)
			}
		case *ast.SelectStmt:
			for _, cl := range x.Body.List {
				visit(cl.(*ast.CommClause).Body, inLoop)
			}
		}
	}
	// skip the two leading defers
	visit(s.worker.Body.List, false)
}

func nextStmt(list []ast.Stmt, i int) ast.Stmt {
	if i+1 < len(list) {
		return list[i+1]
	}
	return nil
}

func init() {
	register(&core.Rule{Name: "C15/FLOW-rawargs", Props: []string{"C15", "C05"}, Min: 1,
		Doc: "already coerced variable values never become the raw variable input of another execution", Run: c15RawArgs})
}

// c15RawArgs: ExecuteParams.Args / Params.VariableValues are the client's raw variable values; every execution coerces
// them itself. Coercion is not idempotent (an enum's wire name becomes its internal value, a custom scalar is
// parsed), so storing executionContext.VariableValues (or the result of getVariableValues) there makes the next
// execution coerce coerced values: per-event subscription results then carry "got invalid value" instead of data.
func c15RawArgs(c *core.Ctx, r *core.Reporter) {
	raw := map[string]bool{"ExecuteParams.Args": true, "Params.VariableValues": true}
	n := 0
	per := map[string]int{}
	for _, fn := range c.LibFuncs() {
		for _, w := range core.WritesIn(fn) {
			if w.Owner == nil || w.Field == nil || !raw[core.N(w.Owner.Obj())+"."+core.N(w.Field)] {
				continue
			}
			st, ok := w.In.(*ssa.Store)
			if !ok {
				continue
			}
			n++
			name := fnKey(fn)
			per[name]++
			key := fmt.Sprintf("%s/%s.%s#%d", name, core.N(w.Owner.Obj()), core.N(w.Field), per[name])
			coerced := ""
			for _, k := range core.Classes(st.Val) {
				if k == "field:executionContext.VariableValues" || k == "call:getVariableValues" {
					coerced = k
				}
			}
			if coerced != "" {
				r.Bad(key, st.Pos(), "%s stores coerced variable values (%s) into %s.%s, the raw variable input of an execution: the execution that reads it coerces them a second time, which fails or changes the value for every type whose internal form differs from its wire form (enums with explicit values, custom scalars)", name, coerced, core.N(w.Owner.Obj()), core.N(w.Field))
			} else {
				r.OK(key, st.Pos(), "value comes from %s", core.Join(core.Classes(st.Val)))
			}
		}
	}
	if n == 0 {
		r.Unknown("raw-variable-stores", token.NoPos, "no store to ExecuteParams.Args / Params.VariableValues found")
	}
}

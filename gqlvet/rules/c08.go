package rules

import (
	"fmt"
	"go/ast"
	"go/constant"
	"go/token"
	"go/types"
	"sort"
	"strings"

	"golang.org/x/tools/go/ssa"

	"verif/gqlvet/core"
)

func init() {
	docs["C08"] = Doc{
		Explanation: "Round-trip equality is a property of values and is NOT decided. Decided: " +
			"(EXH-reducers) the printer's reducer table has an entry for every declared node kind; " +
			"(TAB-fields) nothing the parser builds is dropped: for each kind, the reducer's arm for the reduced (map) form reads every child key of QueryDocumentKeys[kind], every scalar payload field of the struct (Operation, Value) and the description, every key it reads names a field of that struct, and leaf kinds read their value on the struct arm; " +
			"(FLOW-escape) the string writer's escape alphabet is a subset of the lexer's (extracted from the escape switch in readString), it escapes quote, backslash and every control character the lexer rejects raw, and it is not a Go quoting routine; " +
			"(FLOW-blockquote) description text passes through an escape of the triple quote before it is wrapped in triple quotes; " +
			"(FLOW-noedit, with C14/DOM-noedit) every reducer returns only (ActionUpdate, value) or (ActionNoChange, nil) with non-node values, so the visitor takes the copy-to-map arm and printing cannot write the AST; (TAB-keys, shared C14) the child table matches the structs.",
		NotDecided: "spacing / joining correctness, block-string indentation round trip (leading whitespace, blank first/last lines of descriptions), print idempotence.",
	}
	register(&core.Rule{Name: "C08/EXH-reducers", Props: []string{"C08"}, Min: 36,
		Doc: "a reducer exists for every node kind", Run: c08Reducers})
	register(&core.Rule{Name: "C08/TAB-fields", Props: []string{"C08"}, Min: 36,
		Doc: "each reducer reads every child key, scalar payload and description of its kind; keys name struct fields", Run: c08Fields})
	register(&core.Rule{Name: "C08/FLOW-escape", Props: []string{"C08"}, Min: 4,
		Doc: "writer's escape alphabet ⊆ lexer's; quote, backslash and control characters escaped", Run: c08Escape})
	register(&core.Rule{Name: "C08/FLOW-blockquote", Props: []string{"C08"}, Min: 1,
		Doc: "triple quotes in descriptions are escaped before wrapping", Run: c08BlockQuote})
	register(&core.Rule{Name: "C08/FLOW-noedit", Props: []string{"C08"}, Min: 36,
		Doc: "reducers only return ActionUpdate with non-node values / ActionNoChange", Run: c08NoEdit})
}

// reducerTable: kind -> function literal
func reducerTable(c *core.Ctx) (map[string]*ast.FuncLit, *types.Info, token.Pos) {
	p := c.Pkg("language/printer")
	out := map[string]*ast.FuncLit{}
	var at token.Pos
	for _, f := range p.Syntax {
		for _, d := range f.Decls {
			gd, ok := d.(*ast.GenDecl)
			if !ok {
				continue
			}
			for _, sp := range gd.Specs {
				vs, ok := sp.(*ast.ValueSpec)
				if !ok || len(vs.Names) != 1 || vs.Names[0].Name != "printDocASTReducer" || len(vs.Values) != 1 {
					continue
				}
				cl, ok := vs.Values[0].(*ast.CompositeLit)
				if !ok {
					continue
				}
				at = cl.Pos()
				for _, el := range cl.Elts {
					kv, ok := el.(*ast.KeyValueExpr)
					if !ok {
						continue
					}
					if fl, ok := kv.Value.(*ast.FuncLit); ok {
						out[constString(p.TypesInfo, kv.Key)] = fl
					}
				}
			}
		}
	}
	return out, p.TypesInfo, at
}

func c08Reducers(c *core.Ctx, r *core.Reporter) {
	tab, _, at := reducerTable(c)
	if len(tab) < 30 {
		r.Unknown("printDocASTReducer", token.NoPos, "reducer table not found")
		return
	}
	for _, k := range c.DeclaredImplementers("language/ast", "Node") {
		_, ok := tab[k]
		pos := at
		if ok {
			pos = tab[k].Pos()
		}
		r.Check(ok, "reducer/"+k, pos, "reducer present",
			"printDocASTReducer has no entry for "+k+": nodes of that kind are left unreduced and come out through %v formatting of a struct or map")
	}
	for k := range tab {
		if c.Named("language/ast", k) == nil {
			r.Bad("reducer/"+k, tab[k].Pos(), "reducer key %q is not an ast node kind: it never fires", k)
		}
	}
}

// keysReadIn collects the string constants passed as the key argument of the getMap* helpers (and
// "Description" when getDescription is called) inside a node.
func keysReadIn(info *types.Info, n ast.Node) map[string]bool {
	out := map[string]bool{}
	ast.Inspect(n, func(x ast.Node) bool {
		call, ok := x.(*ast.CallExpr)
		if !ok {
			return true
		}
		f := core.CalleeObj(info, call)
		if f == nil {
			return true
		}
		switch core.N(f) {
		case "getMapValue", "getMapValueString", "getMapSliceValue":
			if len(call.Args) == 2 {
				k := constString(info, call.Args[1])
				if i := strings.Index(k, "."); i >= 0 {
					k = k[:i]
				}
				if k != "" {
					out[k] = true
				}
			}
		case "getDescription":
			out["Description"] = true
		}
		return true
	})
	return out
}

var leafKinds = map[string]bool{"Name": true, "IntValue": true, "FloatValue": true, "StringValue": true, "BooleanValue": true, "EnumValue": true}

func c08Fields(c *core.Ctx, r *core.Reporter) {
	tab, info, _ := reducerTable(c)
	keys, _, _ := keyTable(c)
	if len(tab) < 30 || len(keys) < 30 {
		r.Unknown("printDocASTReducer", token.NoPos, "reducer or key table not found")
		return
	}
	var kinds []string
	for k := range tab {
		kinds = append(kinds, k)
	}
	sort.Strings(kinds)
	for _, k := range kinds {
		n := c.Named("language/ast", k)
		if n == nil {
			continue
		}
		fl := tab[k]
		sws := core.TypeSwitches(info, fl.Body, false)
		if len(sws) != 1 {
			r.Unknown("fields/"+k, fl.Pos(), "reducer for %s has no single type switch on the node", k)
			continue
		}
		sw := sws[0]
		if leafKinds[k] || len(keys[k]) == 0 {
			// leaf: struct arm reads the payload
			cl := sw.Clauses[k]
			if cl == nil {
				r.Bad("fields/"+k, fl.Pos(), "leaf kind %s has no `case *ast.%s` arm: leaves arrive unreduced (as structs), so their text is never produced", k, k)
				continue
			}
			read := core.FieldsRead(info, []ast.Node{cl})["ast."+k]
			var miss []string
			for _, f := range core.Fields(n) {
				if core.N(f) == "Kind" || core.N(f) == "Loc" {
					continue
				}
				if !read[core.N(f)] {
					miss = append(miss, core.N(f))
				}
			}
			r.Check(len(miss) == 0, "fields/"+k, cl.Pos(), "leaf arm reads every payload field",
				"the printer's arm for leaf kind "+k+" does not read "+core.Join(miss))
			continue
		}
		cl := sw.Clauses["map[string]interface{}"]
		if cl == nil {
			cl = sw.Clauses["map[string]any"]
		}
		if cl == nil {
			r.Bad("fields/"+k, fl.Pos(), "reducer for %s has no arm for the reduced (map) form: nodes with reduced children are never printed", k)
			continue
		}
		read := keysReadIn(info, cl)
		want := map[string]bool{}
		for _, ck := range keys[k] {
			want[ck] = true
		}
		fieldSet := map[string]*types.Var{}
		for _, f := range core.Fields(n) {
			fieldSet[core.N(f)] = f
			if core.N(f) == "Kind" || core.N(f) == "Loc" {
				continue
			}
			if !isNodeish(c, f.Type()) && !(k == "FragmentDefinition" && core.N(f) == "Operation") {
				// scalar payload (Operation, Value); FragmentDefinition.Operation is the same constant for every fragment
				want[core.N(f)] = true
			}
			if core.N(f) == "Description" {
				want["Description"] = true
			}
		}
		var miss, bogus []string
		for w := range want {
			if !read[w] {
				miss = append(miss, w)
			}
		}
		for rd := range read {
			if fieldSet[rd] == nil {
				bogus = append(bogus, rd)
			}
		}
		switch {
		case len(bogus) > 0:
			r.Bad("fields/"+k, cl.Pos(), "the reducer for %s reads key(s) %s that are not fields of ast.%s: they always come back empty, so that part of the node is dropped from the printed text", k, core.Join(bogus), k)
		case len(miss) > 0:
			r.Bad("fields/"+k, cl.Pos(), "the reducer for %s never reads %s: what the parser stored there is dropped from the printed text and lost in a print/parse round trip", k, core.Join(miss))
		default:
			r.OK("fields/"+k, cl.Pos(), "reads %s", core.Join(core.SortedKeys(read)))
		}
	}
}

func c08Escape(c *core.Ctx, r *core.Reporter) {
	tab, info, _ := reducerTable(c)
	fl := tab["StringValue"]
	if fl == nil {
		r.Unknown("StringValue", token.NoPos, "no StringValue reducer")
		return
	}
	sws := core.TypeSwitches(info, fl.Body, false)
	if len(sws) != 1 || sws[0].Clauses["StringValue"] == nil {
		r.Unknown("StringValue", fl.Pos(), "no struct arm for *ast.StringValue")
		return
	}
	cl := sws[0].Clauses["StringValue"]
	// the quoting call applied to node.Value
	var quoter *types.Func
	ast.Inspect(cl, func(x ast.Node) bool {
		call, ok := x.(*ast.CallExpr)
		if !ok {
			return true
		}
		for _, a := range call.Args {
			if core.FieldSel(info, a, "StringValue", "Value") {
				quoter = core.CalleeObj(info, call)
			}
		}
		return true
	})
	if quoter == nil {
		r.Bad("StringValue/quoter", cl.Pos(), "the string value is not passed through a quoting function: quotes, backslashes and control characters are printed raw")
		return
	}
	if quoter.Pkg() == nil || !strings.HasPrefix(quoter.Pkg().Path(), core.ModPath) {
		std := map[string]string{
			"strconv.Quote":         `\a \v \xNN \UNNNNNNNN`,
			"strconv.QuoteToASCII":  `\a \v \xNN \UNNNNNNNN`,
			"fmt.Sprintf":           `(%q) \a \v \xNN \UNNNNNNNN`,
			"encoding/json.Marshal": `(HTML escapes, invalid UTF-8 replaced)`,
		}
		name := quoter.Pkg().Path() + "." + core.N(quoter)
		r.Bad("StringValue/quoter", cl.Pos(), "string values are quoted with %s, whose escape alphabet includes %s — sequences the GraphQL lexer rejects: a value containing such characters prints as text that does not parse back", name, std[name])
		return
	}
	r.OK("StringValue/quoter", cl.Pos(), "quoted by library function %s", core.N(quoter))
	// writer alphabet: string constants `\x…` in the quoter's body
	rel, _ := core.RelOfPkg(quoter.Pkg())
	pq, qd := c.FindDecl(rel, core.N(quoter))
	if qd == nil {
		r.Unknown("StringValue/alphabet", cl.Pos(), "quoter body not found")
		return
	}
	writer := map[string]bool{}
	escapesChar := map[rune]bool{}
	hasCtl := false
	// the escape table may be a switch in the body or a package-level map literal the body indexes
	var tableLits []ast.Node
	ast.Inspect(qd.Body, func(x ast.Node) bool {
		ie, ok := x.(*ast.IndexExpr)
		if !ok {
			return true
		}
		if v, ok := core.ObjOf(pq.TypesInfo, ie.X).(*types.Var); ok && v.Parent() == pq.Types.Scope() {
			for _, f := range pq.Syntax {
				for _, d := range f.Decls {
					gd, ok := d.(*ast.GenDecl)
					if !ok {
						continue
					}
					for _, sp := range gd.Specs {
						vs, ok := sp.(*ast.ValueSpec)
						if !ok {
							continue
						}
						for i, nm := range vs.Names {
							if pq.TypesInfo.Defs[nm] == types.Object(v) && i < len(vs.Values) {
								tableLits = append(tableLits, vs.Values[i])
							}
						}
					}
				}
			}
		}
		return true
	})
	for _, tl := range tableLits {
		ast.Inspect(tl, func(x ast.Node) bool {
			kv, ok := x.(*ast.KeyValueExpr)
			if !ok {
				return true
			}
			if tv, ok := pq.TypesInfo.Types[kv.Key]; ok && tv.Value != nil && tv.Value.Kind() == constant.Int {
				v, _ := constant.Int64Val(tv.Value)
				escapesChar[rune(v)] = true
			}
			if tv, ok := pq.TypesInfo.Types[kv.Value]; ok && tv.Value != nil && tv.Value.Kind() == constant.String {
				if sv := constant.StringVal(tv.Value); len(sv) >= 2 && sv[0] == '\\' {
					writer[string(sv[1])] = true
				}
			}
			return true
		})
	}
	ast.Inspect(qd.Body, func(x ast.Node) bool {
		switch y := x.(type) {
		case *ast.BasicLit:
			if tv, ok := pq.TypesInfo.Types[y]; ok && tv.Value != nil && tv.Value.Kind() == constant.String {
				s := constant.StringVal(tv.Value)
				if len(s) >= 2 && s[0] == '\\' {
					writer[string(s[1])] = true
				}
			}
		case *ast.CaseClause:
			for _, e := range y.List {
				if tv, ok := pq.TypesInfo.Types[e]; ok && tv.Value != nil && tv.Value.Kind() == constant.Int {
					v, _ := constant.Int64Val(tv.Value)
					escapesChar[rune(v)] = true
				}
			}
		case *ast.BinaryExpr:
			if y.Op == token.LSS || y.Op == token.LEQ {
				if tv, ok := pq.TypesInfo.Types[y.Y]; ok && tv.Value != nil {
					if v, ok := constant.Int64Val(tv.Value); ok && (v == 0x20 || v == 0x1f) {
						hasCtl = true
					}
				}
			}
		}
		return true
	})
	// reader alphabet: case constants of the switch on the character after a backslash in readString
	pl, rd := c.FindDecl("language/lexer", "readString")
	reader := map[string]bool{}
	if rd != nil {
		ast.Inspect(rd.Body, func(x ast.Node) bool {
			sw, ok := x.(*ast.SwitchStmt)
			if !ok {
				return true
			}
			for _, cl := range sw.Body.List {
				for _, e := range cl.(*ast.CaseClause).List {
					if tv, ok := pl.TypesInfo.Types[e]; ok && tv.Value != nil && tv.Value.Kind() == constant.Int {
						v, _ := constant.Int64Val(tv.Value)
						reader[string(rune(v))] = true
					}
				}
			}
			return true
		})
	}
	if len(reader) < 5 {
		r.Unknown("StringValue/alphabet", cl.Pos(), "could not extract the lexer's escape alphabet")
		return
	}
	var extra []string
	for w := range writer {
		if !reader[w] {
			extra = append(extra, `\`+w)
		}
	}
	r.Check(len(extra) == 0 && len(writer) >= 3, "StringValue/alphabet", qd.Pos(),
		fmt.Sprintf("writer escapes {%s} ⊆ lexer escapes {%s}", core.Join(core.SortedKeys(writer)), core.Join(core.SortedKeys(reader))),
		"the string writer emits escape sequence(s) "+core.Join(extra)+" that the lexer does not accept")
	r.Check(escapesChar['"'] && escapesChar['\\'], "StringValue/escapes-quote-backslash", qd.Pos(), "quote and backslash are escaped",
		"the string writer does not escape both the quote and the backslash: such values print as unparseable or different strings")
	r.Check(hasCtl && escapesChar['\n'] && escapesChar['\r'], "StringValue/escapes-control", qd.Pos(), "line terminators and all control characters below U+0020 are escaped",
		"the string writer does not escape every control character below U+0020 (the lexer rejects them raw and a newline ends the string)")
	// no exit of the quoter returns the input text itself (whole, concatenated or sliced): every byte goes through the escaping switch
	if qf := c.Func(rel, core.N(quoter)); qf != nil {
		var raw *ssa.Return
		for _, ret := range core.Returns(qf) {
			if len(ret.Results) == 1 && carriesStringParam(core.RetVal(ret, 0), map[ssa.Value]bool{}) && raw == nil {
				raw = ret
			}
		}
		if raw != nil {
			r.Bad("StringValue/no-raw-return", raw.Pos(), "%s has an exit that returns its input text itself (a fast path around the escaping loop): whatever that path's test does not list — the control characters U+0000-U+0007, U+000B, U+000E-U+001F among them — is printed raw and the lexer rejects it", core.N(quoter))
		} else {
			r.OK("StringValue/no-raw-return", qd.Pos(), "every exit returns text assembled by the escaping loop")
		}
	}
}

// carriesStringParam: v is a string parameter, or is built from one by concatenation, slicing or a phi.
func carriesStringParam(v ssa.Value, seen map[ssa.Value]bool) bool {
	if v == nil || seen[v] {
		return false
	}
	seen[v] = true
	switch x := v.(type) {
	case *ssa.Parameter:
		b, ok := x.Type().Underlying().(*types.Basic)
		return ok && b.Kind() == types.String
	case *ssa.BinOp:
		return x.Op == token.ADD && (carriesStringParam(x.X, seen) || carriesStringParam(x.Y, seen))
	case *ssa.Phi:
		for _, e := range x.Edges {
			if carriesStringParam(e, seen) {
				return true
			}
		}
	case *ssa.Slice:
		return carriesStringParam(x.X, seen)
	case *ssa.ChangeType:
		return carriesStringParam(x.X, seen)
	}
	return false
}

func c08BlockQuote(c *core.Ctx, r *core.Reporter) {
	p, fd := c.FindDecl("language/printer", "getDescription")
	if fd == nil {
		r.Unknown("getDescription", token.NoPos, "not found")
		return
	}
	info := p.TypesInfo
	// "before" is the order in which the statements are met walking getDescription and, at their call, the phases it has
	// been split into
	var replPos, wrapPos token.Pos
	seq := token.Pos(0)
	c.InspectWithFresh(info, fd.Body, func(x ast.Node) bool {
		call, ok := x.(*ast.CallExpr)
		if !ok {
			return true
		}
		seq++
		f := core.CalleeObj(info, call)
		if f != nil && f.Pkg() != nil && f.Pkg().Path() == "strings" && (core.N(f) == "Replace" || core.N(f) == "ReplaceAll") && len(call.Args) >= 3 {
			if constString(info, call.Args[1]) == `"""` && strings.Contains(constString(info, call.Args[2]), `\"""`) {
				replPos = seq
			}
		}
		// wrapping: a composite literal / concatenation containing the `"""` constant
		if f != nil && core.N(f) == "join" {
			if strings.Count(core.ExprString(call), "`\"\"\"`") >= 2 || strings.Contains(core.ExprString(call), `"\"\"\""`) {
				wrapPos = seq
			}
		}
		return true
	})
	if wrapPos == token.NoPos {
		// fall back: any use of the `"""` constant twice in one expression
		seq = 0
		c.InspectWithFresh(info, fd.Body, func(x ast.Node) bool {
			if _, isCall := x.(*ast.CallExpr); isCall {
				seq++
			}
			if cl, ok := x.(*ast.CompositeLit); ok {
				n := 0
				for _, e := range cl.Elts {
					if constString(info, e) == `"""` {
						n++
					}
				}
				if n >= 2 {
					wrapPos = seq + 1
				}
			}
			return true
		})
	}
	if wrapPos == token.NoPos {
		r.Unknown("getDescription/wrap", fd.Pos(), "could not find where the description is wrapped in triple quotes")
		return
	}
	r.Check(replPos != token.NoPos && replPos < wrapPos, "getDescription/escape-triple-quote", fd.Pos(),
		"triple quotes in the text are replaced by \\\"\"\" before wrapping",
		"the description text is wrapped in triple quotes without escaping a triple quote inside it: such a description prints as text that does not parse back")
}

func c08NoEdit(c *core.Ctx, r *core.Reporter) {
	tab, info, _ := reducerTable(c)
	var kinds []string
	for k := range tab {
		kinds = append(kinds, k)
	}
	sort.Strings(kinds)
	nodeIface := c.Named("language/ast", "Node").Underlying().(*types.Interface)
	for _, k := range kinds {
		fl := tab[k]
		bad := ""
		ast.Inspect(fl.Body, func(x ast.Node) bool {
			if _, ok := x.(*ast.FuncLit); ok && x != ast.Node(fl) {
				return false
			}
			ret, ok := x.(*ast.ReturnStmt)
			if !ok || len(ret.Results) != 2 {
				return true
			}
			act := constString(info, ret.Results[0])
			if tv, ok := info.Types[ret.Results[0]]; !ok || tv.Value == nil {
				bad = "returns a computed action"
				return true
			}
			switch act {
			case "":
				if !isNilIdent(info, ret.Results[1]) {
					bad = "returns a value with ActionNoChange"
				}
			case "UPDATE":
				t := info.TypeOf(ret.Results[1])
				if t != nil && (types.Implements(t, nodeIface) || (!types.IsInterface(t) && types.Implements(types.NewPointer(t), nodeIface))) {
					bad = "returns an AST node as replacement (the visitor would write it into the original tree)"
				} else if b, isBasic := t.Underlying().(*types.Basic); t != nil && !types.IsInterface(t) && (!isBasic || b.Info()&types.IsString == 0) {
					// the reduced form of a node is text: the parent reducers join strings (toSliceString keeps strings only) and
					// the visitor reads any other replacement value by its own rules (a bool `true` deletes the element)
					bad = "returns a " + t.String() + " as the printed form of the node, not a string (parents join strings only; the visitor treats other values as edit instructions)"
				}
			default:
				bad = "returns action " + act
			}
			return true
		})
		r.Check(bad == "", "noedit/"+k, fl.Pos(), "returns only (ActionUpdate, non-node value) or (ActionNoChange, nil)",
			"the reducer for "+k+" "+bad+": printing can then modify the AST it is given or cut the traversal short")
	}
}

func init() {
	register(&core.Rule{Name: "C08/FLOW-shortform", Props: []string{"C08"}, Min: 1, // one, so that folding the two identical copies into a helper stays quiet
		Doc: "a short form that prints one part alone is guarded by a test of every part it omits", Run: c08ShortForm})
}

// c08ShortForm: in the printer, wherever one branch yields a single printed part X alone and the other branch joins X
// with further parts Y1..Yn, the condition selecting the short branch must test every Yi: a part that is not tested is
// silently dropped from the output whenever it is non-empty.
func c08ShortForm(c *core.Ctx, r *core.Reporter) {
	p := c.Pkg("language/printer")
	if p == nil {
		r.Unknown("printer", token.NoPos, "package not loaded")
		return
	}
	info := p.TypesInfo
	isString := func(e ast.Expr) bool {
		b, ok := info.TypeOf(e).Underlying().(*types.Basic)
		return ok && b.Info()&types.IsString != 0
	}
	// yielded: the statement list is exactly one statement handing on a single string identifier
	yielded := func(list []ast.Stmt) types.Object {
		if len(list) != 1 {
			return nil
		}
		var e ast.Expr
		switch s := list[0].(type) {
		case *ast.ReturnStmt:
			if len(s.Results) == 0 {
				return nil
			}
			e = s.Results[len(s.Results)-1]
		case *ast.AssignStmt:
			if len(s.Rhs) != 1 {
				return nil
			}
			e = s.Rhs[0]
		default:
			return nil
		}
		id, ok := ast.Unparen(e).(*ast.Ident)
		if !ok || !isString(id) {
			return nil
		}
		return info.Uses[id]
	}
	// parts: string identifiers inside join([]string{...}) expressions of the statements
	parts := func(list []ast.Stmt) map[types.Object]string {
		out := map[types.Object]string{}
		for _, st := range list {
			ast.Inspect(st, func(n ast.Node) bool {
				call, ok := n.(*ast.CallExpr)
				if !ok {
					return true
				}
				f := core.CalleeObj(info, call)
				if f == nil || core.N(f) != "join" || len(call.Args) == 0 {
					return true
				}
				ast.Inspect(call.Args[0], func(m ast.Node) bool {
					if id, ok := m.(*ast.Ident); ok {
						if o, isVar := info.Uses[id].(*types.Var); isVar && isString(id) {
							out[o] = id.Name
						}
					}
					return true
				})
				return true
			})
		}
		return out
	}
	n := 0
	for _, f := range p.Syntax {
		core.WalkStack(f, func(node ast.Node, stack []ast.Node) bool {
			ifs, ok := node.(*ast.IfStmt)
			if !ok {
				return true
			}
			x := yielded(ifs.Body.List)
			if x == nil {
				return true
			}
			var alt []ast.Stmt
			switch e := ifs.Else.(type) {
			case *ast.BlockStmt:
				alt = e.List
			case nil:
				// statements following the if in the enclosing block
				if len(stack) >= 2 {
					if blk, ok := stack[len(stack)-2].(*ast.BlockStmt); ok {
						for i, st := range blk.List {
							if st == ast.Stmt(ifs) {
								alt = blk.List[i+1:]
							}
						}
					}
				}
			}
			ps := parts(alt)
			if _, has := ps[x]; !has || len(ps) < 2 {
				return true
			}
			tested := map[types.Object]bool{}
			ast.Inspect(ifs.Cond, func(m ast.Node) bool {
				if id, ok := m.(*ast.Ident); ok {
					tested[info.Uses[id]] = true
				}
				return true
			})
			var miss []string
			for o, name := range ps {
				if o != x && !tested[o] {
					miss = append(miss, name)
				}
			}
			sort.Strings(miss)
			n++
			key := fmt.Sprintf("short-form#%d/%s", n, core.N(x))
			r.Check(len(miss) == 0, key, ifs.Pos(),
				fmt.Sprintf("the branch printing %s alone tests every other part of the long form (%d parts)", core.N(x), len(ps)-1),
				fmt.Sprintf("the branch that prints %s alone does not test %s, which the long form prints: whenever that part is non-empty it is silently dropped from the printed text (the text still parses, to a different document)", core.N(x), core.Join(miss)))
			return true
		})
	}
}

package rules

import (
	"fmt"
	"go/ast"
	"go/token"
	"go/types"
	"sort"
	"strings"

	"golang.org/x/tools/go/ssa"

	"verif/gqlvet/core"
)

func init() {
	docs["C02"] = Doc{
		Explanation: "Whether each rule's predicate is the spec's predicate is NOT decided. Decided: " +
			"(EXH-rules) SpecifiedRules contains every package-level function of the rule signature exactly once (per-rule tests call the functions directly, so dropping one from the slice keeps them green); " +
			"(TAB-kinds) in every visitor.VisitorOptions literal of the package each KindFuncMap / EnterKindMap / LeaveKindMap key is a kinds constant and every concrete node type asserted on p.Node inside that callback is the struct of that kind (a mismatch is a rule that never fires); " +
			"(LIT-located) every reportError / newValidationError call passes a node list that is non-empty by construction; " +
			"(FLOW-overlap) the overlap algorithm's steps A–J are all present with the operands the documented algorithm prescribes (which collection of fields, which fragment list, both directions for G and I, the exclusivity flag passed through); " +
			"(REC-memo, shared with C19) the overlap memos are sound w.r.t. the exclusivity flag; (PAIR-typeinfo, shared with C14) type tracking pushes and pops agree; (EXH-literal, shared with C05) literal validity covers every input kind.",
		NotDecided: "the content of each rule predicate; doTypesOverlap / isTypeSubTypeOf correctness.",
	}
	register(&core.Rule{Name: "C02/EXH-rules", Props: []string{"C02"}, Min: 24,
		Doc: "the rule registry contains every rule function exactly once", Run: c02Rules})
	register(&core.Rule{Name: "C02/TAB-kinds", Props: []string{"C02"}, Min: 40,
		Doc: "visitor keys are kinds constants matching the node type asserted in the callback", Run: c02Kinds})
	register(&core.Rule{Name: "C02/LIT-located", Props: []string{"C02", "C18"}, Min: 30,
		Doc: "every validation report carries at least one node", Run: c02Located})
	register(&core.Rule{Name: "C02/FLOW-overlap", Props: []string{"C02"}, Min: 13,
		Doc: "overlap algorithm steps A–J present with the prescribed operands", Run: c02Overlap})
}

func c02Rules(c *core.Ctx, r *core.Reporter) {
	p := c.Pkg("")
	ruleFn := c.Named("", "ValidationRuleFn")
	if ruleFn == nil {
		r.Unknown("ValidationRuleFn", token.NoPos, "type not found")
		return
	}
	sig := ruleFn.Underlying().(*types.Signature)
	// all package-level funcs with that signature
	want := map[string]token.Pos{}
	sc := p.Types.Scope()
	for _, n := range sc.Names() {
		f, ok := sc.Lookup(n).(*types.Func)
		if !ok {
			continue
		}
		if types.Identical(f.Type().(*types.Signature), sig) {
			want[n] = f.Pos()
		}
	}
	// registry contents
	have := map[string]int{}
	var regPos token.Pos
	for _, f := range p.Syntax {
		for _, d := range f.Decls {
			gd, ok := d.(*ast.GenDecl)
			if !ok {
				continue
			}
			for _, sp := range gd.Specs {
				vs, ok := sp.(*ast.ValueSpec)
				if !ok || len(vs.Names) != 1 || vs.Names[0].Name != "SpecifiedRules" || len(vs.Values) != 1 {
					continue
				}
				cl, ok := vs.Values[0].(*ast.CompositeLit)
				if !ok {
					continue
				}
				regPos = cl.Pos()
				for _, e := range cl.Elts {
					if fo, ok := core.ObjOf(p.TypesInfo, e).(*types.Func); ok {
						have[core.N(fo)]++
					}
				}
			}
		}
	}
	if regPos == token.NoPos {
		r.Unknown("SpecifiedRules", token.NoPos, "registry not found")
		return
	}
	var names []string
	for n := range want {
		names = append(names, n)
	}
	sort.Strings(names)
	for _, n := range names {
		switch have[n] {
		case 1:
			r.Exists("SpecifiedRules/"+n, want[n], "registered once")
		case 0:
			r.Bad("SpecifiedRules/"+n, regPos, "rule function %s is not in SpecifiedRules: documents violating it are accepted by ValidateDocument/Do although the rule's own tests pass", n)
		default:
			r.Bad("SpecifiedRules/"+n, regPos, "rule function %s is registered %d times: its errors are reported repeatedly", n, have[n])
		}
	}
	for n := range have {
		if _, ok := want[n]; !ok {
			r.Bad("SpecifiedRules/"+n, regPos, "SpecifiedRules contains %s, which is not a package-level rule function", n)
		}
	}
}

func c02Kinds(c *core.Ctx, r *core.Reporter) {
	p := c.Pkg("")
	info := p.TypesInfo
	kindConsts := map[string]bool{}
	ksc := c.Pkg("language/kinds").Types.Scope()
	for _, n := range ksc.Names() {
		if cst, ok := ksc.Lookup(n).(*types.Const); ok {
			kindConsts[strings.Trim(cst.Val().ExactString(), `"`)] = true
		}
	}
	per := map[string]int{}
	c.FuncDecls(func(rel string, pp *packagesPkg, fd *ast.FuncDecl) {
		if rel != "" {
			return
		}
		ast.Inspect(fd.Body, func(n ast.Node) bool {
			cl, ok := n.(*ast.CompositeLit)
			if !ok {
				return true
			}
			t := info.TypeOf(cl)
			m, ok := t.Underlying().(*types.Map)
			if !ok {
				return true
			}
			elem := core.QualName(m.Elem())
			if elem != "visitor.NamedVisitFuncs" && elem != "visitor.VisitFunc" {
				return true
			}
			for _, el := range cl.Elts {
				kv, ok := el.(*ast.KeyValueExpr)
				if !ok {
					continue
				}
				kind := constString(info, kv.Key)
				per[fd.Name.Name+"/"+kind]++
				key := fd.Name.Name + "/" + kind
				if per[key] > 1 {
					key = fmt.Sprintf("%s#%d", key, per[key])
				}
				if kind == "" || !kindConsts[kind] {
					r.Bad(key, kv.Pos(), "visitor map key %s is not a kinds constant: the callback never fires", core.ExprString(kv.Key))
					continue
				}
				if _, isConst := core.ObjOf(info, kv.Key).(*types.Const); !isConst {
					r.Bad(key, kv.Pos(), "visitor map key is a string literal rather than a kinds constant")
					continue
				}
				// concrete node types asserted on p.Node inside the callbacks
				mismatch := ""
				ast.Inspect(kv.Value, func(x ast.Node) bool {
					ta, ok := x.(*ast.TypeAssertExpr)
					if !ok || ta.Type == nil {
						return true
					}
					se, ok := ta.X.(*ast.SelectorExpr)
					if !ok || se.Sel.Name != "Node" {
						return true
					}
					at := info.TypeOf(ta.Type)
					if at == nil || types.IsInterface(at) {
						return true
					}
					if tn := core.TypeName(at); tn != kind {
						mismatch = tn
					}
					return true
				})
				r.Check(mismatch == "", key, kv.Pos(), "callback registered for the kind of the node type it asserts",
					fmt.Sprintf("callback registered under kind %s asserts p.Node.(*ast.%s): the assertion never succeeds, so the rule silently never checks anything", kind, mismatch))
			}
			return true
		})
	})
}

func c02Located(c *core.Ctx, r *core.Reporter) {
	targets := map[*ssa.Function]int{}
	for name, idx := range map[string]int{"reportError": 2, "newValidationError": 1} {
		if f := c.Func("", name); f != nil {
			targets[f] = idx
		} else {
			r.Unknown(name, token.NoPos, "not found")
		}
	}
	per := map[string]int{}
	for _, fn := range c.LibFuncs() {
		for _, ci := range core.CallSites(fn) {
			idx, ok := targets[ci.Common().StaticCallee()]
			if !ok {
				continue
			}
			if fnKey(fn) == "reportError" {
				continue // forwards its own parameter
			}
			root := fnKey(fn)
			per[root]++
			key := fmt.Sprintf("%s/report#%d", root, per[root])
			arg := ci.Common().Args[idx]
			empty := false
			for _, cl := range core.Classes(arg) {
				if cl == "nil" || cl == "make" {
					empty = true
				}
			}
			// []ast.Node{} literal: slice of a zero-length array
			if sl, ok := arg.(*ast2Slice); ok {
				_ = sl
			}
			if s, ok := arg.(*ssa.Slice); ok {
				if al, ok := s.X.(*ssa.Alloc); ok {
					if arr, ok := al.Type().(*types.Pointer).Elem().Underlying().(*types.Array); ok && arr.Len() == 0 {
						empty = true
					}
				}
			}
			r.Check(!empty, key, ci.Pos(), "node list non-empty by construction (literal with elements, append chain or collected nodes)",
				"this report passes an empty / nil node list: the error carries no location")
		}
	}
}

type ast2Slice struct{ ssa.Value }

// overlap step table
func c02Overlap(c *core.Ctx, r *core.Reporter) {
	T := "overlappingFieldsCanBeMergedRule."
	fn := func(n string) *ssa.Function { return c.Func("", T+n) }
	within := fn("findConflictsWithinSelectionSet")
	ff := fn("collectConflictsBetweenFieldsAndFragment")
	frfr := fn("collectConflictsBetweenFragments")
	sub := fn("findConflictsBetweenSubSelectionSets")
	cw := fn("collectConflictsWithin")
	cb := fn("collectConflictsBetween")
	gf := fn("getFieldsAndFragmentNames")
	gr := fn("getReferencedFieldsAndFragmentNames")
	fc := fn("findConflict")
	fragFn := c.Func("", "ValidationContext.Fragment")
	for n, f := range map[string]*ssa.Function{"within": within, "ff": ff, "frfr": frfr, "sub": sub, "cw": cw, "cb": cb, "gf": gf, "gr": gr, "findConflict": fc, "Fragment": fragFn} {
		if f == nil {
			r.Unknown("overlap/"+n, token.NoPos, "function not found")
			return
		}
		// the step table talks about parameters by their pinned position: every one of them must still exist
		for i := range f.Params {
			if _, ok := c.ArgIndex(f, i); !ok {
				r.Unknown("overlap/"+n, f.Pos(), "the signature of %s changed in a way the step table cannot follow (parameters bundled or dropped): re-confirm steps A–J against the new signature", f.Name())
				return
			}
		}
	}
	// helpers ------------------------------------------------------------
	// namesBase: v is an element of X.fragmentNames -> returns X
	namesBase := func(v ssa.Value) ssa.Value {
		for _, o := range core.Origins(v) {
			u, ok := o.(*ssa.UnOp)
			if !ok || u.Op != token.MUL {
				continue
			}
			ia, ok := u.X.(*ssa.IndexAddr)
			if !ok {
				continue
			}
			base := ia.X
			for { // `names[i+1:]`: an element of a tail of the slice is an element of the slice
				sl, ok := base.(*ssa.Slice)
				if !ok {
					break
				}
				base = sl.X
			}
			for _, so := range core.Origins(base) {
				if sl, ok := so.(*ssa.Slice); ok {
					for _, inner := range core.Origins(sl.X) {
						if su, ok := inner.(*ssa.UnOp); ok {
							if fa, ok := su.X.(*ssa.FieldAddr); ok && core.FieldOf(fa) != nil && core.N(core.FieldOf(fa)) == "fragmentNames" {
								return fa.X
							}
						}
					}
				}
				su, ok := so.(*ssa.UnOp)
				if !ok {
					continue
				}
				fa, ok := su.X.(*ssa.FieldAddr)
				if ok && core.FieldOf(fa) != nil && core.N(core.FieldOf(fa)) == "fragmentNames" {
					return fa.X
				}
			}
		}
		return nil
	}
	isCallTo := func(v ssa.Value, f *ssa.Function) *ssa.Call {
		call, ok := v.(*ssa.Call)
		if ok && call.Call.StaticCallee() == f {
			return call
		}
		return nil
	}
	// positions are those of the pinned signatures; they follow the parameter names when a signature is reordered
	param := func(f *ssa.Function, i int) ssa.Value {
		if j, ok := c.ArgIndex(f, i); ok && j < len(f.Params) {
			return f.Params[j]
		}
		return nil
	}
	argOf := func(call *ssa.Call, i int) ssa.Value {
		if call == nil {
			return nil
		}
		if j, ok := c.ArgIndex(call.Call.StaticCallee(), i); ok && j < len(call.Call.Args) {
			return call.Call.Args[j]
		}
		return nil
	}
	_ = argOf
	sites := func(caller, callee *ssa.Function) []*ssa.Call {
		var out []*ssa.Call
		for _, ci := range core.CallsTo(caller, callee, false) {
			if call, ok := ci.(*ssa.Call); ok {
				out = append(out, call)
			}
		}
		return out
	}
	// referenced(f, nameParam): value is getReferenced…(Fragment(nameParam))
	referencedOf := func(v ssa.Value, nameParam ssa.Value) bool {
		call := isCallTo(v, gr)
		if call == nil {
			return false
		}
		fcall := isCallTo(argOf(call, 1), fragFn)
		return fcall != nil && argOf(fcall, 1) == nameParam
	}
	fieldsOfSel := func(v ssa.Value, selParam ssa.Value) bool {
		call := isCallTo(v, gf)
		return call != nil && argOf(call, 2) == selParam
	}
	check := func(step string, ok bool, pos token.Pos, good, bad string) {
		r.Check(ok, step, pos, good, "overlap algorithm step "+step+": "+bad+" — conflicts on some fragment topology are never compared (conflicting documents accepted) ")
	}
	// A, B, C in findConflictsWithinSelectionSet --------------------------------
	{
		fi := sites(within, gf)
		a := sites(within, cw)
		okA := len(fi) == 1 && len(a) == 1 && argOf(a[0], 2) == ssa.Value(fi[0])
		if cw == within && len(fi) == 1 {
			// collectConflictsWithin has been inlined here: the pairwise comparison itself (findConflict in nested loops over
			// the field map of this selection set's own fields) must be in this function
			for _, call := range sites(within, fc) {
				n := 0
				for _, l := range core.Loops(within) {
					if l[call.Block()] {
						n++
					}
				}
				if n >= 2 {
					okA = true
				}
			}
		}
		check("A", okA, within.Pos(),
			"the selection set's own fields are compared within themselves", "collectConflictsWithin is not applied to the fields of the visited selection set")
		b := sites(within, ff)
		okB := len(b) == 1 && len(fi) == 1
		if okB {
			okB = argOf(b[0], 3) == ssa.Value(fi[0]) && namesBase(argOf(b[0], 4)) == ssa.Value(fi[0]) && core.InAnyLoop(b[0].Block())
			if cst, isC := argOf(b[0], 2).(*ssa.Const); !isC || cst.Value.String() != "false" {
				okB = false
			}
		}
		check("B", okB, within.Pos(), "fields vs each spread fragment of the same selection set, non-exclusive",
			"the selection set's fields are not compared (non-exclusively) with each fragment it spreads")
		cc := sites(within, frfr)
		okC := len(cc) == 1 && len(fi) == 1
		if okC {
			okC = namesBase(argOf(cc[0], 3)) == ssa.Value(fi[0]) && namesBase(argOf(cc[0], 4)) == ssa.Value(fi[0]) && argOf(cc[0], 3) != argOf(cc[0], 4)
			// nested loops
			n := 0
			for _, l := range core.Loops(within) {
				if l[cc[0].Block()] {
					n++
				}
			}
			okC = okC && n >= 2
		}
		check("C", okC, within.Pos(), "every pair of fragments spread in the selection set is compared", "pairs of fragments spread together are not all compared")
	}
	// D, E in collectConflictsBetweenFieldsAndFragment (params: rule, conflicts, flag, fieldsInfo, fragmentName)
	{
		flag, fields, name := param(ff, 2), param(ff, 3), param(ff, 4)
		d := sites(ff, cb)
		okD := len(d) == 1 && argOf(d[0], 2) == flag && argOf(d[0], 3) == fields && referencedOf(argOf(d[0], 4), name)
		check("D", okD, ff.Pos(), "original fields vs the fields of the referenced fragment", "collectConflictsBetween is not called with (the given fields, the referenced fragment's fields, the given exclusivity)")
		e := sites(ff, ff)
		okE := len(e) == 1
		if okE {
			base := namesBase(argOf(e[0], 4))
			okE = argOf(e[0], 2) == flag && argOf(e[0], 3) == fields && base != nil && referencedOf(base, name) && core.InAnyLoop(e[0].Block())
		}
		pos := ff.Pos()
		if len(e) > 0 {
			pos = e[0].Pos()
		}
		check("E", okE, pos, "original fields vs every fragment nested in the referenced fragment",
			"the recursion into fragments spread by the referenced fragment must keep comparing the ORIGINAL collection of fields (its fieldsInfo parameter) with each nested fragment name")
	}
	// F, G in collectConflictsBetweenFragments (params: rule, conflicts, flag, name1, name2)
	{
		flag, n1, n2 := param(frfr, 2), param(frfr, 3), param(frfr, 4)
		f := sites(frfr, cb)
		okF := len(f) == 1 && argOf(f[0], 2) == flag && referencedOf(argOf(f[0], 3), n1) && referencedOf(argOf(f[0], 4), n2)
		check("F", okF, frfr.Pos(), "fields of fragment 1 vs fields of fragment 2", "the two fragments' own fields are not compared with each other")
		gs := sites(frfr, frfr)
		g1, g2 := false, false
		for _, g := range gs {
			if argOf(g, 2) != flag || !core.InAnyLoop(g.Block()) {
				continue
			}
			if argOf(g, 3) == n1 {
				if b := namesBase(argOf(g, 4)); b != nil && referencedOf(b, n2) {
					g1 = true
				}
			}
			if argOf(g, 4) == n2 {
				if b := namesBase(argOf(g, 3)); b != nil && referencedOf(b, n1) {
					g2 = true
				}
			}
		}
		check("G1", g1 && len(gs) == 2, frfr.Pos(), "fragment 1 vs every fragment nested in fragment 2", "fragment 1 is not compared with the fragments spread inside fragment 2")
		check("G2", g2 && len(gs) == 2, frfr.Pos(), "fragment 2 vs every fragment nested in fragment 1", "fragment 2 is not compared with the fragments spread inside fragment 1")
	}
	// H, I, J in findConflictsBetweenSubSelectionSets (params: rule, flag, pt1, sel1, pt2, sel2)
	{
		flag, s1, s2 := param(sub, 1), param(sub, 3), param(sub, 5)
		h := sites(sub, cb)
		okH := len(h) == 1 && argOf(h[0], 2) == flag && fieldsOfSel(argOf(h[0], 3), s1) && fieldsOfSel(argOf(h[0], 4), s2)
		check("H", okH, sub.Pos(), "fields of the first sub-selection vs fields of the second", "the two sub-selections' fields are not compared")
		is := sites(sub, ff)
		i1, i2 := false, false
		for _, i := range is {
			if argOf(i, 2) != flag || !core.InAnyLoop(i.Block()) {
				continue
			}
			b := namesBase(argOf(i, 4))
			if b == nil {
				continue
			}
			if fieldsOfSel(argOf(i, 3), s1) && fieldsOfSel(b, s2) {
				i1 = true
			}
			if fieldsOfSel(argOf(i, 3), s2) && fieldsOfSel(b, s1) {
				i2 = true
			}
		}
		check("I1", i1 && len(is) == 2, sub.Pos(), "fields of the first vs fragments of the second", "the first sub-selection's fields are not compared with the fragments spread in the second")
		check("I2", i2 && len(is) == 2, sub.Pos(), "fields of the second vs fragments of the first", "the second sub-selection's fields are not compared with the fragments spread in the first")
		js := sites(sub, frfr)
		okJ := len(js) == 1
		if okJ {
			b1, b2 := namesBase(argOf(js[0], 3)), namesBase(argOf(js[0], 4))
			okJ = argOf(js[0], 2) == flag && b1 != nil && b2 != nil && fieldsOfSel(b1, s1) && fieldsOfSel(b2, s2)
			n := 0
			for _, l := range core.Loops(sub) {
				if l[js[0].Block()] {
					n++
				}
			}
			okJ = okJ && n >= 2
		}
		check("J", okJ, sub.Pos(), "every fragment of the first vs every fragment of the second", "fragments of the two sub-selections are not compared pairwise")
	}
	// findConflict descends into sub-selections with the computed exclusivity
	{
		var cs []*ssa.Call
		for _, g := range c.Region(fc) { // findConflict or a phase split off it
			cs = append(cs, sites(g, sub)...)
		}
		ok := len(cs) == 1
		if ok {
			// flag argument is not the raw parameter alone: it must include the parent-type test (a phi / binop)
			onlyParam, _ := core.OnlyClasses(argOf(cs[0], 1), "param:bool")
			ok = !onlyParam && core.HasClass(argOf(cs[0], 3), "field:Field.SelectionSet") && core.HasClass(argOf(cs[0], 5), "field:Field.SelectionSet") && argOf(cs[0], 3) != argOf(cs[0], 5)
		}
		check("findConflict->sub-selections", ok, fc.Pos(), "both fields' sub-selections are compared under the computed mutual exclusivity",
			"findConflict does not compare the two fields' own sub-selections with the exclusivity computed from the parent types")
	}
}

// ruleRegistrations lists "RuleFn/kind/phase" for every visitor callback registered by a
// function of the rule signature (phase = Kind | Enter | Leave | EnterKindMap | LeaveKindMap).
func ruleRegistrations(c *core.Ctx) map[string]token.Pos {
	out := map[string]token.Pos{}
	p := c.Pkg("")
	info := p.TypesInfo
	c.FuncDecls(func(rel string, pp *packagesPkg, fd *ast.FuncDecl) {
		if rel != "" {
			return
		}
		ast.Inspect(fd.Body, func(n ast.Node) bool {
			cl, ok := n.(*ast.CompositeLit)
			if !ok {
				return true
			}
			m, ok := info.TypeOf(cl).Underlying().(*types.Map)
			if !ok {
				return true
			}
			switch core.QualName(m.Elem()) {
			case "visitor.NamedVisitFuncs":
				for _, el := range cl.Elts {
					kv, ok := el.(*ast.KeyValueExpr)
					if !ok {
						continue
					}
					kind := constString(info, kv.Key)
					if v, ok := kv.Value.(*ast.CompositeLit); ok {
						for _, e2 := range v.Elts {
							if kv2, ok := e2.(*ast.KeyValueExpr); ok {
								if id, ok := kv2.Key.(*ast.Ident); ok {
									out[fd.Name.Name+"/"+kind+"/"+id.Name] = kv2.Pos()
								}
							}
						}
					}
				}
			case "visitor.VisitFunc":
				for _, el := range cl.Elts {
					if kv, ok := el.(*ast.KeyValueExpr); ok {
						out[fd.Name.Name+"/"+constString(info, kv.Key)+"/map"] = kv.Pos()
					}
				}
			}
			return true
		})
	})
	return out
}

// RuleRegistrations is exported for the table generator.
func RuleRegistrations(c *core.Ctx) map[string]token.Pos { return ruleRegistrations(c) }

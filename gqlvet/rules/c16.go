package rules

import (
	"go/ast"
	"go/constant"
	"go/token"
	"go/types"
	"strings"

	"golang.org/x/tools/go/ssa"

	"verif/gqlvet/core"
)

func init() {
	docs["C16"] = Doc{
		Explanation: "Decides the four-part channel protocol in ExecutePlan that makes 'full response or context error' hold in every schedule: " +
			"(CHAN-once) the worker goroutine has exactly one send site on the result channel, a direct statement of the function deferred first in the goroutine, after that function's recover(); " +
			"(CHAN-cap) the channel's constant capacity >= the number of send sites, so the worker never blocks after the caller left; " +
			"(DOM-select) the caller's only receive is an arm of a blocking two-arm select whose other arm is <-ctx.Done(); the Done arm returns a freshly allocated Result with no Data and ctx.Err() in Errors, the receive arm returns the received pointer unchanged; ctx defaults to context.Background() when nil; " +
			"(OWN-partial) the worker closure does not capture the caller's named result and the worker's Result escapes only through the channel.",
		NotDecided: "promptness in time units; what resolvers that ignore the context do in the background; completeness of the full response (C01/C04). Schedules are not explored.",
	}
	register(&core.Rule{Name: "C16/CHAN-once", Props: []string{"C16", "C09"}, Min: 4,
		Doc: "worker goroutine publishes exactly one result, from its first deferred function, after recover()", Run: c16Once})
	register(&core.Rule{Name: "C16/CHAN-cap", Props: []string{"C16", "C15"}, Min: 1,
		Doc: "result channel capacity >= send sites of the worker", Run: c16Cap})
	register(&core.Rule{Name: "C16/DOM-select", Props: []string{"C16", "C09"}, Min: 6,
		Doc: "caller returns from a blocking two-arm select {ctx.Done, result}; Done arm returns a fresh Result without Data carrying ctx.Err()", Run: c16Select})
	register(&core.Rule{Name: "C16/OWN-partial", Props: []string{"C16"}, Min: 2,
		Doc: "worker closure does not capture the caller's named result; its Result escapes only through the channel", Run: c16Partial})
}

// execPlanShape extracts the pieces of ExecutePlan the C16 rules talk about.
type execPlanShape struct {
	info    *types.Info
	fd      *ast.FuncDecl
	chanObj types.Object // resultChannel
	chanCap int64
	capPos  token.Pos
	goStmts []*ast.GoStmt
	worker     ast.Node       // the function started by the go statement: a literal, or the declaration of a named function
	workerBody *ast.BlockStmt
	workerChan types.Object   // the result channel as the worker names it (the captured variable, or its parameter)
	sends      []*ast.SendStmt // sends on the result channel anywhere in worker
}

func loadExecPlan(c *core.Ctx) *execPlanShape {
	p, fd := c.FindDecl("", "ExecutePlan")
	if fd == nil {
		return nil
	}
	s := &execPlanShape{info: p.TypesInfo, fd: fd, chanCap: -1}
	resultT := c.Named("", "Result")
	// channel variables of type chan *Result created by make in the body (outside literals)
	core.WalkStack(fd.Body, func(n ast.Node, stack []ast.Node) bool {
		switch x := n.(type) {
		case *ast.FuncLit:
			return false
		case *ast.AssignStmt:
			for i, rhs := range x.Rhs {
				call, ok := rhs.(*ast.CallExpr)
				if !ok || !core.IsBuiltinCall(s.info, call, "make") || i >= len(x.Lhs) {
					continue
				}
				ch, ok := s.info.TypeOf(call).Underlying().(*types.Chan)
				if !ok || !core.IsNamed(ch.Elem(), resultT.Obj().Pkg().Path(), "Result") {
					continue
				}
				s.chanObj = core.ObjOf(s.info, x.Lhs[i])
				s.capPos = call.Pos()
				s.chanCap = 0
				if len(call.Args) > 1 {
					if tv, ok := s.info.Types[call.Args[1]]; ok && tv.Value != nil && tv.Value.Kind() == constant.Int {
						s.chanCap, _ = constant.Int64Val(tv.Value)
					} else {
						s.chanCap = -1
					}
				}
			}
		case *ast.GoStmt:
			s.goStmts = append(s.goStmts, x)
		}
		return true
	})
	if len(s.goStmts) == 1 {
		call := s.goStmts[0].Call
		if fl, ok := call.Fun.(*ast.FuncLit); ok {
			s.worker, s.workerBody, s.workerChan = fl, fl.Body, s.chanObj
		} else if f := core.CalleeObj(s.info, call); f != nil {
			// `go runPlan(…, resultChannel)`: the worker is a named function of the package, the channel one of its parameters
			if fd := c.DeclOfObj(f); fd != nil && fd.Body != nil {
				s.worker, s.workerBody = fd, fd.Body
				var params []types.Object
				for _, fl := range fd.Type.Params.List {
					for _, nm := range fl.Names {
						params = append(params, s.info.Defs[nm])
					}
				}
				for i, a := range call.Args {
					if core.ObjOf(s.info, a) == s.chanObj && i < len(params) {
						s.workerChan = params[i]
					}
				}
			}
		}
		if s.worker != nil && s.workerChan != nil {
			ast.Inspect(s.worker, func(n ast.Node) bool {
				if snd, ok := n.(*ast.SendStmt); ok && core.ObjOf(s.info, snd.Chan) == s.workerChan {
					s.sends = append(s.sends, snd)
				}
				return true
			})
		}
	}
	return s
}

// hasEffectfulCall reports whether stmt contains a call other than new/make,
// conversions and composite literals (i.e. something that could panic or block
// before the defer is registered).
func hasEffectfulCall(info *types.Info, n ast.Node) bool {
	found := false
	ast.Inspect(n, func(x ast.Node) bool {
		call, ok := x.(*ast.CallExpr)
		if !ok {
			return true
		}
		if tv, ok := info.Types[call.Fun]; ok && tv.IsType() {
			return true
		}
		if core.IsBuiltinCall(info, call, "new") || core.IsBuiltinCall(info, call, "make") || core.IsBuiltinCall(info, call, "len") {
			return true
		}
		found = true
		return false
	})
	return found
}

func c16Once(c *core.Ctx, r *core.Reporter) {
	s := loadExecPlan(c)
	if s == nil || s.chanObj == nil {
		r.Unknown("ExecutePlan", token.NoPos, "ExecutePlan or its result channel not found")
		return
	}
	if len(s.goStmts) != 1 || s.worker == nil {
		r.Unknown("ExecutePlan.worker", s.fd.Pos(), "expected exactly one `go func(){…}()` in ExecutePlan, found %d go statements", len(s.goStmts))
		return
	}
	r.Exists("ExecutePlan.worker", s.goStmts[0].Pos(), "single worker goroutine")
	r.Check(len(s.sends) == 1, "ExecutePlan.worker.sends", s.worker.Pos(),
		"exactly one send site on the result channel in the worker",
		"the worker must have exactly one send site on the result channel (a second send publishes a partial or duplicate result; none blocks the caller)")
	// first deferred function
	var firstDefer *ast.DeferStmt
	for _, st := range s.workerBody.List {
		if d, ok := st.(*ast.DeferStmt); ok {
			firstDefer = d
			break
		}
		if hasEffectfulCall(s.info, st) {
			break
		}
	}
	if firstDefer == nil {
		r.Bad("ExecutePlan.worker.firstDefer", s.worker.Pos(), "the worker does not register a deferred function before its first effectful call: a panic or early exit would never publish a result and the caller would block until ctx is done (forever with Background)")
		return
	}
	dfl, ok := firstDefer.Call.Fun.(*ast.FuncLit)
	if !ok {
		r.Unknown("ExecutePlan.worker.firstDefer", firstDefer.Pos(), "first defer is not a function literal (unrecognised idiom)")
		return
	}
	r.OK("ExecutePlan.worker.firstDefer", firstDefer.Pos(), "deferred before any effectful call of the worker")
	// the send is a direct statement of the deferred literal, after the statement that calls recover()
	recoverIdx, sendIdx := -1, -1
	for i, st := range dfl.Body.List {
		ast.Inspect(st, func(n ast.Node) bool {
			if call, ok := n.(*ast.CallExpr); ok && core.IsBuiltinCall(s.info, call, "recover") && recoverIdx < 0 {
				recoverIdx = i
			}
			return true
		})
		if snd, ok := st.(*ast.SendStmt); ok && len(s.sends) == 1 && snd == s.sends[0] {
			sendIdx = i
		}
	}
	r.Check(recoverIdx >= 0, "ExecutePlan.worker.recover", dfl.Pos(),
		"the first deferred function recovers, so a panic outside field-level handlers becomes a request error",
		"the worker's first deferred function does not call recover(): a panic in the worker crashes the process")
	r.Check(sendIdx >= 0 && recoverIdx >= 0 && recoverIdx < sendIdx, "ExecutePlan.worker.send-in-defer", dfl.Pos(),
		"the single send is an unconditional statement of the first deferred function, after recover()",
		"the single send must be an unconditional top-level statement of the worker's first deferred function and follow its recover(): otherwise some exit (panic, early return) publishes nothing or publishes before errors are recorded")
}

func c16Cap(c *core.Ctx, r *core.Reporter) {
	s := loadExecPlan(c)
	if s == nil || s.chanObj == nil {
		r.Unknown("ExecutePlan.chan", token.NoPos, "result channel not found")
		return
	}
	n := int64(len(s.sends))
	if n == 0 {
		n = 1
	}
	r.Check(s.chanCap >= n, "ExecutePlan.chan.cap", s.capPos,
		"constant capacity covers every send of the worker",
		"result channel capacity is smaller than the number of worker sends (or not constant): after the caller returned on ctx.Done() the worker blocks forever on its send")
}

func c16Select(c *core.Ctx, r *core.Reporter) {
	s := loadExecPlan(c)
	if s == nil || s.chanObj == nil {
		r.Unknown("ExecutePlan.select", token.NoPos, "ExecutePlan or its result channel not found")
		return
	}
	info := s.info
	// ctx variable: assigned from p.Context
	var ctxObj types.Object
	var sel *ast.SelectStmt
	nRecv := 0
	var ctxDefault bool
	core.WalkStack(s.fd.Body, func(n ast.Node, stack []ast.Node) bool {
		switch x := n.(type) {
		case *ast.FuncLit:
			return false
		case *ast.AssignStmt:
			if len(x.Lhs) == 1 && len(x.Rhs) == 1 && core.FieldSel(info, x.Rhs[0], "ExecuteParams", "Context") && ctxObj == nil {
				ctxObj = core.ObjOf(info, x.Lhs[0])
			}
		case *ast.IfStmt:
			// if ctx == nil { ctx = context.Background() }
			if be, ok := x.Cond.(*ast.BinaryExpr); ok && be.Op == token.EQL && ctxObj != nil &&
				core.ObjOf(info, be.X) == ctxObj && isNilIdent(info, be.Y) {
				for _, st := range x.Body.List {
					if as, ok := st.(*ast.AssignStmt); ok && len(as.Lhs) == 1 && len(as.Rhs) == 1 && core.ObjOf(info, as.Lhs[0]) == ctxObj {
						if call, ok := as.Rhs[0].(*ast.CallExpr); ok && core.IsPkgFunc(core.CalleeObj(info, call), "context", "Background") {
							ctxDefault = true
						}
					}
				}
			}
		case *ast.SelectStmt:
			if sel == nil {
				sel = x
			} else {
				sel = nil
				nRecv = 100
			}
		case *ast.UnaryExpr:
			if x.Op == token.ARROW && core.ObjOf(info, x.X) == s.chanObj {
				nRecv++
			}
		case *ast.RangeStmt:
			if core.ObjOf(info, x.X) == s.chanObj {
				nRecv += 100
			}
		}
		return true
	})
	if ctxObj == nil {
		r.Unknown("ExecutePlan.ctx", s.fd.Pos(), "no local initialised from ExecuteParams.Context found")
		return
	}
	r.Check(ctxDefault, "ExecutePlan.ctx.default", s.fd.Pos(),
		"nil context defaults to context.Background()",
		"a nil ExecuteParams.Context is not replaced by context.Background() before use: ctx.Done() on a nil interface panics in the caller")
	if sel == nil {
		r.Bad("ExecutePlan.select", s.fd.Pos(), "ExecutePlan has no single select statement (outside literals) from which it returns")
		return
	}
	r.Check(nRecv == 1, "ExecutePlan.select.only-receive", sel.Pos(),
		"the select arm is the only receive from the result channel",
		"the result channel is received from outside the select (a blocking receive ignores cancellation; a second receive can consume the result)")
	var doneArm, recvArm *ast.CommClause
	other := 0
	for _, cl := range sel.Body.List {
		cc := cl.(*ast.CommClause)
		if cc.Comm == nil {
			other++ // default
			continue
		}
		var rx ast.Expr
		var lhs []ast.Expr
		switch st := cc.Comm.(type) {
		case *ast.ExprStmt:
			rx = st.X
		case *ast.AssignStmt:
			if len(st.Rhs) == 1 {
				rx = st.Rhs[0]
				lhs = st.Lhs
			}
		}
		ue, ok := ast.Unparen(rx).(*ast.UnaryExpr)
		if !ok || ue.Op != token.ARROW {
			other++
			continue
		}
		if core.ObjOf(info, ue.X) == s.chanObj {
			recvArm = cc
			_ = lhs
			continue
		}
		if call, ok := ue.X.(*ast.CallExpr); ok {
			if se, ok := call.Fun.(*ast.SelectorExpr); ok && se.Sel.Name == "Done" && core.ObjOf(info, se.X) == ctxObj {
				doneArm = cc
				continue
			}
		}
		other++
	}
	r.Check(doneArm != nil && recvArm != nil && other == 0, "ExecutePlan.select.arms", sel.Pos(),
		"blocking select with exactly the arms <-ctx.Done() and <-resultChannel",
		"the select must have exactly the two arms <-ctx.Done() and <-resultChannel and no default (a default returns before either; a missing Done arm ignores cancellation)")
	if doneArm == nil || recvArm == nil {
		return
	}
	// receive arm: `case r := <-ch: return r`
	okRecv := false
	if as, ok := recvArm.Comm.(*ast.AssignStmt); ok && len(as.Lhs) == 1 && len(recvArm.Body) == 1 {
		if ret, ok := recvArm.Body[0].(*ast.ReturnStmt); ok && len(ret.Results) == 1 {
			okRecv = core.ObjOf(info, ret.Results[0]) == core.ObjOf(info, as.Lhs[0]) && core.ObjOf(info, as.Lhs[0]) != nil
		}
	}
	r.Check(okRecv, "ExecutePlan.select.recv-arm", recvArm.Pos(),
		"the receive arm returns the received pointer unchanged",
		"the receive arm must return exactly the received result (anything else can drop errors or data of the complete response)")
	// done arm: returns fresh &Result{} (no Data), Errors gets FormatError(ctx.Err())
	var retObj types.Object
	fresh, usesErr, writesData, returns := false, false, false, 0
	for _, st := range doneArm.Body {
		ast.Inspect(st, func(n ast.Node) bool {
			switch x := n.(type) {
			case *ast.AssignStmt:
				for i, l := range x.Lhs {
					if se, ok := l.(*ast.SelectorExpr); ok && se.Sel.Name == "Data" {
						writesData = true
					}
					if i < len(x.Rhs) && isFreshResult(info, x.Rhs[i], &writesData) && x.Tok == token.DEFINE {
						retObj = core.ObjOf(info, l)
						fresh = true
					}
				}
			case *ast.CallExpr:
				if se, ok := x.Fun.(*ast.SelectorExpr); ok && se.Sel.Name == "Err" && core.ObjOf(info, se.X) == ctxObj {
					usesErr = true
				}
			case *ast.ReturnStmt:
				returns++
				if len(x.Results) == 1 {
					if isFreshResult(info, x.Results[0], &writesData) {
						fresh = true
					} else if retObj == nil || core.ObjOf(info, x.Results[0]) != retObj {
						fresh = false
					}
				}
			}
			return true
		})
	}
	r.Check(fresh && returns == 1 && !writesData, "ExecutePlan.select.done-arm.fresh", doneArm.Pos(),
		"the Done arm returns a Result allocated in the arm whose Data is never written",
		"the Done arm must return a Result allocated in the arm itself with no Data: returning shared or partially filled state hands the caller a partial data tree")
	r.Check(usesErr, "ExecutePlan.select.done-arm.err", doneArm.Pos(),
		"the Done arm reports ctx.Err()",
		"the Done arm does not report ctx.Err(): the caller cannot tell cancellation from success")
}

func isNilIdent(info *types.Info, e ast.Expr) bool {
	id, ok := ast.Unparen(e).(*ast.Ident)
	if !ok {
		return false
	}
	_, isNil := info.Uses[id].(*types.Nil)
	return isNil
}

// isFreshResult: &Result{…} composite literal (sets *hasData if the literal has a Data key).
func isFreshResult(info *types.Info, e ast.Expr, hasData *bool) bool {
	ue, ok := ast.Unparen(e).(*ast.UnaryExpr)
	if !ok || ue.Op != token.AND {
		return false
	}
	cl, ok := ue.X.(*ast.CompositeLit)
	if !ok || core.TypeName(info.TypeOf(cl)) != "Result" {
		return false
	}
	for _, el := range cl.Elts {
		if kv, ok := el.(*ast.KeyValueExpr); ok {
			if id, ok := kv.Key.(*ast.Ident); ok && id.Name == "Data" {
				*hasData = true
			}
		} else {
			*hasData = true // positional literal
		}
	}
	return true
}

func c16Partial(c *core.Ctx, r *core.Reporter) {
	s := loadExecPlan(c)
	if s == nil || s.worker == nil {
		r.Unknown("ExecutePlan.worker", token.NoPos, "worker goroutine literal not found")
		return
	}
	info := s.info
	// the named result(s) of ExecutePlan
	named := map[types.Object]bool{}
	if s.fd.Type.Results != nil {
		for _, f := range s.fd.Type.Results.List {
			for _, n := range f.Names {
				named[info.Defs[n]] = true
			}
		}
	}
	captured := false
	// a named worker gets what it works on as arguments: the named result must not be one of them
	for _, a := range s.goStmts[0].Call.Args {
		ast.Inspect(a, func(n ast.Node) bool {
			if id, ok := n.(*ast.Ident); ok && named[info.Uses[id]] {
				captured = true
			}
			return true
		})
	}
	// every *Result-typed variable written inside the worker must be declared inside the worker
	outside := ""
	ast.Inspect(s.worker, func(n ast.Node) bool {
		id, ok := n.(*ast.Ident)
		if !ok {
			return true
		}
		o := info.Uses[id]
		if o == nil {
			return true
		}
		if named[o] {
			captured = true
		}
		if v, ok := o.(*types.Var); ok && !v.IsField() && core.TypeName(v.Type()) == "Result" {
			if !(s.worker.Pos() <= v.Pos() && v.Pos() <= s.worker.End()) && v.Pkg() == c.Pkg("").Types && v.Parent() != c.Pkg("").Types.Scope() {
				outside = core.N(v)
			}
		}
		return true
	})
	r.Check(!captured, "ExecutePlan.worker.captures-result", s.worker.Pos(),
		"the worker closure does not reference ExecutePlan's named result",
		"the worker closure references ExecutePlan's named result: the background goroutine can write the value the caller already returned")
	r.Check(outside == "", "ExecutePlan.worker.shared-result", s.worker.Pos(),
		"every *Result the worker touches is declared inside the worker; it leaves only through the channel",
		"the worker uses a *Result variable ("+outside+") declared outside the goroutine: a partially built result is reachable by the caller without the channel hand-off")
}

func init() {
	register(&core.Rule{Name: "C16/DOM-caller", Props: []string{"C16"}, Min: 1,
		Doc: "on the calling goroutine of ExecutePlan nothing runs schema-supplied code (scalars, resolvers): it all happens behind the ctx/result select", Run: c16Caller})
}

// c16Caller: ExecutePlan returns promptly on cancellation because everything that can block in user code (variable
// coercion calls custom scalars' ParseValue, resolution calls resolvers) runs on the execution goroutine while the
// caller waits in a select on ctx.Done(). Any such call made from ExecutePlan's own frame before the select is
// not covered by it: a cancellation or deadline that hits during it is only noticed when the user code returns.
// Extension hooks are excluded (they are the caller's own instrumentation and are the subject of C17).
func c16Caller(c *core.Ctx, r *core.Reporter) {
	fn := c.Func("", "ExecutePlan")
	if fn == nil {
		r.Unknown("ExecutePlan/caller-frame", token.NoPos, "not found")
		return
	}
	node := c.CallGraph().Nodes[fn]
	if node == nil {
		r.Unknown("ExecutePlan/caller-frame", fn.Pos(), "not in the call graph")
		return
	}
	rc := &core.ReachCfg{OnlyLib: c.IsLib}
	for _, e := range node.Out {
		if e.Site == nil || e.Callee.Func == nil || !c.IsLib(e.Callee.Func) {
			continue
		}
		if _, isGo := e.Site.(*ssa.Go); isGo {
			continue
		}
		rc.Roots = append(rc.Roots, e.Callee.Func)
	}
	// Reach adds a function's closures with it; ExecutePlan's own closures (the goroutine body) are not roots here
	reach := c.Reach(rc)
	bad, where := "", token.NoPos
	for g := range reach {
		if g == fn || g.Parent() == fn {
			continue
		}
		for _, site := range core.CallSites(g) {
			cb := core.UserCallback(site)
			if cb == "" || strings.HasPrefix(cb, "Extension.") || strings.HasSuffix(cb, "FinishFunc") {
				continue
			}
			w := cb + " via " + core.Witness(rc.Parent, g)
			if bad == "" || w < bad {
				bad, where = w, site.Pos()
			}
		}
	}
	if bad != "" {
		r.Bad("ExecutePlan/caller-frame", where, "ExecutePlan's own frame (outside the execution goroutine, before the ctx/result select) reaches schema-supplied code: %s — a cancellation or deadline that hits while that code runs is not noticed until it returns, so the call does not return promptly", bad)
	} else {
		r.OK("ExecutePlan/caller-frame", fn.Pos(), "%d library functions reachable from the caller's frame; none calls a scalar, resolver or type callback", len(reach))
	}
}

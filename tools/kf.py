#!/usr/bin/env python3
"""tools/kf.py add <property> <rule> <construct> <what> <input>   |  fixed <property> <commit> <what>
   tools/kf.py mutant <name> <patchfile> <props,comma> <expect;semicolon> [reverse]"""
import json, sys, os
V = os.path.dirname(os.path.dirname(os.path.abspath(__file__)))
def load(p, d):
    try: return json.load(open(p))
    except FileNotFoundError: return d
if sys.argv[1] in ("add", "fixed"):
    p = os.path.join(V, "known_findings.json")
    k = load(p, {"findings": [], "fixed": []})
    if sys.argv[1] == "add":
        prop, rule, construct, what, inp = sys.argv[2:7]
        k["findings"] = [f for f in k["findings"] if not (f["rule"] == rule and f["construct"] == construct and f["property"] == prop)]
        k["findings"].append({"property": prop, "rule": rule, "construct": construct, "what": what, "input": inp})
    else:
        prop, commit, what = sys.argv[2:5]
        line = f"fixed: property={prop} {commit} {what}"
        if line not in k["fixed"]: k["fixed"].append(line)
    json.dump(k, open(p, "w"), indent=1); open(p, "a").write("\n")
elif sys.argv[1] == "mutant":
    p = os.path.join(V, "mutants", "index.json")
    ms = load(p, [])
    name, patch, props, expect = sys.argv[2:6]
    ms = [m for m in ms if m["name"] != name]
    m = {"name": name, "patch": patch, "properties": props.split(","), "expect": [e for e in expect.split(";") if e]}
    if len(sys.argv) > 6 and sys.argv[6] == "reverse": m["reverse"] = True
    ms.append(m)
    json.dump(ms, open(p, "w"), indent=1); open(p, "a").write("\n")

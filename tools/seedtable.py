#!/usr/bin/env python3
"""tools/seedtable.py — regenerate the table of DESIGN.md section 8 from /verif/seeded/*/meta.json."""
import json, glob, os, re
V = os.path.dirname(os.path.dirname(os.path.abspath(__file__)))
rows = []
det = first = 0
for d in sorted(glob.glob(f"{V}/seeded/*")):
    sid = os.path.basename(d)
    m = json.load(open(d + "/meta.json"))
    rep = m.get("reported", [])
    fr = m.get("reported_first_run", [])
    det += bool(rep); first += bool(fr)
    def short(ks):
        out = []
        for k in ks:
            parts = k.split("/")
            rule = "/".join(parts[:2])
            if rule not in out: out.append(rule)
        return ", ".join(f"`{r}`" for r in out[:3]) + (" …" if len(out) > 3 else "")
    if rep:
        status = ("caught from the start" if fr and set(map(lambda k: "/".join(k.split("/")[:2]), fr)) & set(map(lambda k: "/".join(k.split("/")[:2]), rep)) else "caught after strengthening")
        by = short(m.get("expect") or rep)
        others = [r for r in rep if r not in (m.get("expect") or [])]
        if others:
            o = short(others)
            if o and o != by: by += " (also " + o + ")"
    else:
        status = "**missed**"
        by = m.get("miss_reason", "—")
    rows.append(f"| {sid} | {m['summary']} | {status} | {by} |")
table = ["| change | what it does | result | reported by / why missed |", "|---|---|---|---|"] + rows
def rnd(sid): return 1 if sid.endswith(("-1", "-2")) else 2 if sid.endswith(("-3", "-4")) else 3
stats = {1: [0, 0, 0], 2: [0, 0, 0], 3: [0, 0, 0]}
for d in sorted(glob.glob(f"{V}/seeded/*")):
    sid = os.path.basename(d); m = json.load(open(d + "/meta.json"))
    st = stats[rnd(sid)]; st[0] += 1; st[1] += bool(m.get("reported_first_run")); st[2] += bool(m.get("reported"))
ids = {1: "-1/-2", 2: "-3/-4", 3: "-5/-6"}
txt = "\n".join(table) + "\n\n" + "".join(
    f"Round {k} (ids ending in {ids[k]}): {v[0]} changes; {v[1]} reported by the rules as they stood when the round was run, {v[2]} after strengthening, {v[0]-v[2]} missed.\n" for k, v in stats.items())
p = f"{V}/DESIGN.md"
s = open(p).read()
if "SEEDED-TABLE-PLACEHOLDER" in s:
    s = s.replace("SEEDED-TABLE-PLACEHOLDER", "<!-- seeded-table:begin -->\n" + txt + "<!-- seeded-table:end -->")
else:
    s = re.sub(r"<!-- seeded-table:begin -->.*?<!-- seeded-table:end -->", lambda _: "<!-- seeded-table:begin -->\n" + txt + "<!-- seeded-table:end -->", s, flags=re.S)
open(p, "w").write(s)
print(txt[-200:])

#!/usr/bin/env python3
"""tools/seedcheck.py <out-dir-of-one-change> <property> <seed-id>

Confirms a change written by an independent sub-agent in a scratch worktree of /repo
(outside /repo and /verif, removed afterwards):
  - patch applies to /repo's HEAD, tree builds, existing suite green with the change
  - demo passes without the change and fails with it
then runs gqlvet on the changed tree and lists the obligations that are newly not discharged.
Writes /verif/seeded/<seed-id>/{patch.diff,demo_test.go,meta.json} when the change is confirmed."""
import json, os, re, shutil, subprocess, sys, tempfile

VERIF = os.path.dirname(os.path.dirname(os.path.abspath(__file__)))
ENV = dict(os.environ, GOFLAGS="-mod=mod", GOPROXY="off", GOSUMDB="off", GOTOOLCHAIN="local", GOWORK="off")

PKGDIR = {"graphql": ".", "graphql_test": ".", "parser": "language/parser", "parser_test": "language/parser",
          "lexer": "language/lexer", "lexer_test": "language/lexer", "printer": "language/printer",
          "printer_test": "language/printer", "visitor": "language/visitor", "visitor_test": "language/visitor",
          "ast": "language/ast", "ast_test": "language/ast", "gqlerrors": "gqlerrors", "gqlerrors_test": "gqlerrors",
          "location": "language/location", "location_test": "language/location"}

def run(cmd, cwd, timeout=900):
    p = subprocess.run(cmd, cwd=cwd, env=ENV, shell=True, capture_output=True, text=True, timeout=timeout)
    return p.returncode, (p.stdout + p.stderr)

def obligations(repo):
    rc, out = run(f"{VERIF}/.bin/gqlvet -all -json -repo {repo}", VERIF)
    try:
        d = json.loads(out[out.index("{"):])
    except Exception:
        return None, out[-2000:]
    if "error" in d:
        return None, d["error"]
    return {o["rule"] + "/" + o["construct"]: o for o in d["obligations"]}, ""

def baseline():
    rc, head = run("git -C /repo rev-parse HEAD", "/")
    rc, st = run("git -C /repo status --porcelain", "/")
    cache = f"/tmp/seedchk-base-{head.strip()}.json"
    if not st.strip() and os.path.exists(cache):
        return json.load(open(cache)), ""
    base, e = obligations("/repo")
    if base is not None and not st.strip():
        json.dump(base, open(cache, "w"))
    return base, e

def main():
    src, prop, sid = sys.argv[1], sys.argv[2], sys.argv[3]
    patch = os.path.join(src, "patch.diff")
    demo = os.path.join(src, "demo_test.go")
    notes = os.path.join(src, "NOTES.md")
    res = {"property": prop, "seed": sid}
    wt = tempfile.mkdtemp(prefix="seedchk-")
    os.rmdir(wt)
    try:
        rc, out = run(f"git -C /repo worktree add -q --detach {wt} HEAD", "/")
        if rc: raise SystemExit("worktree: " + out)
        m = re.search(r"^package\s+(\w+)", open(demo).read(), re.M)
        pkg = m.group(1) if m else "graphql_test"
        d = PKGDIR.get(pkg, ".")
        race = "-race " if "-race" in open(notes).read() or "-race" in open(demo).read() else ""
        dst = os.path.join(wt, d, "zz_seed_demo_test.go")
        shutil.copy(demo, dst)
        rc0, out0 = run(f"go test {race}-vet=off -count=1 -run 'Seed|Demo|ZZ' ./{d}/ 2>&1 | tail -15", wt)
        # run every test of the demo file by name
        names = re.findall(r"^func (Test\w+)\(", open(demo).read(), re.M)
        pat = "^(" + "|".join(names) + ")$"
        rc0, out0 = run(f"go test {race}-vet=off -count=1 -run '{pat}' ./{d}/", wt)
        res["demo_passes_unchanged"] = rc0 == 0
        rc, out = run(f"git apply {patch}", wt)
        res["patch_applies"] = rc == 0
        if rc:
            res["error"] = out[-500:]
        else:
            rc, out = run("go build ./...", wt)
            res["builds"] = rc == 0
            rc1, out1 = run(f"go test {race}-vet=off -count=1 -run '{pat}' ./{d}/", wt)
            res["demo_fails_changed"] = rc1 != 0
            res["demo_output"] = out1[-800:]
            os.remove(dst)
            # TestContextDeadline is wall-clock sensitive (100ms budget) and fails on the unchanged tree under load:
            # a failing run is repeated up to twice before the suite is called red
            for attempt in range(3):
                rc, out = run("go test -vet=off -count=1 ./... 2>&1 | grep -E '^(--- FAIL|FAIL|panic)' | head -5", wt)
                res["suite_green"] = out.strip() == ""
                res["suite_output"] = out[-400:]
                res["suite_attempts"] = attempt + 1
                if res["suite_green"]:
                    break
            base, e0 = baseline()
            changed, e1 = obligations(wt)
            if base is None or changed is None:
                res["analysis_error"] = e0 or e1
                res["reported"] = ["LOAD-ERROR: " + (e0 or e1)[:300]] if changed is None else []
            else:
                rep = []
                for k, o in sorted(changed.items()):
                    if o["status"] != "discharged" and (k not in base or base[k]["status"] == "discharged"):
                        rep.append(k)
                res["reported"] = rep
                res["reported_detail"] = {k: changed[k]["detail"][:300] for k in rep[:6]}
    finally:
        run(f"git -C /repo worktree remove --force {wt}", "/")
        shutil.rmtree(wt, ignore_errors=True)
    ok = res.get("patch_applies") and res.get("builds") and res.get("suite_green") and res.get("demo_passes_unchanged") and res.get("demo_fails_changed")
    res["confirmed"] = bool(ok)
    print(json.dumps(res, indent=1))
    if ok:
        dstdir = os.path.join(VERIF, "seeded", sid)
        os.makedirs(dstdir, exist_ok=True)
        shutil.copy(patch, os.path.join(dstdir, "patch.diff"))
        shutil.copy(demo, os.path.join(dstdir, "demo_test.go"))
        if os.path.exists(notes):
            shutil.copy(notes, os.path.join(dstdir, "NOTES.md"))
        props = sorted({prop} | {k.split("/")[0] for k in res["reported"] if re.match(r"C\d\d", k)})
        meta = {
            "property": prop,
            "breaks": "see NOTES.md (written by the sub-agent that produced the change, given only the property text)",
            "needs_to_manifest": "see NOTES.md",
            "ran": [f"git apply patch.diff on a scratch worktree of /repo HEAD; go build ./...; go test -vet=off -count=1 ./... (green); demo_test.go in {d}: passes on the unchanged tree, fails with the change; gqlvet -all on the changed tree"],
            "detected": bool(res["reported"]),
            "reported": res["reported"],
            "expect": res["reported"][:3],
        }
        json.dump(meta, open(os.path.join(dstdir, "meta.json"), "w"), indent=1)

if __name__ == "__main__":
    main()

#!/usr/bin/env python3
"""tools/asbuilt.py — (re)generate the "As built" block at the end of each per-property section of DESIGN.md §4
from the analyser's own rule registry, the known findings, the mutants and the seeded / benign campaigns."""
import json, os, re, subprocess, glob
V = os.path.dirname(os.path.dirname(os.path.abspath(__file__)))
out = subprocess.run([f"{V}/.bin/gqlvet", "-list"], capture_output=True, text=True).stdout
rules = []
for m in re.finditer(r"^(\S+)\s+props=\[([^\]]*)\] min=(\d+)\n\s+(.*)$", out, re.M):
    rules.append({"name": m.group(1), "props": m.group(2).split(), "min": int(m.group(3)), "doc": m.group(4).strip()})
kf = json.load(open(f"{V}/known_findings.json"))
findings = kf.get("findings", kf if isinstance(kf, list) else [])
mut = json.load(open(f"{V}/mutants/index.json"))
seeds = {}
for d in sorted(glob.glob(f"{V}/seeded/*")):
    m = json.load(open(d + "/meta.json")); seeds.setdefault(m["property"], []).append((os.path.basename(d), m))
new_rules = set("C01/REC-anyvar C20/REC-copy C13/FLOW-forced C14/FLOW-unwrap C05/REC-oftype C03/EXH-lineterm-scan C18/EXH-lineterm C18/FLOW-column C18/OWN-path C10/PAIR-append C11/DOM-identity C05/PAIR-fieldloop C06/FLOW-wrappers C08/FLOW-shortform C17/FLOW-recovered C15/FLOW-rawargs C16/DOM-caller C20/PAIR-occurrence C01/FLOW-mergedsub C02/TAB-registrations C01/FLOW-bothdirs C02/FLOW-leafconflict C03/EXH-ascii C04/FLOW-walked C05/DOM-intreturn C05/FLOW-listlen C07/PAIR-once C07/OWN-reslice C08/FLOW-format C09/FLOW-data C11/PAIR-parked C11/PAIR-implloops C12/OWN-errors C13/DOM-nosort C14/DOM-skipenter C15/PAIR-visited C17/FLOW-live C18/FLOW-errpath C18/FLOW-lookahead C19/FLOW-memoadd C19/REC-loopset C17/FLOW-hookerrs C16/FLOW-walkerctx C13/EXH-walkall C14/DOM-kindfirst C12/FLOW-memokey C11/DOM-tablefresh C06/FLOW-plainkey C06/DOM-fporder C02/TAB-dirlocation C10/DOM-metafirst C10/FLOW-typeslist C07/OWN-escape C09/DOM-ctxnil C03/PAIR-prevend".split())
s = open(f"{V}/DESIGN.md").read()
s = re.sub(r"\n<!-- asbuilt:(C\d\d) -->.*?<!-- /asbuilt:\1 -->\n", "\n", s, flags=re.S)
for i in range(1, 21):
    pid = f"C{i:02d}"
    mine = [r for r in rules if pid in r["props"]]
    lines = [f"<!-- asbuilt:{pid} -->", f"**As built ({pid}).** `bin/check {pid} quick|thorough` runs {len(mine)} rules "
             f"(† = added after the design round, see §8.1, §8.2 and §8.3; rules filed under another property's prefix decide a clause of this one too):", ""]
    lines += ["| rule | min. instances | decides |", "|---|---|---|"]
    for r in mine:
        lines.append(f"| `{r['name']}`{' †' if r['name'] in new_rules else ''} | {r['min']} | {r['doc']} |")
    nk = sum(1 for f in findings if f.get("property") == pid)
    nm = sum(1 for m in mut if pid in m.get("properties", []))
    sd = seeds.get(pid, [])
    det = sum(1 for _, m in sd if m.get("detected"))
    lines += ["", f"Recorded known findings: {nk}. Planted mutants for this property: {nm} (all reported). Independent seeded changes: "
              + ", ".join(f"{sid} ({'reported' if m.get('detected') else 'missed'})" for sid, m in sd) + f" — {det}/{len(sd)}. "
              "Negative controls: all of `/verif/benign` are quiet on these rules.", f"<!-- /asbuilt:{pid} -->"]
    block = "\n".join(lines) + "\n"
    # insert before the next "### C" heading or "## 5."
    m = re.search(rf"^### {pid} .*?$", s, re.M)
    if not m:
        print("no section for", pid); continue
    nxt = re.search(r"^(### C\d\d |## 5\. )", s[m.end():], re.M)
    pos = m.end() + nxt.start()
    s = s[:pos] + block + "\n" + s[pos:]
open(f"{V}/DESIGN.md", "w").write(s)
print("ok", len(rules), "rules")

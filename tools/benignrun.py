#!/usr/bin/env python3
"""tools/benignrun.py [dir ...]   (default: every /verif/benign/*)
Negative controls: each directory holds patch.diff, a behaviour-preserving refactoring of /repo written by an
independent sub-agent (suite green). Applies each to a scratch worktree of /repo (outside /repo and /verif, removed
afterwards), runs gqlvet -all and prints every obligation that is not discharged there but is on /repo itself:
any such line is a false alarm of the checker."""
import json, os, subprocess, sys, tempfile, shutil, concurrent.futures as cf
VERIF = os.path.dirname(os.path.dirname(os.path.abspath(__file__)))
ENV = dict(os.environ, GOFLAGS="-mod=mod", GOPROXY="off", GOSUMDB="off", GOTOOLCHAIN="local", GOWORK="off")
def run(cmd, cwd="/"):
    p = subprocess.run(cmd, cwd=cwd, env=ENV, shell=True, capture_output=True, text=True)
    return p.returncode, p.stdout + p.stderr
def obligations(repo):
    rc, out = run(f"{VERIF}/.bin/gqlvet -all -json -repo {repo}", VERIF)
    try:
        d = json.loads(out[out.index("{"):])
    except Exception:
        return None, out[-1500:]
    if "error" in d: return None, d["error"]
    return {o["rule"] + "/" + o["construct"]: o for o in d["obligations"]}, ""
def one(patch, base):
    wt = tempfile.mkdtemp(prefix="benign-"); os.rmdir(wt)
    try:
        rc, out = run(f"git -C /repo worktree add -q --detach {wt} HEAD")
        if rc: return patch, None, out
        rc, out = run(f"git apply {patch}", wt)
        if rc: return patch, None, "STALE: patch does not apply: " + out[-200:]
        rc, out = run("go build ./...", wt)
        if rc: return patch, None, "does not build: " + out[-300:]
        ch, e = obligations(wt)
        if ch is None: return patch, ["LOAD-ERROR"], {"LOAD-ERROR": e}
        rep = [k for k, o in sorted(ch.items()) if o["status"] != "discharged" and (k not in base or base[k]["status"] == "discharged")]
        return patch, rep, {k: ch[k]["detail"][:300] for k in rep}
    finally:
        run(f"git -C /repo worktree remove --force {wt}"); shutil.rmtree(wt, ignore_errors=True)
def main():
    args = [a for a in sys.argv[1:] if not a.startswith("-")]
    patches = []
    for a in args or sorted(os.path.join(VERIF, "benign", d) for d in os.listdir(os.path.join(VERIF, "benign")) if os.path.isdir(os.path.join(VERIF, "benign", d))):
        a = os.path.abspath(a)
        patches.append(a if a.endswith(".diff") else os.path.join(a, "patch.diff"))
    run(f"{VERIF}/bin/check setup")
    base, e = obligations("/repo")
    if base is None: sys.exit("baseline: " + e)
    bad = 0
    with cf.ThreadPoolExecutor(6) as ex:
        for patch, rep, det in ex.map(lambda p: one(p, base), patches):
            name = os.path.relpath(patch, VERIF) if patch.startswith(VERIF) else patch
            if rep is None:
                print(f"{name}: {det}")
            elif rep:
                bad += 1
                print(f"{name}: FALSE ALARM {rep}")
                for k, v in det.items(): print("     ", k, "::", v)
            else:
                print(f"{name}: quiet")
    sys.exit(1 if bad else 0)
main()

#!/usr/bin/env python3
"""tools/seedrun.py [seed-id ...]   (default: every /verif/seeded/*)
Applies each kept seeded change to a scratch worktree of /repo (outside /repo and /verif, removed afterwards),
runs gqlvet -all on it and prints the obligations that are not discharged there but are on /repo itself.
With --update, rewrites detected/reported/expect in seeded/<id>/meta.json."""
import json, os, subprocess, sys, tempfile, shutil, concurrent.futures as cf
VERIF = os.path.dirname(os.path.dirname(os.path.abspath(__file__)))
ENV = dict(os.environ, GOFLAGS="-mod=mod", GOPROXY="off", GOSUMDB="off", GOTOOLCHAIN="local", GOWORK="off")
def run(cmd, cwd="/"):
    p = subprocess.run(cmd, cwd=cwd, env=ENV, shell=True, capture_output=True, text=True)
    return p.returncode, p.stdout + p.stderr
def obligations(repo):
    rc, out = run(f"{VERIF}/.bin/gqlvet -all -json -repo {repo}", VERIF)
    try:
        d = json.loads(out[out.index("{"):])
    except Exception:
        return None, out[-1500:]
    if "error" in d: return None, d["error"]
    return {o["rule"] + "/" + o["construct"]: o for o in d["obligations"]}, ""
def one(sid, base):
    wt = tempfile.mkdtemp(prefix="seedrun-"); os.rmdir(wt)
    try:
        rc, out = run(f"git -C /repo worktree add -q --detach {wt} HEAD")
        if rc: return sid, None, out
        rc, out = run(f"git apply {VERIF}/seeded/{sid}/patch.diff", wt)
        if rc: return sid, None, "patch does not apply: " + out[-300:]
        ch, e = obligations(wt)
        if ch is None: return sid, ["LOAD-ERROR"], e
        rep = [k for k, o in sorted(ch.items()) if o["status"] != "discharged" and (k not in base or base[k]["status"] == "discharged")]
        return sid, rep, {k: ch[k]["detail"][:240] for k in rep}
    finally:
        run(f"git -C /repo worktree remove --force {wt}"); shutil.rmtree(wt, ignore_errors=True)
def main():
    args = [a for a in sys.argv[1:] if not a.startswith("-")]
    update = "--update" in sys.argv; verbose = "-v" in sys.argv or "--verbose" in sys.argv
    ids = args or sorted(os.listdir(f"{VERIF}/seeded"))
    rc, out = run(f"{VERIF}/bin/check setup")
    base, e = obligations("/repo")
    if base is None: sys.exit("baseline: " + e)
    with cf.ThreadPoolExecutor(6) as ex:
        for sid, rep, det in ex.map(lambda s: one(s, base), ids):
            meta_p = f"{VERIF}/seeded/{sid}/meta.json"
            meta = json.load(open(meta_p))
            own = [k for k in (rep or []) if k.startswith(meta["property"] + "/")]
            print(f"{sid}: {'DETECTED' if rep else 'missed'} {rep if rep is not None else det}")
            if verbose and rep:
                for k, v in det.items(): print("     ", k, "::", v)
            if update and rep is not None:
                meta["detected"] = bool(rep); meta["reported"] = rep; meta["expect"] = (own or rep)[:3]
                json.dump(meta, open(meta_p, "w"), indent=1)
main()

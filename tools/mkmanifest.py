#!/usr/bin/env python3
"""Regenerates /verif/MANIFEST.json from the table below (kept here so that the
manifest stays consistent with the rules actually registered in gqlvet)."""
import json, os, subprocess, sys

VERIF = os.path.dirname(os.path.dirname(os.path.abspath(__file__)))

# property id -> (design_ref, level text, level note, technique)
CLAIMED = {
}

# property id -> reason (only while a property has no rules yet / genuinely cannot be decided)
NOT_APPLICABLE = {
}

def load_table():
    here = os.path.join(VERIF, "tools", "manifest_table.json")
    with open(here) as f:
        t = json.load(f)
    return t["claimed"], t["not_applicable"]

def main():
    claimed, na = load_table()
    props = [json.loads(l)["id"] for l in open(os.path.join(VERIF, "properties.jsonl")) if l.strip()]
    for p in props:
        if (p in claimed) == (p in na):
            sys.exit(f"{p}: must be exactly one of claimed / not_applicable")
    checks = []
    for p in props:
        if p not in claimed:
            continue
        c = claimed[p]
        checks.append({
            "property_id": p,
            "quick_cmd": f"bin/check {p} quick",
            "thorough_cmd": f"bin/check {p} thorough",
            "evidence_file": f"/verif/evidence/{p}.json",
            "replay_cmd_template": "bin/check --replay {path}",
            "engine": "gqlvet",
            "level_claimed": {"category": "other", "text": c["text"], "design_ref": c["design_ref"]},
            "level_note": c["note"],
            "technique": c["technique"],
        })
    m = {
        "version": 1,
        "setup_cmd": "bin/check setup",
        "hooks": {
            "guard": "verif",
            "enable": "none needed: the analysis reads source; no hook commits exist (thorough tier additionally type-checks /repo with -tags verif so tagged files would be covered)",
            "baseline_off_cmd": "cd /repo && GOFLAGS=-mod=mod go test -vet=off -count=1 ./...",
            "source_commits": [],
            "add_only": True,
        },
        "engines": [{
            "name": "gqlvet",
            "path": "/verif/gqlvet",
            "serves_properties": [c["property_id"] for c in checks],
            "kind_free_text": "repository-specific static analyser (Go; go/packages + go/types + go/ssa + CHA/VTA call graph from vendored golang.org/x/tools v0.29.0); decides structural clauses as rule/construct obligations; never runs library code",
        }],
        "checks": checks,
        "notes": "All claims are level 'other': each check decides named structural necessary conditions of its property by static analysis of /repo's current source (see DESIGN.md section per property for what is and is not decided). Known genuine defects are listed in /verif/known_findings.json and printed as KNOWN-FINDING lines. thorough = same rules on three build configurations (VTA call graph, GOARCH=386, -tags verif) plus the mutant self-test (/verif/mutants, /verif/seeded) on scratch copies.",
        "not_applicable": [{"property_id": p, "reason": na[p]} for p in props if p in na],
    }
    with open(os.path.join(VERIF, "MANIFEST.json"), "w") as f:
        json.dump(m, f, indent=1)
        f.write("\n")
    print(f"MANIFEST.json: {len(checks)} checks, {len(m['not_applicable'])} not_applicable")

if __name__ == "__main__":
    main()

#!/bin/bash
# tools/mkmut.sh <name> <props,comma> <expect;semicolon> <file> <python-expr transforming s>   — make a mutant patch from an edit of /repo (restored afterwards)
set -e
name="$1"; props="$2"; expect="$3"; file="$4"; expr="$5"
V="$(cd "$(dirname "$0")/.." && pwd)"
cd /repo
[ -z "$(git status --porcelain)" ] || { echo "/repo not clean"; exit 1; }
python3 - "$file" "$expr" <<'PY'
import sys,re
f,expr=sys.argv[1],sys.argv[2]
s=open(f).read()
t=eval(expr)
assert t!=s, "mutation did not change the file"
open(f,'w').write(t)
PY
export GOFLAGS=-mod=mod GOPROXY=off GOSUMDB=off GOTOOLCHAIN=local
if ! go build ./... ; then git checkout -- .; echo "mutant does not build"; exit 1; fi
if [ "${RUNTESTS:-0}" = 1 ]; then go test -vet=off -count=1 ./... 2>&1 | grep -E "^(--- FAIL|FAIL|panic)" | head -5 || true; fi
git diff > "$V/mutants/$name.patch"
git checkout -- .
"$V/tools/kf.py" mutant "$name" "mutants/$name.patch" "$props" "$expect"
echo "mutant $name written"

#!/usr/bin/env python3
"""tools/claim.py <Cxx> <design_ref> <text> <note> <technique>  — move a property from not_applicable to claimed"""
import json, sys, os
V = os.path.dirname(os.path.dirname(os.path.abspath(__file__)))
p = os.path.join(V, "tools", "manifest_table.json")
t = json.load(open(p))
pid, ref, text, note, tech = sys.argv[1:6]
t["claimed"][pid] = {"design_ref": ref, "text": text, "note": note, "technique": tech}
t["not_applicable"].pop(pid, None)
json.dump(t, open(p, "w"), indent=1)
